"""Cross-check of the hand-written Python strict readers against the proved Lean reader `Ser.readForest`
(`lean/MdVerif/Spec/Reader.lean`, driver op `read <html|xhtml> <str>`; `C14_roundtrip` is proved about it).

    run(driver, rng, n) -> {'cases', 'distinct', 'disagreements', 'samples', 'dist'}

  P1 = `htmlread.forest(s, fmt)`             (oracles C05 / C06)
  P2 = `htmlread2.read(s, fmt)` strict mode   (oracles C14 / C16 / C17; `lenient_void=True` is not compared: it is
                                               documented as accepting both void spellings on purpose)
  L  = op `read`

Inputs: (a) real outputs of `markdown.markdown` for random documents (with and without raw HTML / entity references),
both formats, each read in BOTH modes; (b) hostile strings: mutated outputs (dropped / added quotes, bare `&`, `<`,
`>`, dropped or swapped tags, duplicated attributes, changed case, white space inside tags, other void spellings,
truncation, spliced comments / PIs / script), a catalogue of hand-written edge cases, and random soups over a markup
alphabet.

Compared: accept / reject, and — when both accept — the parsed forest after mapping to a common canonical form
(P2: entity tokens, `&quot;` in text = `"`, comment / PI content tokenised; P1: everything unescaped with
`html.unescape`, entity by entity).

The three readers do not define the same language on purpose.  A difference is NOT counted as a disagreement when the
reader that accepted shows, in its own parse, one of these documented features (counted in `dist` under `design:`):

  P accepts, L rejects (the dangerous direction: an oracle built on P would let such a string pass)
    P2 name_chars      a tag or attribute name with a character outside L's class [A-Za-z0-9:_.-]  (P2 follows the HTML
                       syntax: a name ends at white space or one of / > = < " ' &)
    P2 tag_whitespace  white space inside a tag other than one blank before each attribute / before `/>`  (verified: after
                       normalising the white space of the tags L accepts and reads the same forest)
    P2 raw_lt          script / style text containing `<` (P2 reads up to `</script`; L requires text without `<`)
    P1 void_set        an element of HTML_EMPTY other than br, hr, img (P1 knows only Markdown's three void elements)
    P1 rawtext         a script / style element (P1 has no raw-text elements)
  L accepts, P rejects
    P2 comment_content a comment / PI holding `<`, `>` or a bare `&` (L keeps the content verbatim)
    P1 comment_pi, name_grammar, void_set, rawtext    outside P1's documented grammar
Everything else is a disagreement; `dist['DANGEROUS']` counts those where a Python reader accepts and L rejects.

History: the first run found one real difference — L accepted an attribute name written twice in a tag
(`<a href="x" href="y">`), both Python readers reject it.  `readAttrs` in `Spec/Reader.lean` now rejects it too (and
`C14_roundtrip` is re-proved); such inputs are still generated (mutation "duplicate an attribute").
"""
from __future__ import annotations
import html as _html
import re
from collections import Counter

try:
    import proto
except ModuleNotFoundError:          # run as a script: the harness directory is the parent of corr/
    import os, sys
    sys.path.insert(0, os.path.dirname(os.path.dirname(os.path.abspath(__file__))))
    import proto
import htmlread as P1
import htmlread2 as P2

L_NAME = re.compile(r'[A-Za-z0-9:_.\-]+\Z')
EXTRA_VOID = P2.VOID - frozenset(P1.VOID)
ENT = re.compile('&(#[0-9]+|#[xX][0-9a-fA-F]+|[0-9A-Za-zİıſK]+);')
BASIC = {'amp': '&', 'lt': '<', 'gt': '>', 'quot': '"'}


# ------------------------------------------------------------------ the Lean rendering
def parse_lean(a):
    """`F:…` -> list of items  ('e', tag, ((k, toks), …), (items…)) | ('t', toks) | ('c', str) | ('p', str) | ('r', str);
    a token is a character or ('ent', body)"""
    assert a.startswith('F:'), a[:40]
    s = a[2:]
    pos = 0

    def dstr(f):
        return '' if f == '' else ''.join(chr(int(t)) for t in f.split(','))

    def dtoks(f):
        if f == '': return ()
        out = []
        for t in f.split(','):
            if t.startswith('&'):
                body = t[1:]
                out.append(('ent', '' if body == '' else ''.join(chr(int(x)) for x in body.split('.'))))
            else:
                out.append(chr(int(t)))
        return tuple(out)

    def items():
        nonlocal pos
        out = []
        while pos < len(s) and s[pos] != ']':
            if s[pos] == ' ':
                pos += 1; continue
            kind = s[pos:pos + 2]; assert s[pos + 2] == '[', s[pos:pos + 10]
            pos += 3
            if kind == 'el':
                j = s.index('|', pos); tag = dstr(s[pos:j]); pos = j + 1
                j = s.index('|', pos); af = s[pos:j]; pos = j + 1
                attrs = []
                if af:
                    for kv in af.split(';'):
                        k, v = kv.split('=')
                        attrs.append((dstr(k), dtoks(v)))
                kids = items()
                assert s[pos] == ']'; pos += 1
                out.append(('e', tag, tuple(attrs), tuple(kids)))
            else:
                j = s.index(']', pos); f = s[pos:j]; pos = j + 1
                if kind == 'tx': out.append(('t', dtoks(f)))
                else: out.append(({'cm': 'c', 'pi': 'p', 'rw': 'r'}[kind], dstr(f)))
        return out
    r = items()
    assert pos == len(s)
    return r


def walk(forest):
    for nd in forest:
        yield nd
        if nd[0] == 'e':
            yield from walk(nd[3])


# ------------------------------------------------------------------ canonical forms
def _strict_tokens(s):
    """entity tokens of comment / PI content, `None` when it holds `<`, `>` or a bare `&` (written independently of P2)"""
    out = []; i = 0
    while i < len(s):
        c = s[i]
        if c == '&':
            m = ENT.match(s, i)
            if not m: return None
            out.append(BASIC.get(m.group(1), ('ent', m.group(1)))); i = m.end(); continue
        if c in '<>': return None
        out.append(c); i += 1
    return tuple(out)


def canon_L_for_P2(forest):
    out = []
    for nd in forest:
        if nd[0] == 'e':
            out.append(('e', nd[1], nd[2], canon_L_for_P2(nd[3])))
        elif nd[0] == 't':
            out.append(('t', tuple('"' if t == ('ent', 'quot') else t for t in nd[1])))
        elif nd[0] in 'cp':
            out.append((nd[0], _strict_tokens(nd[1])))
        else:
            out.append(nd)
    return tuple(out)


def canon_P2(forest):
    out = []
    for nd in forest:
        if nd[0] == 'e': out.append(('e', nd[1], tuple((k, tuple(v)) for k, v in nd[2]), canon_P2(nd[3])))
        elif nd[0] == 'r': out.append(('r', nd[1]))
        else: out.append((nd[0], tuple(nd[1])))
    return tuple(out)


def _unesc(toks):
    return ''.join(t if isinstance(t, str) else _html.unescape('&%s;' % t[1]) for t in toks)


def canon_L_for_P1(forest):
    out = []
    for nd in forest:
        if nd[0] == 'e': out.append((nd[1], tuple((k, _unesc(v)) for k, v in nd[2]), canon_L_for_P1(nd[3])))
        elif nd[0] == 't': out.append(_unesc(nd[1]))
        else: out.append(nd)          # comment / PI / raw: P1 has none
    return tuple(out)


def canon_P1(children):
    return tuple(c if isinstance(c, str) else (c[0], tuple(c[1]), canon_P1(c[2])) for c in children)


# ------------------------------------------------------------------ documented design differences
_TAG = re.compile(r'<(?![!?])[^<>]*>')


def normalise_tag_ws(s):
    """one blank before each attribute and before `/>`, no other white space inside tags (outside quoted values)"""
    def fix(m):
        t = m.group(0)
        parts = re.split(r'("[^"]*")', t)
        for i in range(0, len(parts), 2):
            p = re.sub(r'[ \t\n\r\f]+', ' ', parts[i])
            parts[i] = p
        t = ''.join(parts)
        t = re.sub(r' (?=>\Z)', '', t)
        return t
    return _TAG.sub(fix, s)


def p2_reasons(forest, s, fmt, lean_read):
    """P2 accepted `s`, L did not (or read something else): which documented leniencies of P2 does its parse show?"""
    rs = set()
    for nd in P2.walk(forest):
        if not L_NAME.match(nd[1]) or any(not L_NAME.match(k) for k, _ in nd[2]): rs.add('name_chars')
        if any(k[0] == 'r' and '<' in k[1] for k in nd[3]): rs.add('raw_lt')
    if not rs:
        s2 = normalise_tag_ws(s)
        if s2 != s:
            a = lean_read(s2, fmt)
            if a != 'none' and canon_L_for_P2(parse_lean(a)) == canon_P2(forest): rs.add('tag_whitespace')
    return rs


def l_reasons_vs_p2(lf):
    rs = set()
    for nd in walk(lf):
        if nd[0] in 'cp' and _strict_tokens(nd[1]) is None: rs.add('comment_content')
    return rs


def p1_reasons(children):
    rs = set()
    for nd in P1.elements(children):
        low = nd[0].lower()
        if low in EXTRA_VOID: rs.add('void_set')
        if low in P2.RAWTEXT: rs.add('rawtext')
    return rs


def l_reasons_vs_p1(lf):
    rs = set()
    for nd in walk(lf):
        if nd[0] in 'cp': rs.add('comment_pi')
        elif nd[0] == 'r': rs.add('rawtext')
        elif nd[0] == 'e':
            low = nd[1].lower()
            if not P1._NAME.fullmatch(nd[1]) or any(not P1._ANAME.fullmatch(k) for k, _ in nd[2]): rs.add('name_grammar')
            if low in EXTRA_VOID: rs.add('void_set')
            if low in P2.RAWTEXT: rs.add('rawtext')
    return rs


def has_dup_attr(lf):
    return any(nd[0] == 'e' and len({k for k, _ in nd[2]}) != len(nd[2]) for nd in walk(lf))


# ------------------------------------------------------------------ inputs
CATALOGUE = [
    '', 'a', 'a &amp; b', 'a & b', 'a &b; c', 'a &#12; &#x1F; &#X1f; &ſ; &K;', '&#;', '&#x;', '&;', 'a > b', 'a < b', 'a " b \' c',
    '<p>x</p>', '<p>x', 'x</p>', '<p>x</q>', '<p><em>x</p></em>', '<P>x</p>', '<P>x</P>', '<p>x</p >', '<p >x</p>', '<p\n>x</p>',
    '<br>', '<br />', '<br/>', '<br  />', '<br></br>', '<BR>', '<BR />', '<hr />x<hr>', '<img src="a" alt="b" />', '<img src="a" alt="b">',
    '<img alt src="s">', '<img alt src="s" />', '<img alt="alt" src="s" />', '<a href="x" href="y">t</a>', '<a href="x"title="y">t</a>',
    '<a  href="x">t</a>', '<a href = "x">t</a>', '<a href=x>t</a>', "<a href='x'>t</a>", '<a href="x>t</a>', '<a href="a&quot;b">t</a>',
    '<a href="a"b">t</a>', '<a href="a&b">t</a>', '<a href="a&amp;b">t</a>', '<a href="a<b">t</a>', '<a href="a>b">t</a>', '<a href="a\nb">t</a>',
    '<a href="&#10;">t</a>', '<a\thref="x">t</a>', '<a\nhref="x">t</a>', '<a href="x" >t</a>', '<a href="x"/>', '<a href="x" />',
    '<input>', '<input />', '<input></input>', '<input type="a">', '<link /><meta>', '<wbr>x', '<!-- c -->', '<!-- a < b -->', '<!-- a & b -->',
    '<!-- a &amp; b --> x', '<!---->', '<!-- a -- b -->', '<!-- a --> b -->', '<!-- unclosed', '<?php x ?>', '<? a > b ?>', '<??>', '<?x', '<!DOCTYPE html>',
    '<script>a</script>', '<script>a & b</script>', '<script>a<b</script>', '<script>a</SCRIPT>', '<SCRIPT>a</SCRIPT>', '<script></script>',
    '<style>p > a {}</style>', '<script>x', '<script><b>x</b></script>', '<x-y>a</x-y>', '<x:y z.w="1">a</x:y>', '<1>a</1>', '<->a</->',
    '<a!b>x</a!b>', '<é>x</é>', '<p é="x">y</p>', '<p 1="x">y</p>', '<p -a="x">y</p>', '<p _a="x">y</p>', '<p :a="x">y</p>', '<p a.b="x">y</p>',
    '<p a="x" a="x">y</p>', '<p a b>y</p>', '<p a a>y</p>', '<p a="1" b>y</p>', '<p a=>y</p>', '<p a="">y</p>', '<p ="x">y</p>', '<p a="x"b>y</p>',
    '< p>x</p>', '<>x</>', '</>', '<', '>', '<p', '<p a', '<p a="', '<p a="x', '<p a="x"', '</p', '<p></p', '<p><', '<p>&quot;</p>', '&quot;',
    '<em><strong>x</strong></em>', '<ul>\n<li>a</li>\n</ul>', '<pre><code>x &gt; y\n</code></pre>', '<p>a<br />\nb</p>', '<p>a<br>\nb</p>',
    '<h1>x</h1>\n<hr />', '\x02wzxhzdk:0\x03', '<p title="\x02amp\x03">x</p>', '<p>a\x00b</p>', '<p> </p>', '<p>x</p>\n', ' <p>x</p>',
    '<p>a</p><p>b</p>', 'a<b>c</b>d<i>e</i>f', '<p>&amp;amp;</p>', '<p>&amp</p>', '<p>&#38</p>', '<p>&#xZ;</p>', '<p>&a b;</p>',
    '<br />\n<br />', '<br>x</br>', '<p/>', '<p />', '<div><br></div>', '<div><br /></div>', '<IMG SRC="x">', '<Img src="x" />',
]

SOUP = ['<', '<', '>', '>', '/', '</', ' />', '"', '"', ' ', ' ', '=', '="', '&', '&amp;', '&lt;', '&#1;', ';', '#', 'x', 'a', 'p', 'br', 'hr', 'img',
        'em', 'b', 'href', 'alt', '-', '!', '?', '<!--', '-->', '<?', '?>', '\n', '\t', "'", 'script', 'input', 'İ', 'K', 'é', '1',
        '<p>', '</p>', '<br>', '<br />', '<em>', '</em>', '<a href="u">', '</a>']

SPLICE = ['&', '<', '>', '"', "'", ' ', '  ', '\n', '\t', '/', '=', ';', '&amp;', '&#', '<!-- c -->', '<!-- < -->', '<?pi?>', '<script>s</script>',
          '<script>a<b</script>', '<br>', '<br />', '<br/>', '<input>', '<input />', '</p>', '<p>', '<em>', '</em>', ' a="1"', ' b', ' a="1" a="2"',
          '<x-y>', '</x-y>', 'İ', '&K;', '&nbsp;', '\x02', '<P>', '</P>']


def mutate(rng, s):
    if not s: return rng.choice(SPLICE)
    k = rng.random()
    i = rng.randrange(len(s))
    if k < 0.18: return s[:i] + s[i + 1:]                                   # drop a character
    if k < 0.30:                                                              # drop a quote / bracket
        idx = [j for j, c in enumerate(s) if c in '"<>/= &;']
        if idx:
            j = rng.choice(idx); return s[:j] + s[j + 1:]
        return s[:i] + s[i + 1:]
    if k < 0.55: return s[:i] + rng.choice(SPLICE) + s[i:]                   # splice something in
    if k < 0.63:                                                              # drop a whole tag
        ms = list(re.finditer(r'<[^<>]*>', s))
        if ms:
            m = rng.choice(ms); return s[:m.start()] + s[m.end():]
        return s[:i]
    if k < 0.71:                                                              # swap two tags
        ms = list(re.finditer(r'<[^<>]*>', s))
        if len(ms) >= 2:
            a, b = sorted(rng.sample(range(len(ms)), 2)); ma, mb = ms[a], ms[b]
            return s[:ma.start()] + mb.group(0) + s[ma.end():mb.start()] + ma.group(0) + s[mb.end():]
        return s[:i]
    if k < 0.78:                                                              # duplicate an attribute
        m = re.search(r' [A-Za-z]+="[^"]*"', s)
        if m: return s[:m.end()] + m.group(0) + s[m.end():]
        return s[:i] + ' a="1" a="2"' + s[i:]
    if k < 0.84:                                                              # change the case of a tag
        ms = list(re.finditer(r'</?[a-z0-9]+', s))
        if ms:
            m = rng.choice(ms); return s[:m.start()] + m.group(0).upper() + s[m.end():]
        return s.upper()
    if k < 0.90:                                                              # other void / attribute spellings
        return rng.choice([s.replace(' />', '/>', 1), s.replace(' />', '>', 1), s.replace('>', ' />', 1), s.replace('="', '=', 1),
                           s.replace('="', "='", 1), s.replace('" ', '"', 1), s.replace(' ', '  ', 1), s.replace(' ', '\n', 1),
                           s.replace('>', ' >', 1)])
    if k < 0.95: return s[:i]                                                 # truncate
    return s[i:]


def gen_doc(rng):
    from gen import common as G
    r = rng.random()
    if r < 0.35: return G.soup(rng, G.alphabet(html=False, amp=True, refs=True), 1, 18).replace('<', '')
    if r < 0.55: return G.lines_doc(rng, 1, 8)
    if r < 0.70: return G.fragment(rng, 160)
    if r < 0.90: return G.soup(rng, G.alphabet(html=True, amp=True, refs=True), 1, 18)
    return G.mutated(rng, 160)


# ------------------------------------------------------------------ the comparison
def run(driver, rng, n):
    import random
    import markdown
    if isinstance(rng, int): rng = random.Random(rng)
    dist = Counter(); disagreements = []; samples = []
    inputs = []            # (string, origin)
    seen = set()

    def add(s, origin):
        if not proto.lean_ok(s) or s in seen: return
        seen.add(s); inputs.append((s, origin))

    outputs = []
    mds = {f: markdown.Markdown(output_format=f) for f in ('html', 'xhtml')}
    for _ in range(n):
        src = gen_doc(rng)
        for f in ('html', 'xhtml'):
            try:
                out = mds[f].reset().convert(src)
            except Exception:
                dist['convert_raised'] += 1; continue
            outputs.append(out); add(out, 'output:' + f)
    for s in CATALOGUE: add(s, 'catalogue')
    for _ in range(2 * n):
        s = rng.choice(outputs) if outputs else ''
        if len(s) > 400:
            a = rng.randrange(len(s) - 200); s = s[a:a + 200]
        for _ in range(rng.choice([1, 1, 1, 2, 3])): s = mutate(rng, s)
        add(s, 'mutated')
    for _ in range(n):
        add(''.join(rng.choice(SOUP) for _ in range(rng.randint(1, 14))), 'soup')

    cache = {}

    def lean_read(s, fmt):
        key = (s, fmt)
        if key not in cache: cache[key] = driver.ask('read', fmt, proto.enc_str(s))
        return cache[key]

    reqs = [(s, f) for s, _ in inputs for f in ('html', 'xhtml')]
    for i in range(0, len(reqs), 5000):
        part = reqs[i:i + 5000]
        ans = driver.ask_many([('read', f, proto.enc_str(s)) for s, f in part])
        for k, a in zip(part, ans): cache[k] = a

    def note(reader, s, fmt, origin, kind, model, impl, dangerous):
        dist['disagreements'] += 1
        if dangerous: dist['DANGEROUS'] += 1
        if len(disagreements) < 300:
            disagreements.append({'op': 'read %s vs %s' % (fmt, reader), 'input': s, 'origin': origin, 'kind': kind,
                                  'dangerous': dangerous, 'model': model, 'impl': impl})

    cases = 0
    for s, origin in inputs:
        for fmt in ('html', 'xhtml'):
            a = lean_read(s, fmt)
            lf = None if a == 'none' else parse_lean(a)
            dist['L_accept' if lf is not None else 'L_reject'] += 1
            dist['origin:' + origin.split(':')[0]] += 1
            dup = lf is not None and has_dup_attr(lf)
            # ---------------- P2
            cases += 1
            f2, err2 = P2.try_read(s, fmt)
            if f2 is not None and lf is not None:
                c2, cl = canon_P2(f2), canon_L_for_P2(lf)
                if c2 == cl: dist['P2:both_accept_same'] += 1
                else:
                    rs = p2_reasons(f2, s, fmt, lean_read)
                    if rs: dist['design:P2 ' + '+'.join(sorted(rs)) + ' (forest)'] += 1
                    else: note('P2', s, fmt, origin, 'forest differs', repr(cl), repr(c2), False)
            elif f2 is not None:
                rs = p2_reasons(f2, s, fmt, lean_read)
                if rs: dist['design:P2 accepts ' + '+'.join(sorted(rs))] += 1
                else: note('P2', s, fmt, origin, 'P2 accepts, L rejects', 'none', repr(canon_P2(f2)), True)
            elif lf is not None:
                rs = l_reasons_vs_p2(lf)
                if rs: dist['design:P2 rejects ' + '+'.join(sorted(rs))] += 1
                else: note('P2', s, fmt, origin, 'L accepts, P2 rejects' + (' (duplicate attribute)' if dup else ''),
                           repr(canon_L_for_P2(lf)), 'ReadError: ' + err2, False)
            else: dist['P2:both_reject'] += 1
            # ---------------- P1
            cases += 1
            try:
                f1 = P1.forest(s, fmt); err1 = None
            except P1.NotWellFormed as e:
                f1 = None; err1 = str(e)
            if f1 is not None and lf is not None:
                c1, cl = canon_P1(f1), canon_L_for_P1(lf)
                if c1 == cl: dist['P1:both_accept_same'] += 1
                else:
                    rs = p1_reasons(f1) | l_reasons_vs_p1(lf)
                    if rs: dist['design:P1 ' + '+'.join(sorted(rs)) + ' (forest)'] += 1
                    else: note('P1', s, fmt, origin, 'forest differs', repr(cl), repr(c1), False)
            elif f1 is not None:
                rs = p1_reasons(f1)
                if rs: dist['design:P1 accepts ' + '+'.join(sorted(rs))] += 1
                else: note('P1', s, fmt, origin, 'P1 accepts, L rejects', 'none', repr(canon_P1(f1)), True)
            elif lf is not None:
                rs = l_reasons_vs_p1(lf)
                if rs: dist['design:P1 rejects ' + '+'.join(sorted(rs))] += 1
                else: note('P1', s, fmt, origin, 'L accepts, P1 rejects' + (' (duplicate attribute)' if dup else ''),
                           repr(canon_L_for_P1(lf)), 'NotWellFormed: ' + err1, False)
            else: dist['P1:both_reject'] += 1
            if lf is not None and len(samples) < 10 and origin != 'catalogue' and rng.random() < 0.01:
                samples.append({'input': s[:200], 'fmt': fmt, 'origin': origin, 'lean': a[:200]})
    dist.setdefault('disagreements', 0); dist.setdefault('DANGEROUS', 0)
    return {'cases': cases, 'distinct': len(inputs), 'disagreements': disagreements, 'samples': samples, 'dist': dict(dist)}


if __name__ == '__main__':
    import sys, json, time, random
    n = int(sys.argv[1]) if len(sys.argv) > 1 else 500
    d = proto.Driver(sys.argv[2] if len(sys.argv) > 2 else None)
    t0 = time.time()
    r = run(d, random.Random(int(sys.argv[3]) if len(sys.argv) > 3 else 14), n)
    d.close()
    print(json.dumps({k: r[k] for k in ('cases', 'distinct')}), '(%.1fs)' % (time.time() - t0))
    for k in sorted(r['dist']): print('  %-60s %d' % (k, r['dist'][k]))
    kinds = Counter((x['op'].split(' vs ')[1], x['kind']) for x in r['disagreements'])
    print('disagreements (first %d stored):' % len(r['disagreements']), dict(kinds))
    shown = Counter()
    for x in r['disagreements']:
        key = (x['op'].split(' vs ')[1], x['kind'])
        if shown[key] < 6:
            shown[key] += 1
            print('  ', json.dumps({k: x[k] for k in ('op', 'kind', 'input', 'impl')}, ensure_ascii=True)[:400])
