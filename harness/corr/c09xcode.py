"""Statement test for `C09X_doc_trailing` (Props/C09XCode.lean): `convertX x cfg (src ++ "\n"*m) = convertX x cfg src` for
documents that END IN A CODE BLOCK (indented code as last top-level block; also with footnotes defined -- the footnote
`div` is appended behind the code block --, with the footnote place marker inside the code, abbreviations, toc, attr_list),
random subsets of the eleven extensions, tab in {4, 2, 8}, both output formats: on the real implementation and on the model
(driver op `convertx`; pairs where the model answers `ood`/`oof` are counted, not compared)."""
import os, random, sys
sys.path.insert(0, os.path.dirname(os.path.dirname(os.path.abspath(__file__))))
sys.path.insert(0, os.path.dirname(os.path.abspath(__file__)))
import markdown
import proto
import pipelinex as PX

CODE = ['code', 'a *b*', 'x\n{t}y', 'x\n\n{t}y', 'x\n\n\n{t}y', '///Footnotes Go Here///', 'a ///Footnotes Go Here/// b', 'X HTML', '[^1]', '[TOC]', '{: .c }',
        'a  ', 'a\n{t}  b  ', '# h', '- li', '> q', '| a | b |', '```', '[[w]]', '&amp; &', 'é', '    deeper', 'a\n{t}', '*[X]: T', '[^1]: n']
HEAD = ['', '', 'para\n\n', '# h\n\n', '- li\n\n', 'x[^1]\n\n[^1]: note\n\n', '*[X]: T\n\nX\n\n', '[TOC]\n\n# a\n\n', 'p\n{: .c }\n\n', '!!! note\n    adm\n\n',
        'T\n:   d\n\n', '| a | b |\n|---|---|\n| c | d |\n\n', '```\nf\n```\n\n', 'x[^1]\n\n///Footnotes Go Here///\n\n[^1]: n\n\n', '    first code\n\n', '> q\n\n',
        'x[^1] y[^2]\n\n[^1]: a\n[^2]: b\n\n        fncode\n\n']


def gen(rng, tab):
    r = rng.random()
    head = rng.choice(HEAD) if r < 0.6 else (PX.gen(rng).rstrip('\n') + '\n\n' if r < 0.95 else '')
    ind = ' ' * tab
    code = ind + rng.choice(CODE).replace('{t}', ind)
    if rng.random() < 0.2: code = ind + rng.choice(CODE).replace('{t}', ind) + rng.choice(['\n', '\n\n']) + code
    tail = rng.choice(['', '', '', '\n', ' ', '  \n', '\n\n', '\r', '\r\n', '\t'])
    return (head + code + tail).replace('<', '')


def main(n, seed):
    rng = random.Random(seed)
    d = proto.Driver()
    cases = []
    while len(cases) < n:
        tab = rng.choice([4, 4, 4, 2, 8])
        s = gen(rng, tab)
        if not proto.lean_ok(s) or 'Σ' in s: continue
        r = rng.random()
        names = set(PX.SUPPORTED) if r < 0.35 else ({rng.choice(PX.SUPPORTED)} if r < 0.45 else {e for e in PX.SUPPORTED if rng.random() < 0.5})
        if r > 0.97: names = set()
        cases.append((s, rng.randint(1, 5), tab, rng.choice(['xhtml', 'xhtml', 'html']), PX.flags_of(names)))
    reqs = []
    for s, m, tab, fmt, fl in cases:
        reqs.append(('convertx', fl, str(tab), fmt, proto.enc_str(s)))
        reqs.append(('convertx', fl, str(tab), fmt, proto.enc_str(s + '\n' * m)))
    ans = d.ask_many(reqs)
    mds = {}
    stat = {'real_diff': 0, 'model_diff': 0, 'model_ood': 0, 'model_oof': 0, 'ends_in_pre': 0, 'fn_div_last': 0, 'model_vs_real_diff': 0, 'marker_in_code': 0}
    for i, (s, m, tab, fmt, fl) in enumerate(cases):
        key = (tab, fmt, fl)
        md = mds.get(key)
        if md is None:
            md = mds[key] = markdown.Markdown(tab_length=tab, output_format=fmt, extensions=[e for e, c in zip(PX.EXTS, fl) if c == '1'])
        try:
            r0 = md.reset().convert(s); r1 = md.reset().convert(s + '\n' * m)
        except Exception as e:
            r0 = r1 = 'EXC ' + type(e).__name__; mds.pop(key, None)
        a0, a1 = ans[2 * i], ans[2 * i + 1]
        if r0 != r1:
            stat['real_diff'] += 1
            if stat['real_diff'] <= 5: print('REAL differs: %r flags=%s tab=%d m=%d\n  %r\n  %r' % (s, fl, tab, m, r0, r1))
        if r0.endswith('</code></pre>'): stat['ends_in_pre'] += 1
        if '</code></pre>\n<div class="footnote">' in r0: stat['fn_div_last'] += 1
        if 'Footnotes Go Here' in s.split('\n')[-1] or 'Footnotes Go Here' in s[-60:]: stat['marker_in_code'] += 1
        if a0 in ('ood',) or a1 in ('ood',): stat['model_ood'] += 1
        if a0 == 'oof' or a1 == 'oof': stat['model_oof'] += 1
        if a0 != a1:
            stat['model_diff'] += 1
            if stat['model_diff'] <= 5: print('MODEL differs: %r flags=%s tab=%d m=%d\n  %r\n  %r' % (s, fl, tab, m, a0[:200], a1[:200]))
        if a0.startswith('ok ') and proto.dec_str(a0[3:]) != r0: stat['model_vs_real_diff'] += 1
    print('pairs: %d; %s' % (len(cases), stat))


if __name__ == '__main__':
    main(int(sys.argv[1]) if len(sys.argv) > 1 else 6000, int(sys.argv[2]) if len(sys.argv) > 2 else 1)
