"""Correspondence for C04: event-level model of `HTMLExtractor` (driver ops extract.ev / extract.steps / extract.state)
and of `RawHtmlPostprocessor.run` (extract.restore, extract.isblock) versus the real classes.

The recorder subclasses the real `HTMLExtractor` here in the harness.  Every callback override (i) records the event
with each fact the callback is about to read -- `get_starttag_text()`, `get_endtag_text(tag)`, `at_line_start()`,
`md.is_block_level(tag)`, `tag in self.empty_tags`, the blank-line look-ahead expression -- and (ii) calls `super()`.
Only top-level callback invocations (those made by the tokenizer) are events; callbacks that the callbacks call
themselves (`handle_starttag` -> `handle_startendtag` -> `handle_empty_tag`, `handle_charref` -> `handle_empty_tag`)
are the model's business.  Documents go through `feed(); close()` exactly as `HtmlBlockPreprocessor.run` does.
"""
import markdown
from markdown.htmlparser import HTMLExtractor, blank_line_re
from markdown.postprocessors import RawHtmlPostprocessor
from proto import enc_str, enc_list, dec_str, dec_list, enc_bool, lean_ok

STX, ETX = '\x02', '\x03'


class Recorder(HTMLExtractor):
    def __init__(self, md):
        self.events = []      # encoded-ready tuples
        self.digests = []     # state digest after every event
        self.kinds = []       # finer label for the distribution
        self._depth = 0
        self._kind = None
        self._rest = None
        super().__init__(md)

    # -- helpers
    def _look(self, text):
        """the look-ahead expression of handle_endtag / handle_empty_tag"""
        return bool(blank_line_re.match(self.rawdata[self.line_offset + self.offset + len(text):]))

    def _digest(self):
        return '%d,%d,%d,%d,%d,%d' % (self.inraw, self.intail, len(self.stack), len(self._cache), len(self.cleandoc),
                                      len(self.md.htmlStash.rawHtmlBlocks))

    def _fire(self, ev, kind, fn, *args):
        top = self._depth == 0
        if top:
            self.events.append(ev); self.kinds.append(self._kind or kind); self._kind = None
        self._depth += 1
        try:
            return fn(*args)
        finally:
            self._depth -= 1
            if top: self.digests.append(self._digest())

    # -- callbacks
    def handle_starttag(self, tag, attrs):
        ev = None
        if self._depth == 0:
            text = self.get_starttag_text()
            ev = ('S', tag, text, self.at_line_start(), self.md.is_block_level(tag), tag in self.empty_tags, self._look(text))
        return self._fire(ev, 'start', super().handle_starttag, tag, attrs)

    def handle_endtag(self, tag):
        ev = None
        if self._depth == 0:
            text = self.get_endtag_text(tag)
            ev = ('E', tag, text, self._look(text))
        return self._fire(ev, 'end', super().handle_endtag, tag)

    def handle_data(self, data):
        return self._fire(('D', data), 'data', super().handle_data, data)

    def handle_empty_tag(self, data, is_block):
        ev = None
        if self._depth == 0:
            ev = ('M', data, bool(is_block), self.at_line_start(), self._look(data))
        return self._fire(ev, 'empty:bogus', super().handle_empty_tag, data, is_block)

    def handle_charref(self, name):
        return self._fire(('C', name), 'charref', super().handle_charref, name)

    def handle_entityref(self, name):
        return self._fire(('R', name), 'entityref', super().handle_entityref, name)

    # these only build the text and call handle_empty_tag (recorded there with the arguments actually passed)
    def handle_startendtag(self, tag, attrs):
        if self._depth == 0: self._kind = 'empty:startend'
        return super().handle_startendtag(tag, attrs)

    def handle_comment(self, data):
        if self._depth == 0: self._kind = 'empty:comment'
        return super().handle_comment(data)

    def handle_decl(self, data):
        if self._depth == 0: self._kind = 'empty:decl'
        return super().handle_decl(data)

    def handle_pi(self, data):
        if self._depth == 0: self._kind = 'empty:pi'
        return super().handle_pi(data)

    def unknown_decl(self, data):
        if self._depth == 0: self._kind = 'empty:unknown_decl'
        return super().unknown_decl(data)

    # -- close(): the tokenizer's part fires ordinary events; what follows it is the `close(rest)` event
    def goahead(self, end):
        super().goahead(end)
        if end and self._rest is None:
            self._rest = self.rawdata
            self._depth += 1          # the handle_data(self.rawdata) of HTMLExtractor.close belongs to the close event

    def close(self):
        super().close()
        self._depth -= 1
        self.events.append(('X', self._rest)); self.kinds.append('close')
        self.digests.append(self._digest())


def enc_event(ev):
    k = ev[0]
    if k == 'S': return 'S:%s:%s:%s:%s:%s:%s' % (enc_str(ev[1]), enc_str(ev[2]), enc_bool(ev[3]), enc_bool(ev[4]), enc_bool(ev[5]), enc_bool(ev[6]))
    if k == 'E': return 'E:%s:%s:%s' % (enc_str(ev[1]), enc_str(ev[2]), enc_bool(ev[3]))
    if k == 'M': return 'M:%s:%s:%s:%s' % (enc_str(ev[1]), enc_bool(ev[2]), enc_bool(ev[3]), enc_bool(ev[4]))
    return '%s:%s' % (k, enc_str(ev[1]))


def record(source, md=None):
    """events, digests and final observations of the real extractor on `source` (already a joined string)"""
    md = md or markdown.Markdown()
    p = Recorder(md)
    p.feed(source)
    p.close()
    return p, md


# ------------------------------------------------------------------ documents (DESIGN.md 4.3 + soups)
BLOCK = ['div', 'p', 'table', 'pre', 'section', 'div', 'div', 'blockquote', 'ul', 'script', 'style', 'DIV', 'h1', 'textarea']
INLINE = ['span', 'b', 'a', 'em', 'code', 'br', 'img', 'i']
TEXT = ['*x*', '# h', 'foo', 'a b', '- item', '`c`', '[l](u)', 'é', '1 < 2', 'a > b', 'x & y', '&amp;', '&#65;', '&#x41;', '&#',
        '&a', '&lt;', '**s**', '    code', '\ttab', '> q', '`<div>`', '`<b>`', '_e_']
ATTRS = ['', '', '', ' class="c"', " id='i'", ' data-x=bare', ' hidden', ' a="1" b=\'2\' c=3', ' title="a > b"', ' title="x\ny"',
         ' markdown="1"', ' a = "sp"', ' x="<b>"', " y='a\n\nb'", ' `bt`', ' /', ' a=`']
COMMENTS = ['<!-- c -->', '<!--c-->', '<!-- *x*\n\n# h -->', '<!-- <div> -->', '<!---->', '<!-->', '<!--', '<!-- a -- b -->', '<!- x ->']
PIS = ['<?php echo 1; ?>', '<?x?>', '<?php\n\n*x*\n?>', '<? >', '<?', '<?xml v="1"?>']
DECLS = ['<!DOCTYPE html>', '<![', '<![ x ]>', '<!doctype html>', '<!ELEMENT br EMPTY>', '<!x>', '<!', '<!DOCTYPE', '<![CDATA[ *x* ]]>', '<![CDATA[a]]>',
         '<![CDATA[', '<![if IE]>', '<![endif]>', '<!>']
STRAY = ['</div>', '</p>', '</b>', '</span>', '</x>', '</', '</ div>', '</div >', '</div\n>', '<', '>', '<<', '< div>', '<1>', '<x', '<div',
         '</div', '<hr>', '<hr/>', '<hr />', '<HR>', '<hr class="x">', '<br/>', '<div/>', '<span/>', '<p />']
SOUP = ['<', '>', '&', '<![', '<![', '&amp;', '&#1;', '&#x1f;', '&#', '&a', ';', '"', "'", '`', '\n', '\n\n', ' ', '  ', '    ', 'a', 'b', '*', '#', '/',
        '=', '!', '?', '-', '--', ']]>', '<!', '<?', '?>', '-->', '<!--', '</', '/>', 'div', 'p', 'hr', 'span', 'script', '</script>',
        '<script>', '<style>', '</style>', '<div>', '</div>', '<p>', '</p>', '<b>', '</b>', '<pre>', '</pre>', '\t', 'é', '\x85', ' ']


def indent(rng):
    return ' ' * rng.choice([0, 0, 0, 0, 1, 2, 3, 4])


def inline_piece(rng, depth=0):
    r = rng.random()
    if r < 0.45 or depth > 2: return rng.choice(TEXT)
    if r < 0.70:
        t = rng.choice(INLINE)
        if t in ('br', 'img') or rng.random() < 0.12: return '<%s%s>' % (t, rng.choice(ATTRS))
        return '<%s%s>%s</%s>' % (t, rng.choice(ATTRS), inline_piece(rng, depth + 1), t)
    if r < 0.78: return rng.choice(COMMENTS)
    if r < 0.83: return rng.choice(PIS)
    if r < 0.88: return rng.choice(DECLS)
    if r < 0.95: return rng.choice(STRAY)
    return rng.choice(TEXT) + ' ' + rng.choice(TEXT)


def block_elem(rng, depth=0):
    """a block element, possibly malformed on purpose"""
    t = rng.choice(BLOCK)
    open_ = '<%s%s>' % (t, rng.choice(ATTRS))
    close = '</%s>' % (t if rng.random() < 0.9 else rng.choice(BLOCK + INLINE))
    if rng.random() < 0.08: close = ''                                   # unclosed
    if rng.random() < 0.05: close = close.upper()
    parts = []
    for _ in range(rng.randint(0, 4)):
        r = rng.random()
        if r < 0.35: parts.append(inline_piece(rng))
        elif r < 0.55 and depth < 3: parts.append(block_elem(rng, depth + 1))
        elif r < 0.70: parts.append('')                                   # blank line inside
        elif r < 0.80: parts.append(indent(rng) + rng.choice(COMMENTS + PIS + DECLS))
        elif r < 0.90: parts.append(indent(rng) + rng.choice(STRAY))
        else: parts.append(indent(rng) + rng.choice(TEXT))
    sep = rng.choice(['\n', '\n', '', ' ', '\n\n'])
    body = sep.join(parts)
    lead = rng.choice(['', '\n', '\n', ' '])
    trail = rng.choice(['', '\n', '\n', ' '])
    return open_ + lead + body + trail + close


def top_piece(rng):
    r = rng.random()
    if r < 0.40: s = block_elem(rng)
    elif r < 0.50: s = rng.choice(COMMENTS)
    elif r < 0.57: s = rng.choice(PIS)
    elif r < 0.64: s = rng.choice(DECLS)
    elif r < 0.72: s = rng.choice(STRAY)
    elif r < 0.90: s = ' '.join(inline_piece(rng) for _ in range(rng.randint(1, 3)))
    else: s = rng.choice(TEXT)
    s = indent(rng) + s
    if rng.random() < 0.35:                                               # something after it on the same line
        s += rng.choice([' ', '', ' ', '  ']) + rng.choice(TEXT + COMMENTS[:3] + STRAY + ['<hr>', '&amp;', '<b>t</b>', '<div>d</div>'])
    return s


def gen_doc(rng):
    r = rng.random()
    if r < 0.70:
        seps = ['\n\n', '\n\n', '\n', '\n \n', '\n\n\n', '\n  \n\n']
        s = ''
        for i in range(rng.randint(1, 5)):
            s += top_piece(rng) + rng.choice(seps)
    elif r < 0.92:
        s = ''.join(rng.choice(SOUP) for _ in range(rng.randint(1, 30)))
    else:
        s = ''.join(rng.choice(SOUP + COMMENTS + PIS + DECLS + STRAY + TEXT) for _ in range(rng.randint(1, 16)))
    if rng.random() < 0.9:                                                # input normalisation as NormalizeWhitespace does
        s = s.replace(STX, '').replace(ETX, '').replace('\r\n', '\n').replace('\r', '\n') + '\n\n'
        s = s.expandtabs(4)
        import re
        s = re.sub(r'(?<![^\n]) +\n', '\n', s)
    return s


FIXED = ['<div>\n*x*\n\n<p>y</p>\n</div>\n\n', '<div>x</div> &amp; foo\n\n<div>y</div>\n\n', '<hr>\n\n', 'a <b>x</b> &amp; c\n\n',
         '<!-- c -->\n\n', '<?php ?>\n\ntext\n\n', '<!DOCTYPE html>\n\n', '<div>\n<br>\n</div>\n\n', '<div><div></div>\n\n',
         'a &# b\n\n<div>*x*</div>\n\n', '', '\n\n', '<div>', '<div>\n\n</div> tail\nmore\n\n<p>q</p>\n\n', '   <div>x</div>\n\n',
         '    <div>x</div>\n\n', '<script>\n<div>\n</script>\n\n', '`<script>` x <div>\n\n', '<![CDATA[ x ]]>\n\n']


# ------------------------------------------------------------------ restore
def ph(i): return '%swzxhzdk:%s%s' % (STX, i, ETX)


def gen_restore(rng):
    pool = ['<div>x</div>', '<!-- c -->', '<b>', '&amp;', '<?php ?>', '</div>', '< div>', '<', '</ p>', '</>', '</', '<p/>', '<DIV/>', 'text',
            '<@x>', '<%x', '', '<div\nid=1>', '<span>s</span>', '<hr>', '</p>x', '<é>', '<P>', '<//>', '<p//>']
    n = rng.randint(0, 4)
    stash = []
    for j in range(n):
        r = rng.random()
        if r < 0.8: stash.append(rng.choice(pool))
        elif r < 0.9: stash.append(rng.choice(pool) + ph(rng.randint(0, 5)))
        else: stash.append('<p>' + ph(rng.randint(0, 5)) + '</p>')
    toks = ['<p>', '</p>', '<p>', '</p>', STX + 'wzxhzdk:', ETX, '007', '0', '1', '12', 'a', '\n', ' ', '<p>%swzxhzdk:01%s</p>' % (STX, ETX),
            '<P>', '٣', STX, 'wzxhzdk:'] + [ph(i) for i in range(6)] * 2 + ['<p>' + ph(i) + '</p>' for i in range(5)] * 2
    text = ''.join(rng.choice(toks) for _ in range(rng.randint(0, 10)))
    return stash, text


def real_restore(stash, text):
    md = markdown.Markdown()
    md.htmlStash.rawHtmlBlocks = list(stash); md.htmlStash.html_counter = len(stash)
    return RawHtmlPostprocessor(md).run(text)


# ------------------------------------------------------------------ the theorems of Props/C04.lean, instantiated on the recorded runs
def ev_text(e):
    if e[0] in 'SE': return e[2]
    if e[0] == 'C': return '&#%s;' % e[1]
    if e[0] == 'R': return '&%s;' % e[1]
    return e[1]


def theorem_instances(p, real_stash, bump):
    """wherever the hypotheses of C04_block_once / C04_empty_once / C04_inline_data hold on the real run, check the conclusion on
    the real parser's lists (independent of the driver); returns descriptions of violated instances"""
    bad = []
    evs = p.events
    dg = [tuple(int(x) for x in d.split(',')) for d in p.digests]          # inraw intail stack cache cleandoc stash
    before = [(0, 0, 0, 0, 0, 0)] + dg[:-1]
    k = 0
    while k < len(evs):
        e = evs[k]; b = before[k]
        outside = b[0] == 0 and b[1] == 0
        if e[0] == 'S' and e[3] and e[4] and not e[5] and outside and b[2] == 0 and b[3] == 0:
            # hypotheses of C04_block_once hold so far; follow the stack discipline of `Content`
            stack = [e[1]]; j = k + 1; done = False
            while j < len(evs) and evs[j][0] != 'X':
                f = evs[j]
                if f[0] == 'S' and not f[5]: stack.append(f[1])
                elif f[0] == 'E' and f[1] in stack:
                    while stack.pop() != f[1]: pass
                    if not stack: done = True; break
                j += 1
            if done:
                bump('thm:block_once')
                if any(x[0] == 'S' and x[4] and not x[5] for x in evs[k + 1:j]): bump('thm:block_once:nested_block')
                if any(x[0] == 'D' and '\n\n' in x[1] for x in evs[k + 1:j]): bump('thm:block_once:blank_line_inside')
                text = ''.join(ev_text(x) for x in evs[k:j + 1]) + ('\n' if evs[j][3] else '')
                a = dg[j]
                ok = (a[0] == 0 and a[1] == (0 if evs[j][3] else 1) and a[2] == 0 and a[3] == 0 and a[5] == b[5] + 1 and a[4] == b[4] + 3
                      and real_stash[b[5]] == text and p.cleandoc[b[4]:b[4] + 3] == ['\n', ph(b[5]), '\n\n'])
                if not ok: bad.append('C04_block_once at event %d..%d' % (k, j))
                k = j + 1; continue
        if e[0] == 'M' and e[2] and e[3] and outside:
            bump('thm:empty_once')
            a = dg[k]; gained = p.cleandoc[b[4]:a[4]]
            ok = (a[5] == b[5] + 1 and real_stash[b[5]] == e[1] + ('\n' if e[4] else '') and a[1] == (0 if e[4] else 1)
                  and gained in ([ph(b[5]), '\n\n'], ['\n', ph(b[5]), '\n\n']) and a[0] == 0 and a[2] == b[2] and a[3] == b[3])
            if not ok: bad.append('C04_empty_once at event %d' % k)
        if outside and (e[0] in 'DECR' or (e[0] == 'S' and not e[4] and not e[5])):
            bump('thm:inline')
            a = dg[k]
            ok = a[5] == b[5] and a[4] == b[4] + 1 and p.cleandoc[b[4]] == ev_text(e) and a[:4] == b[:4]
            if not ok: bad.append('C04_inline_data at event %d' % k)
        k += 1
    return bad


# ------------------------------------------------------------------ run
def run(driver, rng, n):
    dis = []; seen = set(); dist = {}; samples = []
    skipped = 0; cases = 0

    def bump(k, d=1): dist[k] = dist.get(k, 0) + d

    docs = list(FIXED) + [gen_doc(rng) for _ in range(max(0, n - len(FIXED)))]
    recs = []; reqs = []
    for src in docs:
        if not lean_ok(src): continue
        try:
            p, md = record(src)
        except AssertionError:
            skipped += 1; continue            # known defect of the tokenizer interplay on `<![`
        args = tuple(enc_event(e) for e in p.events)
        recs.append((src, p, md)); reqs.append(('extract.ev',) + args); reqs.append(('extract.steps',) + args)
        reqs.append(('extract.state',) + args)
    ans = driver.ask_many(reqs)
    for k, (src, p, md) in enumerate(recs):
        a_ev, a_steps, a_state = ans[3 * k], ans[3 * k + 1], ans[3 * k + 2]
        cases += 1; seen.add(src)
        real_clean = ''.join(p.cleandoc); real_stash = [str(x) for x in md.htmlStash.rawHtmlBlocks]
        impl = enc_str(real_clean) + '|' + enc_list(real_stash)
        evs = [enc_event(e) for e in p.events]
        if a_ev != impl:
            try:
                c, s = a_ev.split('|'); model = {'cleandoc': dec_str(c), 'stash': dec_list(s)}
            except Exception:
                model = a_ev
            dis.append({'op': 'extract.ev', 'input': {'source': src, 'events': p.events}, 'model': model,
                        'impl': {'cleandoc': real_clean, 'stash': real_stash}})
        impl_steps = '|'.join(p.digests)
        if a_steps != impl_steps:
            dis.append({'op': 'extract.steps', 'input': {'source': src, 'events': p.events}, 'model': a_steps, 'impl': impl_steps})
        impl_state = '|'.join([enc_bool(p.inraw), enc_bool(p.intail), enc_list(p.stack), enc_list(p._cache), enc_list(p.cleandoc),
                               enc_list(real_stash)])
        if a_state != impl_state:
            dis.append({'op': 'extract.state', 'input': {'source': src, 'events': p.events}, 'model': a_state, 'impl': impl_state})
        # distribution
        prev_raw = False
        for kind, dg in zip(p.kinds, p.digests):
            bump('ev:' + kind)
            raw = dg[0] == '1'
            if raw and not prev_raw: bump('inraw:enter')
            if prev_raw and not raw: bump('inraw:leave')
            if raw and kind.startswith('start'): bump('start_in_raw')
            if dg[2] == '1': bump('intail_after_event')
            prev_raw = raw
        if any(e[0] == 'X' and e[1] for e in p.events): bump('close_with_rest')
        if len(real_stash) >= 2: bump('docs_with_2+_stash')
        if p.events and p.digests[-1].split(',')[5] != (p.digests[-2].split(',')[5] if len(p.digests) > 1 else '0'): bump('close_flushes_cache')
        if len(samples) < 3 and len(real_stash) >= 1 and len(p.events) >= 5:
            samples.append({'source': src, 'events': [list(map(str, e)) for e in p.events], 'cleandoc': real_clean, 'stash': real_stash})
        for bad in theorem_instances(p, real_stash, bump):
            dis.append({'op': 'theorem-instance', 'input': {'source': src, 'events': p.events}, 'model': bad, 'impl': {'cleandoc': p.cleandoc, 'stash': real_stash}})
    dist['skipped_assertion'] = skipped

    # restore / isblocklevel
    rcases = [gen_restore(rng) for _ in range(max(50, n // 4))]
    rcases += [(['<div>*x*</div>'], '<p>' + ph(0) + '</p>'), (['<b>'], '<p>' + ph(0) + '</p>'), (['<div>a</div>', '<!-- c -->'], 'x' + ph(1) + '\n<p>' + ph(0) + '</p>')]
    rreq = []; rkeep = []
    for stash, text in rcases:
        if not all(lean_ok(s) for s in stash + [text]): continue
        try:
            real = real_restore(stash, text)
        except RecursionError:
            bump('restore_recursion_skipped'); continue
        rkeep.append((stash, text, real)); rreq.append(('extract.restore', enc_list(stash), enc_str(text)))
        for h in stash: rreq.append(('extract.isblock', enc_str(h)))
    rans = driver.ask_many(rreq)
    i = 0
    md0 = markdown.Markdown(); pp = RawHtmlPostprocessor(md0)
    for stash, text, real in rkeep:
        a = rans[i]; i += 1
        cases += 1; seen.add(('restore', tuple(stash), text)); bump('restore_cases')
        if real != text: bump('restore_changed')
        if a != enc_str(real):
            dis.append({'op': 'extract.restore', 'input': {'stash': stash, 'text': text}, 'model': dec_str(a) if a not in ('?',) else a, 'impl': real})
        for h in stash:
            b = rans[i]; i += 1
            rb = enc_bool(bool(pp.isblocklevel(h)))
            if b != rb:
                dis.append({'op': 'extract.isblock', 'input': h, 'model': b, 'impl': rb})
    return {'cases': cases, 'distinct': len(seen), 'disagreements': dis, 'samples': samples, 'dist': dist}


if __name__ == '__main__':
    import random, sys, json
    from proto import Driver
    n = int(sys.argv[1]) if len(sys.argv) > 1 else 2000
    seed = int(sys.argv[2]) if len(sys.argv) > 2 else 1
    d = Driver()
    r = run(d, random.Random(seed), n)
    d.close()
    print(json.dumps({'cases': r['cases'], 'distinct': r['distinct'], 'n_disagreements': len(r['disagreements']), 'dist': r['dist']}, indent=1, sort_keys=True))
    for x in r['disagreements'][:5]: print(json.dumps(x, default=str)[:3000])
