"""Correspondence of the Lean model of `NormalizeWhitespace` (C09) with the implementation.

`run(driver, rng, n)` compares, for tab lengths 0, 1, 2, 3, 4, 8:
  * op `norm`        with `'\\n'.join(NormalizeWhitespace(md).run(src.split('\\n')))`
  * op `norm.steps`  (the step interpreter) with the same
  * op `norm.lines`  with the list `run` returns
  * op `norm.blank`  with `not src.strip()`
on every string of length <= 5 over ['\\r', '\\n', '\\t', ' ', 'a', '\\x02'] and on `n` random strings over an
alphabet rich in line-ending, blank and control characters.
"""
from __future__ import annotations
import itertools, os, sys

sys.path.insert(0, os.path.dirname(os.path.dirname(os.path.abspath(__file__))))
from proto import enc_str, dec_str, enc_list, dec_list, lean_ok   # noqa: E402

import markdown                                                    # noqa: E402
from markdown.preprocessors import NormalizeWhitespace             # noqa: E402

TABS = (0, 1, 2, 3, 4, 8)
EXH_ALPHABET = ['\r', '\n', '\t', ' ', 'a', '\x02']
EXH_MAXLEN = 5
# weights: line endings, blanks and the two control characters dominate; a few other "space-like" and
# "line-break-like" characters that Python treats specially elsewhere (str.splitlines, str.isspace) are included
RND_ALPHABET = (['\r'] * 6 + ['\n'] * 6 + ['\t'] * 6 + [' '] * 8 + ['\x02'] * 3 + ['\x03'] * 3 +
                list('abxyz#*-_>') + ['\x0b', '\x0c', '\x1c', '\x1d', '\x1e', '\x1f', '\x85', '\xa0', '\u2028',
                                      '\u2029', '\u3000', '\x00', '\x01', '\x04', '\xe9', '\U0001F600'])

_MDS = {}


def _md(tab):
    if tab not in _MDS:
        _MDS[tab] = markdown.Markdown(tab_length=tab)
    return _MDS[tab]


def impl_lines(tab, lines):
    return NormalizeWhitespace(_md(tab)).run(list(lines))


def impl_norm(tab, src):
    return '\n'.join(impl_lines(tab, src.split('\n')))


def rand_str(rng):
    k = rng.choice((0, 1, 2, 3, 5, 8, 13, 21, 40))
    ln = rng.randint(0, k)
    return ''.join(rng.choice(RND_ALPHABET) for _ in range(ln))


def _kind(s):
    """coarse shape of an input, for the distribution report"""
    tags = []
    if '\r\n' in s: tags.append('crlf')
    if '\r' in s.replace('\r\n', ''): tags.append('cr')
    if '\t' in s: tags.append('tab')
    if '\x02' in s or '\x03' in s: tags.append('ctl')
    t = s.replace('\x02', '').replace('\x03', '').replace('\r\n', '\n').replace('\r', '\n')
    ls = t.split('\n')
    if any(l and not l.strip(' \t') for l in ls[1:]): tags.append('wsline')
    if ls[0] and not ls[0].strip(' \t'): tags.append('wsfirst')
    if not s.strip(): tags.append('blank')
    return '+'.join(tags) or 'plain'


def run(driver, rng, n):
    inputs = []
    for ln in range(EXH_MAXLEN + 1):
        for tup in itertools.product(EXH_ALPHABET, repeat=ln):
            inputs.append(''.join(tup))
    n_exh = len(inputs)
    for _ in range(n):
        s = rand_str(rng)
        if lean_ok(s):
            inputs.append(s)

    reqs, meta = [], []
    for i, s in enumerate(inputs):
        e = enc_str(s)
        # exhaustive inputs: every tab length; random inputs: one tab length each (all lengths are covered evenly)
        tabs = TABS if i < n_exh else (TABS[i % len(TABS)],)
        for t in tabs:
            reqs.append(('norm', str(t), e)); meta.append(('norm', t, s))
            reqs.append(('norm.steps', str(t), e)); meta.append(('norm.steps', t, s))
            if i % 3 == 0:
                reqs.append(('norm.lines', str(t), enc_list(s.split('\n')))); meta.append(('norm.lines', t, s))
        reqs.append(('norm.blank', e)); meta.append(('norm.blank', None, s))

    answers = []
    B = 20000
    for k in range(0, len(reqs), B):
        answers.extend(driver.ask_many(reqs[k:k + B]))

    disagreements, dist, distinct = [], {}, set()
    cache = {}
    for (op, t, s), a in zip(meta, answers):
        distinct.add((op, t, s))
        if op in ('norm', 'norm.steps'):
            if (t, s) not in cache:
                cache[(t, s)] = impl_norm(t, s)
            impl = cache[(t, s)]
            try:
                model = dec_str(a)
            except Exception:
                model = 'UNDECODABLE:' + a
        elif op == 'norm.lines':
            impl = impl_lines(t, s.split('\n'))
            try:
                model = dec_list(a)
            except Exception:
                model = 'UNDECODABLE:' + a
        else:
            impl = not s.strip()
            model = {'1': True, '0': False}.get(a, a)
        if op == 'norm':
            k = _kind(s)
            dist[k] = dist.get(k, 0) + 1
        if model != impl:
            disagreements.append({'op': op if t is None else '%s[tab=%d]' % (op, t), 'input': s,
                                  'model': model, 'impl': impl})

    samples = []
    for s in ('a\r\n\tb', '  \nfoo', 'x\n \t \ny\x02\r'):
        samples.append({'input': s, 'tab': 4, 'impl': impl_norm(4, s)})
    return {'cases': len(reqs), 'distinct': len(distinct), 'disagreements': disagreements[:50],
            'n_disagreements': len(disagreements), 'samples': samples,
            'dist': dict(sorted(dist.items(), key=lambda kv: -kv[1]))}


if __name__ == '__main__':
    import random, json
    from proto import Driver
    path = sys.argv[1] if len(sys.argv) > 1 else None
    n = int(sys.argv[2]) if len(sys.argv) > 2 else 20000
    d = Driver(path)
    try:
        r = run(d, random.Random(9), n)
    finally:
        d.close()
    print(json.dumps({k: r[k] for k in ('cases', 'distinct', 'n_disagreements')}))
    print(json.dumps(r['disagreements'][:10], indent=1))
    print(json.dumps(dict(list(r['dist'].items())[:12])))
    print(json.dumps(r['samples']))
