"""Correspondence of the attribute-list model (lean/MdVerif/Model/Ext/AttrList.lean; ops in
lean/Driver/AttrListOps.lean) with `markdown.extensions.attr_list`: `get_attrs_and_remainder`, `sanitize_name`,
`assign_attrs`, `HEADER_RE.search`, `BLOCK_RE.search`, `INLINE_RE.match`, and — document level — the attributes,
text and tail that the real `attr_list` tree processor leaves on headings, paragraphs and inline `em` elements of
generated documents (snapshot of the tree just before the `attr_list` tree processor, model applied to the snapshot,
compared with the tree just after it).

    run(driver, rng, n) -> {'cases', 'distinct', 'disagreements': [{op, input, model, impl}], 'samples', 'dist'}
"""
from __future__ import annotations
import itertools, os, sys
import xml.etree.ElementTree as etree

sys.path.insert(0, os.path.dirname(os.path.dirname(os.path.abspath(__file__))))
from proto import enc_str, dec_str, enc_bool, lean_ok  # noqa: E402

import markdown  # noqa: E402
from markdown.extensions.attr_list import get_attrs_and_remainder, AttrListTreeprocessor  # noqa: E402

ALPHA = ['{', '}', ':', '#', '.', '=', '"', "'", ' ', 'a', 'b', '1', '_', '-', 'é']
ALPHA_NL = ALPHA + ['\n']
RX_ALPHA = ['{', '}', ':', ' ', '\n', 'a', '#']
PIECES = ['{', '}', ':', '{:', ' ', '  ', '\n', '#id', '.cls', 'k=v', 'k="v w"', "k='v w'", 'k="a } b"', 'word', '=', 'é=ü',
          '.', '#', 'a"b=c', 'k=""', "k=''", 'k="x', 'x y', '###', 'Title', 'a=b=c', '{}', '{ }', '{:}', '.=x',
          'class=c', 'id=i', 'k="v"w', '\\', 'x}', '}{', 'da-ta_x:y.z', '1a', '-']

_MD = markdown.Markdown(extensions=['attr_list'])
_TP = AttrListTreeprocessor(_MD)


def enc_pairs(l):
    l = list(l)
    return '-' if not l else ';'.join(enc_str(k) + '=' + enc_str(v) for k, v in l)


def impl_get(s):
    attrs, rem = get_attrs_and_remainder(s)
    return enc_pairs(attrs) + ' ' + enc_str(rem)


def impl_sanitize(s):
    return enc_str(_TP.sanitize_name(s))


def impl_assign(attrs, s, strict):
    e = etree.Element('p')
    for k, v in attrs: e.set(k, v)
    rem = _TP.assign_attrs(e, s, strict=strict)
    return enc_pairs(e.attrib.items()) + ' ' + enc_str(rem)


def impl_search(rx, s):
    m = rx.search(s)
    return 'N' if not m else enc_str(s[:m.start()]) + '|' + enc_str(m.group(1))


def impl_inline(s):
    m = _TP.INLINE_RE.match(s)
    return 'N' if not m else enc_str(m.group(1)) + '|' + enc_str(s[m.end():])


def impl_inlineapply(s):
    """the inline branch of `run` on an `em` inside a (non block-level) `span`"""
    root = etree.Element('span')
    em = etree.SubElement(root, 'em')
    em.tail = s
    _TP.run(root)
    return enc_pairs(em.attrib.items()) + ' ' + enc_str(em.tail or '')


# ------------------------------------------------------------------ generated attribute lists / documents
NAMES = ['a', 'k', 'data-x', 'x:y', 'é', 'id', 'class', 'title', 'k1', 'a.b', 'k!', 'a$$b', '1x']
WORDS = ['x', 'y1', 'c-d', 'e_f', 'ü', 'a:b', 'a.b', '']
QVALS = ['v', 'v w', 'a } b', 'a=b', '', 'x  y', "it's", 'say "hi"', '{z}', '#h .c']


def gen_item(rng):
    r = rng.random()
    if r < 0.25: return '#' + rng.choice(WORDS)
    if r < 0.55: return '.' + rng.choice(WORDS)
    if r < 0.65: return rng.choice(NAMES)
    k = rng.choice(NAMES)
    r = rng.random()
    if r < 0.35: return k + '=' + (rng.choice(WORDS) or 'w')
    v = rng.choice(QVALS)
    if r < 0.7 and '"' not in v: return k + '="' + v + '"'
    if "'" not in v: return k + "='" + v + "'"
    return k + '="' + v.replace('"', '') + '"'


def gen_attr_list(rng):
    items = [gen_item(rng) for _ in range(rng.randint(0, 4))]
    r = rng.random()
    open_ = '{:' if r < 0.5 else '{'
    sp1 = rng.choice(['', ' ', '  '])
    sp2 = rng.choice(['', ' ', '  '])
    body = rng.choice([' ', ' ', '  ']).join(items)
    extra = rng.choice(['', '', '', '', '}', ' }', ' x', ' {b}'])
    return open_ + sp1 + body + sp2 + '}' + extra


def tree_before_after(src):
    """(root just before the attr_list tree processor, the same root just after it)"""
    md = markdown.Markdown(extensions=['attr_list'])
    lines = src.split('\n')
    for prep in md.preprocessors: lines = prep.run(lines)
    root = md.parser.parseDocument(lines).getroot()
    tps = list(md.treeprocessors)
    idx = md.treeprocessors.get_index_for_name('attr_list')
    for tp in tps[:idx]:
        new = tp.run(root)
        if new is not None: root = new
    import copy
    before = copy.deepcopy(root)
    new = tps[idx].run(root)
    if new is not None: root = new
    return before, root


# ------------------------------------------------------------------ run
def run(driver, rng, n):
    reqs, expect, inputs = [], [], []
    dist = {}

    def add(op, args, impl, inp):
        reqs.append((op,) + tuple(args)); expect.append(impl); inputs.append(inp)
        dist[op] = dist.get(op, 0) + 1

    def feat(k):
        dist[k] = dist.get(k, 0) + 1

    # 1. exhaustive short strings
    short = [''.join(t) for L in range(0, 4) for t in itertools.product(ALPHA_NL, repeat=L)]
    for s in short:
        add('attr.get', [enc_str(s)], impl_get(s), s)
        add('attr.header', [enc_str(s)], impl_search(_TP.HEADER_RE, s), s)
        add('attr.block', [enc_str(s)], impl_search(_TP.BLOCK_RE, s), s)
        add('attr.inline', [enc_str(s)], impl_inline(s), s)
    for t in itertools.product(ALPHA, repeat=4):
        s = ''.join(t)
        add('attr.get', [enc_str(s)], impl_get(s), s)
    for L in range(4, 7):
        for t in itertools.product(RX_ALPHA, repeat=L):
            s = ''.join(t)
            if L == 6 and rng.random() > (0.25 if n >= 10000 else 0.06): continue
            add('attr.header', [enc_str(s)], impl_search(_TP.HEADER_RE, s), s)
            add('attr.block', [enc_str(s)], impl_search(_TP.BLOCK_RE, s), s)
            add('attr.inline', [enc_str(s)], impl_inline(s), s)

    # 2. random longer strings from pieces
    for _ in range(max(500, n)):
        s = ''.join(rng.choice(PIECES) for _ in range(rng.randint(2, 9)))
        add('attr.get', [enc_str(s)], impl_get(s), s)
        add('attr.header', [enc_str(s)], impl_search(_TP.HEADER_RE, s), s)
        add('attr.block', [enc_str(s)], impl_search(_TP.BLOCK_RE, s), s)
        add('attr.inline', [enc_str(s)], impl_inline(s), s)
        strict = rng.random() < 0.5
        attrs = rng.choice([[], [('class', 'c0')], [('id', 'i0'), ('class', '')], [('k', 'v'), ('class', 'a b')]])
        add('attr.assign', [enc_pairs(attrs), enc_str(s), enc_bool(strict)], impl_assign(attrs, s, strict), (attrs, s, strict))

    # 2b. placement: text + separator + generated attribute list + trailing text
    for _ in range(max(1000, n)):
        pre = rng.choice(['', 'T', 'Title', 'a b', 'x {y}', 'l1\nl2', 'a {: #b }', 'T  ', '## T ##'])
        sep = rng.choice([' ', '  ', '\n', '\n ', '', '\n\n'])
        post = rng.choice(['', '', '', ' ', '\n', ' \n', '\n\n', ' x', '  '])
        s = pre + sep + gen_attr_list(rng) + post
        add('attr.header', [enc_str(s)], impl_search(_TP.HEADER_RE, s), s)
        add('attr.block', [enc_str(s)], impl_search(_TP.BLOCK_RE, s), s)
        s2 = gen_attr_list(rng) + rng.choice(['', ' tail', ' } x', '\nnext }', '{ .y}'])
        add('attr.inline', [enc_str(s2)], impl_inline(s2), s2)
        if s2: add('attr.inlineapply', ['-', enc_str(s2)], impl_inlineapply(s2), s2)
        al = gen_attr_list(rng)
        inner = al[al.index('{') + 1:al.rindex('}')] if '}' in al else al
        add('attr.get', [enc_str(inner)], impl_get(inner), inner)

    # 3. sanitize_name: short strings, every range border ± 1, random code points
    borders = set()
    for lo, hi in [(0x41, 0x5a), (0x5f, 0x5f), (0x61, 0x7a), (0xc0, 0xd6), (0xd8, 0xf6), (0xf8, 0x2ff), (0x370, 0x37d),
                   (0x37f, 0x1fff), (0x200c, 0x200d), (0x2070, 0x218f), (0x2c00, 0x2fef), (0x3001, 0xd7ff),
                   (0xf900, 0xfdcf), (0xfdf0, 0xfffd), (0x3a, 0x3a), (0x2d, 0x2d), (0x2e, 0x2e), (0x30, 0x39),
                   (0xb7, 0xb7), (0x300, 0x36f), (0x203f, 0x2040), (0x10000, 0x10ffff)]:
        for x in (lo - 1, lo, lo + 1, hi - 1, hi, hi + 1):
            if 0 <= x <= 0x10ffff and not (0xd800 <= x <= 0xdfff): borders.add(x)
    for x in sorted(borders):
        for s in (chr(x), 'a' + chr(x) + chr(x) + 'b', chr(x) + '!' + chr(x)):
            add('attr.sanitize', [enc_str(s)], impl_sanitize(s), s)
    for x in range(0, 0x300):
        add('attr.sanitize', [enc_str(chr(x))], impl_sanitize(chr(x)), chr(x))
    for _ in range(max(300, n // 4)):
        s = ''.join(rng.choice(['a', 'Z', '_', '!', ' ', '-', '.', ':', '9', 'é', '×', '÷', ';', ' ', '　',
                                '￾', '\U0001F600', '$', '"', chr(rng.randrange(0, 0xd800)),
                                chr(rng.randrange(0xe000, 0x110000))]) for _ in range(rng.randint(0, 7)))
        if lean_ok(s): add('attr.sanitize', [enc_str(s)], impl_sanitize(s), s)

    # 4. documents: heading / paragraph / inline em with generated attribute lists
    def attrs_of(e): return list(e.attrib.items())
    for _ in range(max(400, n // 2)):
        al = gen_attr_list(rng)
        kind = rng.choice(['h', 'h#', 'p', 'em', 'setext'])
        if kind == 'h': src = '## Title ' + al
        elif kind == 'h#': src = '## Title ## ' + al
        elif kind == 'setext': src = 'Title ' + al + '\n====='
        elif kind == 'p': src = 'some text' + rng.choice(['\n', '\n  ', ' ']) + al
        else: src = 'x *em*' + al + rng.choice(['', ' more', ' more }'])
        try:
            before, after = tree_before_after(src)
        except Exception as ex:  # pragma: no cover
            continue
        if kind == 'em':
            b, a = before[0].find('em'), after[0].find('em')
            if b is None or a is None or b.tail is None: feat('doc: skipped'); continue
            if not lean_ok(b.tail): continue
            add('attr.inlineapply', [enc_pairs(attrs_of(b)), enc_str(b.tail)],
                enc_pairs(attrs_of(a)) + ' ' + enc_str(a.tail or ''), src)
            feat('doc: em' + (' (attrs set)' if a.attrib else ' (no attrs)'))
        else:
            b, a = before[0], after[0]
            if len(b) or not b.text: feat('doc: skipped'); continue
            header = b.tag in ('h1', 'h2', 'h3', 'h4', 'h5', 'h6')
            add('attr.blockapply', [enc_bool(header), enc_bool(header), enc_pairs(attrs_of(b)), enc_str(b.text)],
                enc_pairs(attrs_of(a)) + ' ' + enc_str(a.text or ''), src)
            feat('doc: ' + b.tag + (' (attrs set)' if a.attrib else ' (no attrs)'))

    answers = driver.ask_many(reqs)
    disagreements = []
    for req, exp, inp, ans in zip(reqs, expect, inputs, answers):
        if ans != exp:
            disagreements.append({'op': req[0], 'input': inp, 'model': ans, 'impl': exp})
    samples = [{'op': reqs[i][0], 'input': inputs[i], 'model': answers[i]}
               for i in rng.sample(range(len(reqs)), min(12, len(reqs)))]
    return {'cases': len(reqs), 'distinct': len(set(reqs)), 'disagreements': disagreements, 'samples': samples,
            'dist': dist}


if __name__ == '__main__':
    import random
    from proto import Driver
    d = Driver(sys.argv[1] if len(sys.argv) > 1 else None)
    n = int(sys.argv[2]) if len(sys.argv) > 2 else 2000
    r = run(d, random.Random(16), n)
    d.close()
    print('cases', r['cases'], 'distinct', r['distinct'], 'disagreements', len(r['disagreements']))
    print('dist', r['dist'])
    for x in r['disagreements'][:15]: print(x)
    for s in r['samples'][:6]: print(s)
