"""Correspondence, end to end: `Pipeline.convert` (compiled Lean driver) vs `markdown.Markdown(...).convert` for text
without '<' (the modelled domain), both output formats, tab_length in {4, 2, 8, 3}; plus the tree handed to the
serializer.  Non-trivial = the output contains at least one inline or non-paragraph block element."""
import markdown
import proto
from gen import common as G

ALPH = G.alphabet(html=False, amp=True, ext=False, ctrl=False, refs=True) + ['\x02', '\x03', '\r', '\r\n', '\t', '  \n', '>', '=']


def gen(rng):
    r = rng.random()
    if r < 0.15: return G.inline_doc(rng).replace('<', '')
    r = rng.random()
    if r < 0.55: s = G.soup(rng, ALPH, 1, 18)
    elif r < 0.75: s = G.lines_doc(rng, 1, 8)
    elif r < 0.9: s = G.fragment(rng, 140)
    else: s = G.soup(rng, ALPH, 10, 40)
    return s.replace('<', '')


def run(driver, rng, n):
    mds = {}
    docs = []
    for _ in range(n):
        s = gen(rng)
        if not proto.lean_ok(s) or 'Σ' in s: continue
        tab = rng.choice([4, 4, 4, 4, 2, 8, 3])
        fmt = rng.choice(['xhtml', 'xhtml', 'html'])
        docs.append((s, tab, fmt))
    ans = driver.ask_many([('convert', str(t), f, proto.enc_str(s)) for s, t, f in docs])
    dis = []; seen = set(); dist = {'ok': 0, 'err': 0, 'oof': 0, 'recursion_skip': 0, 'nontrivial': 0, 'with_amp': 0, 'html': 0}
    for (s, tab, fmt), a in zip(docs, ans):
        md = mds.get((tab, fmt))
        if md is None: md = mds[(tab, fmt)] = markdown.Markdown(tab_length=tab, output_format=fmt)
        try:
            real = 'ok ' + proto.enc_str(md.reset().convert(s))
        except RecursionError:
            dist['recursion_skip'] += 1; continue
        except (ValueError, OverflowError):
            real = 'err'
        key = a.split(' ')[0]
        dist[key] = dist.get(key, 0) + 1
        if fmt == 'html': dist['html'] += 1
        if '&' in s: dist['with_amp'] += 1
        if real != a:
            dis.append({'op': 'convert', 'input': {'src': s, 'tab': tab, 'fmt': fmt}, 'model': proto.dec_str(a[3:]) if a.startswith('ok ') else a,
                        'impl': proto.dec_str(real[3:]) if real.startswith('ok ') else real})
        elif a.startswith('ok '):
            out = proto.dec_str(a[3:])
            if any(t in out for t in ('<em', '<strong', '<code', '<a ', '<img', '<li', '<h', '<blockquote', '<br', '<pre')):
                dist['nontrivial'] += 1; seen.add((s, tab, fmt))
    return {'cases': len(docs), 'distinct': len(seen), 'disagreements': dis,
            'samples': [{'src': docs[0][0], 'tab': docs[0][1], 'fmt': docs[0][2], 'model': ans[0][:200]}] if docs else [], 'dist': dist}
