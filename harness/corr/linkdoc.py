"""C01h: differential test of the sub-grammar `LinkDoc` (Spec/DocFlat2.lean) against the real converter, under
spellings of the inline link style (`inlineStyle`): model (`Pipeline.convert`) = specification (`spec`) =
`markdown.Markdown().convert`.

python corr/linkdoc.py <n documents> <seed>       (4 spellings per document)
  flat documents of rules, headings of words / escapes / code spans / emphasised words, and paragraphs that are one
  line of such items and inline links around such items (destinations without `_` and `&`, no bracket in the text of a
  link that starts a paragraph).  The spellings have choices that are multiples of 5, so that `linkStyle` draws the
  inline style for every link; a printed source with `<` or with a reference definition is counted as `skipped`.

`python corr/linkdoc.py lean <n> <seed>` prints a Lean file that evaluates `WF`, `LinkDoc` and `inlineStyle` on generated
documents and spellings: the generator and the predicates describe the same documents.
"""
from __future__ import annotations
import os, sys, random, json

sys.path.insert(0, os.path.dirname(os.path.dirname(os.path.abspath(__file__))))
import proto  # noqa: E402
from proto import enc_str, dec_str  # noqa: E402
from corr import doc as D  # noqa: E402
from corr import nest as N  # noqa: E402


def ok_mix(xs, link_ok):
    prev = None
    for x in xs:
        if x[0] not in 'TXCEGL': return False
        if x[0] == 'C' and '<' in x[1]: return False
        if x[0] == 'C' and prev is not None and prev[0] == 'X' and prev[1] == '\\': return False
        if x[0] in 'EG' and not (len(x[1]) == 1 and x[1][0][0] == 'T'): return False
        if x[0] == 'L':
            if not link_ok: return False
            if not ok_mix(x[1], False): return False
            if '_' in x[2] or '&' in x[2]: return False
        prev = x
    return True


def brackets(xs):
    return any((x[0] == 'X' and x[1] in '[]') or (x[0] == 'C' and ('[' in x[1] or ']' in x[1])) for x in xs)


def gen_doc(rng, g):
    def inl(link):
        for _ in range(800):
            c = g.inlines(2, br_ok=False)
            if not ok_mix(c, link): continue
            if link and not any(x[0] == 'L' for x in c): continue
            if c[0][0] == 'L' and brackets(c[0][1]): continue
            return c
        return [('T', 'w')]
    out = []
    for _ in range(rng.randint(1, 3)):
        k = rng.choice(['p', 'p', 'p', 'a', 's', 'r'])
        if k == 'p': out.append(('p', inl(rng.random() < 0.8)))
        elif k == 'a': out.append(('a', rng.randint(1, 6), inl(False)))
        elif k == 's': out.append(('s', rng.randint(1, 2), inl(False)))
        else: out.append(('r',))
    return out


def spelling(rng):
    return [5 * rng.randint(0, 8) for _ in range(rng.randint(0, 40))]


def lean_inl(x):
    if x[0] == 'L':
        t = 'none' if x[3] is None else '(some %s)' % N.lean_str(x[3])
        return '.link [%s] %s %s' % (', '.join(lean_inl(y) for y in x[1]), N.lean_str(x[2]), t)
    if x[0] in 'EG':
        return '.%s [%s]' % ('em' if x[0] == 'E' else 'strong', ', '.join(lean_inl(y) for y in x[1]))
    return N.lean_inl(x)


def lean_block(b):
    inl = lambda c: '[' + ', '.join(lean_inl(y) for y in c) + ']'
    if b[0] == 'p': return '.para ' + inl(b[1])
    if b[0] == 'a': return '.atx %d %s' % (b[1], inl(b[2]))
    if b[0] == 's': return '.setext %d %s' % (b[1], inl(b[2]))
    return '.rule'


def run(n, seed):
    import markdown
    rng = random.Random(seed)
    g = D.Gen(rng, 4)
    d = proto.Driver()
    md = markdown.Markdown()
    res = dict(documents=0, cases=0, differences=0, rejected=0, skipped=0, with_links=0, links_max=0,
               link_first=0, titles=0)
    dis = []
    for _ in range(n):
        doc = gen_doc(rng, g)
        e = D.enc_doc(doc)
        if d.ask('doc.wf', e) != '1':
            res['rejected'] += 1
            continue
        res['documents'] += 1
        nl = [sum(x[0] == 'L' for x in b[1]) for b in doc if b[0] == 'p']
        res['with_links'] += any(nl)
        res['links_max'] = max([res['links_max']] + nl)
        res['link_first'] += any(b[0] == 'p' and b[1][0][0] == 'L' for b in doc)
        res['titles'] += any(b[0] == 'p' and any(x[0] == 'L' and x[3] is not None for x in b[1]) for b in doc)
        spec = dec_str(d.ask('doc.spec', e))
        for _ in range(4):
            sp = ','.join(str(k) for k in spelling(rng))
            src = dec_str(d.ask('doc.print', e, sp))
            if '<' in src or ('\n[' in src and ']: ' in src):
                res['skipped'] += 1
                continue
            a = d.ask('convert', '4', 'xhtml', enc_str(src))
            model = dec_str(a[3:]) if a.startswith('ok ') else a
            real = md.reset().convert(src)
            res['cases'] += 1
            if not (model == spec == real):
                res['differences'] += 1
                dis.append(dict(src=src, spec=spec, model=model, real=real))
    d.close()
    return res, dis


if __name__ == '__main__' and sys.argv[1] == 'lean':
    n, seed = int(sys.argv[2]), int(sys.argv[3])
    rng = random.Random(seed)
    g = D.Gen(rng, 4)
    print('import MdVerif.Spec.DocFlat2\nopen MdVerif MdVerif.DocSpec\n')
    for i in range(n):
        print('def d%d : Doc := [%s]' % (i, ', '.join('(' + lean_block(b) + ')' for b in gen_doc(rng, g))))
        print('def s%d : Spelling := ⟨%s⟩' % (i, spelling(rng)))
    print('def docs : List (Doc × Spelling) := [' + ', '.join('(d%d, s%d)' % (i, i) for i in range(n)) + ']')
    print('#eval (docs.length, (docs.filter (fun p => WF p.1)).length, '
          '(docs.filter (fun p => WF p.1 && LinkDoc p.1)).length, '
          '(docs.filter (fun p => WF p.1 && LinkDoc p.1 && inlineStyle p.1 p.2)).length)')
    sys.exit(0)

if __name__ == '__main__':
    n = int(sys.argv[1]) if len(sys.argv) > 1 else 2000
    seed = int(sys.argv[2]) if len(sys.argv) > 2 else 1
    res, dis = run(n, seed)
    print(json.dumps(res, indent=1))
    for x in dis[:int(os.environ.get('SHOW', '6'))]:
        print('SRC  ', repr(x['src'])); print('SPEC ', repr(x['spec'])); print('MODEL', repr(x['model']))
        print('REAL ', repr(x['real'])); print()
