"""C01h: differential test of the sub-grammar `LinkDoc` (Spec/DocFlat2.lean) against the real converter, under
spellings of the inline link style (`inlineStyle`): model (`Pipeline.convert`) = specification (`spec`) =
`markdown.Markdown().convert`.

`run(driver, rng, n)` is the entry point of the correspondence framework.

python corr/linkdoc.py <n documents> <seed>       (4 spellings per document)
  flat documents of rules, headings of words / escapes / code spans / emphasised words, and paragraphs that are one
  line of such items and inline links around such items (destinations without `_` and `&`, no bracket in the text of a
  link that starts a paragraph).  The spellings have choices that are multiples of 5, so that `linkStyle` draws the
  inline style for every link; a printed source with `<` or with a reference definition is counted as `skipped`.

`python corr/linkdoc.py lean <n> <seed>` prints a Lean file that evaluates `WF`, `LinkDoc` and `inlineStyle` on generated
documents and spellings: the generator and the predicates describe the same documents.
"""
from __future__ import annotations
import os, sys, random, json

sys.path.insert(0, os.path.dirname(os.path.dirname(os.path.abspath(__file__))))
import proto  # noqa: E402
from proto import enc_str, dec_str  # noqa: E402
from corr import doc as D  # noqa: E402
from corr import nest as N  # noqa: E402


def ok_mix(xs, link_ok):
    prev = None
    for x in xs:
        if x[0] not in 'TXCEGL': return False
        if x[0] == 'C' and '<' in x[1]: return False
        if x[0] == 'C' and prev is not None and prev[0] == 'X' and prev[1] == '\\': return False
        if x[0] in 'EG' and not (len(x[1]) == 1 and x[1][0][0] == 'T'): return False
        if x[0] == 'L':
            if not link_ok: return False
            if not ok_mix(x[1], False): return False
            if '_' in x[2] or '&' in x[2]: return False
        prev = x
    return True


def brackets(xs):
    return any((x[0] == 'X' and x[1] in '[]') or (x[0] == 'C' and ('[' in x[1] or ']' in x[1])) for x in xs)


def gen_doc(rng, g):
    def inl(link):
        for _ in range(800):
            c = g.inlines(2, br_ok=False)
            if not ok_mix(c, link): continue
            if link and not any(x[0] == 'L' for x in c): continue
            if c[0][0] == 'L' and brackets(c[0][1]): continue
            return c
        return [('T', 'w')]
    out = []
    for _ in range(rng.randint(1, 3)):
        k = rng.choice(['p', 'p', 'p', 'a', 's', 'r'])
        if k == 'p': out.append(('p', inl(rng.random() < 0.8)))
        elif k == 'a': out.append(('a', rng.randint(1, 6), inl(False)))
        elif k == 's': out.append(('s', rng.randint(1, 2), inl(False)))
        else: out.append(('r',))
    return out


def spelling(rng):
    return [5 * rng.randint(0, 8) for _ in range(rng.randint(0, 40))]


def lean_inl(x):
    if x[0] == 'L':
        t = 'none' if x[3] is None else '(some %s)' % N.lean_str(x[3])
        return '.link [%s] %s %s' % (', '.join(lean_inl(y) for y in x[1]), N.lean_str(x[2]), t)
    if x[0] in 'EG':
        return '.%s [%s]' % ('em' if x[0] == 'E' else 'strong', ', '.join(lean_inl(y) for y in x[1]))
    return N.lean_inl(x)


def lean_block(b):
    inl = lambda c: '[' + ', '.join(lean_inl(y) for y in c) + ']'
    if b[0] == 'p': return '.para ' + inl(b[1])
    if b[0] == 'a': return '.atx %d %s' % (b[1], inl(b[2]))
    if b[0] == 's': return '.setext %d %s' % (b[1], inl(b[2]))
    return '.rule'


SPELLINGS = 4
MAX_DIS = 50


def run(driver, rng, n, full=False):
    """correspondence entry point (`framework.pmap('corr.linkdoc', 'run', seed, n, shards)`): `n` generated documents,
    each accepted one printed under 4 spellings of the inline link style drawn from `rng`; on every printed source that
    is not skipped (see the module text)  model (`convert`) = specification (`doc.spec`) = `markdown.Markdown().convert`.
    `distinct` = distinct compared sources with a link.  A generated document that `doc.wf` rejects is counted in
    dist['rejected_by_wf'] and skipped."""
    import markdown
    g = D.Gen(rng, 4)
    docs = [gen_doc(rng, g) for _ in range(n)]
    encs = [D.enc_doc(d) for d in docs]
    wf = driver.ask_many([('doc.wf', e) for e in encs]) if docs else []
    keep = [(d, e) for d, e, w in zip(docs, encs, wf) if w == '1']
    res = dict(documents=len(keep), cases=0, differences=0, rejected=len(docs) - len(keep), skipped=0, with_links=0,
               links_max=0, link_first=0, titles=0)
    dist = {'documents': len(keep), 'rejected_by_wf': len(docs) - len(keep), 'skipped': 0}
    for doc, _ in keep:
        nl = [sum(x[0] == 'L' for x in b[1]) for b in doc if b[0] == 'p']
        res['with_links'] += any(nl)
        res['links_max'] = max([res['links_max']] + nl)
        for k in nl: dist['para_links:%d' % k] = dist.get('para_links:%d' % k, 0) + 1
        res['link_first'] += any(b[0] == 'p' and b[1][0][0] == 'L' for b in doc)
        res['titles'] += any(b[0] == 'p' and any(x[0] == 'L' and x[3] is not None for x in b[1]) for b in doc)
    for k in ('with_links', 'link_first', 'titles'): dist[k] = res[k]
    specs = driver.ask_many([('doc.spec', e) for _, e in keep]) if keep else []
    reqs, meta = [], []
    for i, (doc, e) in enumerate(keep):
        for _ in range(SPELLINGS):
            sp = ','.join(str(k) for k in spelling(rng))
            reqs.append(('doc.print', e, sp)); meta.append(i)
    srcs = [dec_str(x) for x in driver.ask_many(reqs)] if reqs else []
    todo = []
    for k, src in enumerate(srcs):
        if '<' in src or ('\n[' in src and ']: ' in src):
            res['skipped'] += 1
        else:
            todo.append(k)
    dist['skipped'] = res['skipped']
    answers = driver.ask_many([('convert', '4', 'xhtml', enc_str(srcs[k])) for k in todo]) if todo else []
    md = markdown.Markdown()
    dis, seen = [], set()
    for k, a in zip(todo, answers):
        src, i = srcs[k], meta[k]
        spec = dec_str(specs[i])
        model = dec_str(a[3:]) if a.startswith('ok ') else a
        try:
            real = md.reset().convert(src)
        except Exception as ex:  # noqa: BLE001   an exception of the converter is a disagreement
            real = 'EXCEPTION %r' % (ex,)
            md = markdown.Markdown()
        if '](' in src: seen.add(src)
        if not (model == spec == real):
            dis.append(dict(src=src, spec=spec, model=model, real=real, doc=keep[i][0], sp=reqs[k][2]))
    res['cases'] = len(todo); res['differences'] = len(dis)
    dis.sort(key=lambda x: (len(x['src']), x['src']))
    dist['disagreements_total'] = len(dis)
    out = {'cases': len(todo), 'distinct': len(seen),
           'disagreements': [{'op': 'convert(print d sp) = spec d = markdown(print d sp)', 'input': N.clip(x['src'], 1500),
                              'spelling': N.clip(x['sp'], 120), 'spec': N.clip(x['spec']), 'model': N.clip(x['model']),
                              'impl': N.clip(x['real']), 'doc': N.clip(x['doc'], 800)} for x in dis[:MAX_DIS]],
           'samples': [{'op': 'doc.print', 'input': N.clip(keep[meta[k]][0], 400), 'model': N.clip(srcs[k], 400)}
                       for k in rng.sample(range(len(reqs)), min(3, len(reqs)))],
           'dist': dict(sorted(dist.items()))}
    if full:
        out.update({'res': res, 'dis': dis})
    return out


if __name__ == '__main__' and sys.argv[1] == 'lean':
    n, seed = int(sys.argv[2]), int(sys.argv[3])
    rng = random.Random(seed)
    g = D.Gen(rng, 4)
    print('import MdVerif.Spec.DocFlat2\nopen MdVerif MdVerif.DocSpec\n')
    for i in range(n):
        print('def d%d : Doc := [%s]' % (i, ', '.join('(' + lean_block(b) + ')' for b in gen_doc(rng, g))))
        print('def s%d : Spelling := ⟨%s⟩' % (i, spelling(rng)))
    print('def docs : List (Doc × Spelling) := [' + ', '.join('(d%d, s%d)' % (i, i) for i in range(n)) + ']')
    print('#eval (docs.length, (docs.filter (fun p => WF p.1)).length, '
          '(docs.filter (fun p => WF p.1 && LinkDoc p.1)).length, '
          '(docs.filter (fun p => WF p.1 && LinkDoc p.1 && inlineStyle p.1 p.2)).length)')
    sys.exit(0)

if __name__ == '__main__':
    n = int(sys.argv[1]) if len(sys.argv) > 1 else 2000
    seed = int(sys.argv[2]) if len(sys.argv) > 2 else 1
    d = proto.Driver()
    out = run(d, random.Random(seed), n, full=True)
    d.close()
    res, dis = out['res'], out['dis']
    print(json.dumps(res, indent=1)); print(json.dumps({k: out[k] for k in ('cases', 'distinct', 'dist')}))
    for x in dis[:int(os.environ.get('SHOW', '6'))]:
        print('SRC  ', repr(x['src'])); print('SPEC ', repr(x['spec'])); print('MODEL', repr(x['model']))
        print('REAL ', repr(x['real'])); print()
