"""Correspondence: entry recognisers of the bundled extensions (lean/MdVerif/Model/Ext/Triggers.lean, ops `trig.*`)
vs the REAL compiled pattern objects / `test` methods of the extension modules.

For every recogniser: all strings up to a small length over the pattern's own literal alphabet, the same strings behind
seed prefixes that reach the deep parts of the pattern, and n random multi-line strings assembled from pattern-specific
tokens.  Two-way agreement is required, except for the `…Pre` ops, which model *necessary* conditions (`impl ⇒ model`)
and for `fenced.implies` (`FENCED_BLOCK_RE.search ⇒ fenceOpenSearch`).
`dist` holds summable counters `<name>.cases` / `<name>.matches` (impl side) and a readable `rates` string."""
import itertools, re
import markdown
from markdown.extensions.admonition import AdmonitionProcessor
from markdown.extensions.def_list import DefListProcessor
from markdown.extensions.footnotes import FootnoteBlockProcessor
from markdown.extensions.abbr import AbbrBlockprocessor
from markdown.extensions.attr_list import AttrListTreeprocessor
from markdown.extensions.fenced_code import FencedBlockPreprocessor
from markdown.extensions.tables import TableProcessor
from markdown.extensions import meta as meta_mod
import proto

_md = markdown.Markdown(extensions=['footnotes', 'wikilinks', 'tables', 'meta', 'def_list', 'admonition'])
FOOTNOTE_INLINE = _md.inlinePatterns['footnote'].compiled_re          # compiled by the extension itself
WIKILINK = _md.inlinePatterns['wikilink'].compiled_re
BASE = re.compile(AttrListTreeprocessor.BASE_RE)
_TABLE = _md.parser.blockprocessors['table']
_DEFLIST = DefListProcessor(_md.parser)
_META = _md.preprocessors['meta']


def _fence_open_pattern():
    """the opening-fence sub-pattern, cut out of the source of FENCED_BLOCK_RE (so that a change of it is followed)"""
    src = FencedBlockPreprocessor.FENCED_BLOCK_RE.pattern
    i = src.index('(?P<fence>') + len('(?P<fence>')
    depth, j = 1, i
    while depth:
        if src[j] == '\\': j += 2; continue
        if src[j] == '(': depth += 1
        elif src[j] == ')': depth -= 1
        j += 1
    return re.compile(src[i:j - 1], re.MULTILINE)


FENCE_OPEN = _fence_open_pattern()


def _meta_consumes(l):
    lines = [l, 'zz']
    return _META.run(list(lines)) != lines


def _table_test(s):
    return bool(_TABLE.test(None, s))


# name -> (impl, alphabet, seeds, tokens, mode)      mode: 'eq' two-way, 'pre' impl => model, 'line' = no '\n' in inputs
SPECS = {
    'admonition': (lambda s: AdmonitionProcessor.RE.search(s) is not None, '! a-"\n', ['!!!', '!!! a', '!!!a "', 'a\n!!!', '!!!a', '!!!-a "a', '\n!!!a '],
                   ['!!!', '!!! ', 'note', 'é', '-', ' ', '  ', '"', '"T"', ' "a b"', '\n', '\n', '!', '\t', 'x.', '!!!!', '\n\n', '_', '\r', '\x0b', '٣'], 'eq'),
    'defList': (lambda s: _DEFLIST.test(None, s), ': a\n', [':', ' :', '   :', '    :', 'a\n'],
                [':', ': ', ' ', '  ', '   ', 'a', '\n', '\n', ':   ', 'b c', '\t', ':\n'], 'eq'),
    'footnoteDef': (lambda s: FootnoteBlockProcessor.RE.search(s) is not None, '[^]: \n', ['[^', '[^]', ' [^', '    [^', 'a\n[^', '[^a]', '  [^\n]', '\n[^', '[^]:', '[^ ]', ' [^]', '   [^^]', '[^[]', '[^]]'],
                    ['[^', ']', ']:', ':', ' ', '   ', '    ', 'a', '1', '\n', '\n', '[', '^', '[^1]:', ' x'], 'eq'),
    'footnoteRef': (lambda s: FOOTNOTE_INLINE.search(s) is not None, '[^]a\n', ['[^', '[', 'a['],
                    ['[^', ']', '[', '^', 'a', '1', ' ', '\n', '[^1]', '\\'], 'eq'),
    'abbr': (lambda s: AbbrBlockprocessor.RE.search(s) is not None, '*[]: \\\n', ['*[', '*[]', '*[] ', 'a\n*[', '*[\\', '*[a', '*[]]', '\n*[ ', '*[*', '*[:', '*[]:', '*[a]', '*[ ] ', '*[\n]', '\n*[]', '*[[] ', '*[*]'],
             ['*[', ']', ']:', '] :', ']  :', ':', ' ', 'A', 'b', '\\', '\n', '\n', '*', '[', ' *[', 'T', '\r'], 'eq'),
    'wikilink': (lambda s: WIKILINK.search(s) is not None, '[]a -_', ['[[', '[[a', '[[a]', 'x[[', '[[-', '[[ _', '[[[[', ']][[', '[[a]]', '[[-]', '[[ ]', 'a[[_]', '[[a a]', '[[[a]', '[[__]', ' [[-]'],
                 ['[[', ']]', '[', ']', 'a', 'é', '1', '_', '-', ' ', '.', '\n', '[[w]]', 'B c'], 'eq'),
    'attrBase': (lambda s: BASE.search(s) is not None, '{:} a\n', ['{', '{:', '{ ', '{a', 'a{'],
                 ['{', '{:', '}', ' ', '  ', '#i', '.c', 'k=v', '\n', ':', 'a', '{}', '}}', '\r', '\t'], 'eq'),
    'attrInline': (lambda s: AttrListTreeprocessor.INLINE_RE.match(s) is not None, '{:} a\n', ['{', '{:', '{ ', '{a', '{:a', '{  a', '{:  :'],
                   ['{', '{:', '}', ' ', '  ', '#i', '.c', 'k=v', '\n', ':', 'a', '{}', '}}'], 'eq'),
    'attrHeader': (lambda s: AttrListTreeprocessor.HEADER_RE.search(s) is not None, '{:} a\n', [' {', ' {a', ' {a}', 'a {:', ' {a} ', ' {:a', '  { a', ' {{', ' {a}}', ' {a}', ' {:}', ' { a}', '  {{}', ' {a }', ' {}}', ' {:a}', 'a {a}', ' {:a }', ' { a }', ' {a} }', ' {a}:}', ' {a:}'],
                   [' {', '{', '{:', '}', '} ', '}\n', ' ', '  ', '#i', '.c', '\n', ':', 'a', 'h ', '}}', '\r', '\t'], 'eq'),
    'attrBlock': (lambda s: AttrListTreeprocessor.BLOCK_RE.search(s) is not None, '{:} a\n', ['\n{', '\n{a', '\n {a}', 'a\n{:', '\n{a} ', '\n{:a', '\n  { a', '\n{{', '\n{a}}', '\n{:}', '\n { a}', '\n{{}', '\n{a }', '\n{}}', '\n{:a}', '\n\n{a', 'a\n{a}', '\n{:a }', '\n{ a }', '\n{a} }', '\n{a}:}', '\n{a:}'],
                  ['\n{', '\n  {', '{', '{:', '}', '} ', '}\n', ' ', '  ', '#i', '.c', '\n', ':', 'a', 'p', '}}'], 'eq'),
    'fenceOpen': (lambda s: FENCE_OPEN.search(s) is not None, '`~a\n ', ['``', '~~', 'a\n`', '\n~', ' \n``', '```', '\n~~~', 'a\n``'],
                  ['```', '~~~', '`', '~', '``', '~~', 'a', ' ', '\n', '\n', 'py'], 'eq'),
    'metaKeyLine': (lambda s: meta_mod.META_RE.match(s) is not None, ' a-_:\n', [' ', '   ', '    ', 'a', 'a '],
                    ['key', 'K', '1', '_', '-', ':', ': ', ' ', '   ', '    ', 'é', 'v', '\t', '.'], 'eq'),
    'metaBeginLine': (lambda s: meta_mod.BEGIN_RE.match(s) is not None, '-. a', ['--', '---'],
                      ['---', '--', '-', '.', ' ', 'a', '...'], 'eq'),
    'metaEndLine': (lambda s: meta_mod.END_RE.match(s) is not None, '-. a', ['--', '..', '---', '...'],
                    ['---', '--', '-', '.', ' ', 'a', '...', '..'], 'eq'),
    'metaFirstLine': (lambda s: meta_mod.META_RE.match(s) is not None or meta_mod.BEGIN_RE.match(s) is not None, ' a-:.', ['--', ' a', 'a'],
                      ['key', ':', ': ', ' ', '   ', '    ', '---', '--', '-', '.', '...', 'v'], 'eq'),
    'metaConsumes': (_meta_consumes, ' a-:.\t', ['--', '..', ' a', 'a', ' '],
                     ['key', ':', ': ', ' ', '   ', '    ', '---', '--', '-', '.', '...', 'v', '\t', '\x0b', '\xa0'], 'line'),
    'tableTestPre': (_table_test, '|-a\n :', ['|a|\n', 'a|b\n', '|a\n|', 'a|a\n-|', '|a|\n|-', '|\n|', ' | \n', '|-\n:', '|\n|-', 'a|\n-|', '|a|\n|-|', '-|-\n-|', '|:\n|', '|\n|\n', '| |\n|'],
                     ['|', '|', '-', '--', ':', ' ', 'a', 'b', '\n', '\n', '`', '\\', '\\|', '|-|-|', 'a|b', '-|-'], 'pre'),
}


# matching inputs that the random generator mutates (so that a healthy share of the random inputs match)
TEMPLATES = {
    'admonition': ['!!! note', '!!! note "T"\n    x', 'a\n!!!danger  big "a b"  \nb', '!!! é-٣ _', '!!! a ""  ', '!!!a\n'],
    'defList': ['t\n: d', ':   d\n', '   : d', 'a\n\n  :  b'],
    'footnoteDef': ['[^1]: n', '   [^a b]:x\ny', 'p\n[^]:', '[^a\nb]: c'],
    'footnoteRef': ['a[^1]b', '[^]', '[^a\nb]'],
    'abbr': ['*[A]: b', 'p\n*[A B] :  c\nd', '*[a]b]:', '*[]:\n  t'],
    'wikilink': ['[[w]]', 'a [[B c_d-1]] e', '[[é٣]]'],
    'attrBase': ['{: #i .c}', 'a {k=v} b', '{:}', '{ x }'],
    'attrInline': ['{: #i .c}', '{k=v} b', '{:}', '{ x }y'],
    'attrHeader': ['h {: #i}', 'h   {.c}  ', 'h {#i} \n', 'a { x}} '],
    'attrBlock': ['p\n{: #i}', 'p\n  {.c}  ', 'p\n{#i}\n', '\n{:}'],
    'fenceOpen': ['```\nc\n```', 'a\n~~~~py\n', '```'],
    'metaKeyLine': ['key: v', '   K_1-:v', 'a:'],
    'metaBeginLine': ['---', '--- x', '----'],
    'metaEndLine': ['---', '... x', '....'],
    'metaFirstLine': ['key: v', '---', '  a:'],
    'metaConsumes': ['key: v', '---', '...', '  ', '', '.... a'],
    'tableTestPre': ['a|b\n-|-', '|a|\n|-|\n|c|', 'a | b\n--- | ---\nc | d', '|a\n|:-:'],
}


def mutate(rng, s, tokens):
    for _ in range(rng.randint(0, 3)):
        i = rng.randint(0, len(s)); k = rng.random()
        if k < 0.45: s = s[:i] + rng.choice(tokens) + s[i:]
        elif k < 0.75 and s: s = s[:i] + s[i + 1:]
        elif s: s = s[:i] + rng.choice(tokens) + s[i + 1:]
    return s


def exhaustive(alpha, seeds, budget=60000):
    """all strings over alpha up to the largest length whose count fits the budget, bare and behind each seed"""
    k = len(alpha); L = 0; tot = 1
    while tot + k ** (L + 1) <= budget:
        L += 1; tot += k ** L
    out = []
    for l in range(L + 1):
        for t in itertools.product(alpha, repeat=l):
            out.append(''.join(t))
    for sd in seeds:
        for l in range(L):
            for t in itertools.product(alpha, repeat=l):
                out.append(sd + ''.join(t))
    return out, L


def randoms(rng, tokens, n, oneline, templates=()):
    out = []
    for _ in range(n):
        if templates and rng.random() < 0.5:
            s = mutate(rng, rng.choice(templates), tokens)
            if rng.random() < 0.3: s = rng.choice(['a b\n', '\n', 'x\n\n', ' ', '']) + s + rng.choice(['', '\n', '\nz', ' '])
            if oneline: s = s.replace('\n', ' ')
            out.append(s); continue
        s = ''.join(rng.choice(tokens) for _ in range(rng.randint(1, 12)))
        if rng.random() < 0.3:
            s = s + '\n' + ''.join(rng.choice(tokens) for _ in range(rng.randint(1, 8)))
        if rng.random() < 0.15:
            s = rng.choice(['a b\n', '\n', 'x\n\n', '    ']) + s
        if oneline: s = s.replace('\n', ' ')
        out.append(s)
    return out


# ------------------------------------------------------------------ AdmonitionProcessor.test (tree side)
def _adm_trees(rng):
    T = proto.T
    def adm(children=()): return T('n', 'div', attrs=[('class', rng.choice(['admonition note', 'admonition', 'x admonition-y', 'noadmonition']))], children=children)
    def li(children=(), text='t'): return T('n', 'li', text=text, children=children)
    kids_pool = [lambda: T('n', 'p', text='x'), lambda: T('n', 'div'), lambda: T('n', 'div', attrs=[('class', 'note')]),
                 lambda: adm(), lambda: adm([T('n', 'p', text='t')]),
                 lambda: adm([T('n', rng.choice(['ul', 'ol', 'dl']), children=[li()] if rng.random() < 0.8 else [])]),
                 lambda: adm([T('n', 'ul', children=[li([adm([T('n', 'p', text='q')])])])]),
                 lambda: adm([T('n', 'ul', children=[li([T('n', 'ol', children=[li()])])])]),
                 lambda: T('n', 'span', attrs=[('class', 'admonition')]), lambda: T('n', 'ul', children=[li([adm()])])]
    return T('n', 'div', children=[rng.choice(kids_pool)() for _ in range(rng.randint(0, 3))])


def _adm_cases(driver, rng, n, dis, stats):
    import xml.etree.ElementTree as etree
    blocks = ['x', '  x', '    x', '     x', '        y', '            z', '!!! note', '    !!! n\n        t', '', '   ', '    ', '\tx', '        - a']
    reqs, meta = [], []
    for _ in range(n):
        t = _adm_trees(rng); b = rng.choice(blocks); pending = rng.random() < 0.08
        proc = AdmonitionProcessor(_md.parser)
        if pending: proc.current_sibling = etree.Element('div')
        real = bool(proc.test(proto.to_etree(t), b))
        last = t.children[-1] if t.children else None
        inner = last.children[-1] if (last is not None and last.children) else None
        exact = pending or inner is None or inner.tag not in ('ul', 'ol', 'dl')
        reqs.append(('trig.admTestPre', str(_md.tab_length), proto.enc_bool(pending), proto.enc_tree(t), proto.enc_str(b)))
        meta.append((t, b, pending, real, exact))
    for (t, b, pending, real, exact), a in zip(meta, driver.ask_many(reqs)):
        model = a == '1'
        stats['admTestPre.cases'] += 1; stats['admTestPre.matches'] += int(real); stats['admTestPre.exact_cases'] += int(exact)
        if (real and not model) or (exact and real != model) or a not in ('0', '1'):
            dis.append({'op': 'trig.admTestPre', 'input': {'tree': proto.enc_tree(t), 'block': b, 'pending': pending, 'exact': exact},
                        'model': a, 'impl': real})


def run(driver, rng, n, exhaustive_part=True):
    """n random inputs per recogniser on top of the exhaustive part.  The exhaustive part is deterministic and is repeated
    by every shard of a sharded run (so `cases`/`distinct` count it once per shard; `dist['exhaustive_inputs']`, a string,
    survives the merge un-summed and gives the number to subtract); pass `exhaustive_part=False` to skip it."""
    dis, seen, samples = [], set(), []
    n_ex = 0
    lens = {}
    stats = {}
    cases = 0
    for name, (impl, alpha, seeds, tokens, mode) in SPECS.items():
        oneline = mode == 'line'
        ex, L = exhaustive(alpha.replace('\n', '') if oneline else alpha, seeds) if exhaustive_part else ([], 0)
        n_ex += len(set(ex))
        inputs = ex + randoms(rng, tokens, n, oneline, TEMPLATES.get(name, ()))
        inputs = [s for s in inputs if proto.lean_ok(s)]
        ans = driver.ask_many([('trig.' + name, proto.enc_str(s)) for s in inputs])
        m = mm = 0
        for s, a in zip(inputs, ans):
            real = bool(impl(s)); model = a == '1'
            m += real; mm += model
            bad = (real and not model) if mode == 'pre' else (real != model)
            if bad or a not in ('0', '1'):
                dis.append({'op': 'trig.' + name, 'input': s, 'model': a, 'impl': real})
            seen.add((name, s))
        cases += len(inputs)
        stats[name + '.cases'] = len(inputs); stats[name + '.matches'] = m; stats[name + '.model_matches'] = mm
        lens[name] = L
        stats[name + '.random_cases'] = len(inputs) - len(ex); stats[name + '.random_matches'] = sum(1 for s in inputs[len(ex):] if impl(s))
        pos = [s for s in inputs[len(ex):] if impl(s)]
        if pos: samples.append({'op': 'trig.' + name, 'input': pos[0], 'impl': True})
    # FENCED_BLOCK_RE.search => fenceOpenSearch
    ftok = ['```', '~~~', '````', '```py', '\n', '\n', 'code', ' ', '`', '~', '{.x}', 'a', '\n```', '\n~~~\n']
    finputs = [s for s in randoms(rng, ftok, n, False) if proto.lean_ok(s)]
    fans = driver.ask_many([('trig.fenceOpen', proto.enc_str(s)) for s in finputs])
    fm = 0
    for s, a in zip(finputs, fans):
        real = FencedBlockPreprocessor.FENCED_BLOCK_RE.search(s) is not None
        fm += real; seen.add(('fenced.implies', s))
        if real and a != '1':
            dis.append({'op': 'fenced.implies', 'input': s, 'model': a, 'impl': real})
    cases += len(finputs)
    stats['fenced.implies.cases'] = len(finputs); stats['fenced.implies.matches'] = fm
    # AdmonitionProcessor.test on trees
    for k in ('admTestPre.cases', 'admTestPre.matches', 'admTestPre.exact_cases'): stats[k] = 0
    _adm_cases(driver, rng, max(50, n // 2), dis, stats)
    cases += stats['admTestPre.cases']
    names = list(SPECS) + ['fenced.implies', 'admTestPre']
    stats['random_rates'] = ' '.join('%s=%d%%' % (k, round(100.0 * stats[k + '.random_matches'] / max(1, stats[k + '.random_cases']))) for k in SPECS)
    stats['exhaustive_inputs'] = str(n_ex)
    stats['exhaustive_len'] = ' '.join('%s=%d' % kv for kv in lens.items())
    stats['rates'] = ' '.join('%s=%d%%' % (k, round(100.0 * stats[k + '.matches'] / max(1, stats[k + '.cases']))) for k in names)
    return {'cases': cases, 'distinct': len(seen) + stats['admTestPre.cases'], 'disagreements': dis, 'samples': samples, 'dist': stats}
