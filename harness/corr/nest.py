"""C01e: differential test of the sub-grammars of Props/C01e.lean against the real converter.

`run(driver, rng, n)` is the entry point of the correspondence framework (mode of every document drawn from `rng`).

modes (python corr/nest.py <mode> <n documents> <seed>; 4 spellings per document; mode `all` = drawn per document):
  A  `ListMixDoc`: the list shapes of C01d with mixRun inline content in item paragraphs and in the blocks of loose items
  Q  `QuoteListDoc`: quotes that hold lists of flat items; loose lists whose items hold quotes of flat blocks
  B  one or two steps of mutual nesting of quotes and loose lists (inside `NestDoc`)
  C  `NestDoc`: flat mix blocks, quotes and lists nested in each other to depth 5

`python corr/nest.py lean <mode> <n> <seed>` prints a Lean file that evaluates `WF` and the predicate of the mode
(`Spec/DocNest.lean`) on generated documents: the generator and the predicates describe the same documents.
"""
from __future__ import annotations
import os, sys, collections, random

sys.path.insert(0, os.path.dirname(os.path.dirname(os.path.abspath(__file__))))
from proto import enc_str, dec_str, Driver  # noqa: E402
from corr.doc import enc_doc, VOCAB, ESCAPED  # noqa: E402

CODE_ALPHA = 'ab `*_>&[]()\\#"\'!-+.1=;~|{}x '


class G:
    def __init__(self, rng, mode, maxdepth=4):
        self.r, self.mode, self.maxdepth = rng, mode, maxdepth

    def words(self, lead=False, trail=False):
        r = self.r
        w = ' '.join(r.choice(VOCAB) for _ in range(r.randint(1, 3)))
        return (' ' if lead else '') + w + (' ' if trail else '')

    def code_body(self):
        r = self.r
        while True:
            b = ''.join(r.choice(CODE_ALPHA) for _ in range(r.randint(1, 7))).strip(' ')
            if b and '```' not in b and '&#' not in b:
                return b

    def inlines(self, plain=False):
        r = self.r
        n = r.choice([1, 1, 2, 2, 3, 4, 5])
        kinds = []
        prev = None
        for i in range(n):
            ks = ['T', 'T', 'X'] if plain else ['T', 'T', 'T', 'C', 'X', 'E', 'G']
            ks = [k for k in ks if not (k == prev and k in 'TC')]
            k = r.choice(ks)
            kinds.append(k); prev = k
        out = []
        for i, k in enumerate(kinds):
            if k == 'T':
                first, last = i == 0, i == len(kinds) - 1
                lead = (not first) and r.random() < 0.7
                trail = (not last) and r.random() < 0.7
                if (not first) and (not last) and r.random() < 0.1: out.append(('T', ' '))
                else: out.append(('T', self.words(lead, trail)))
            elif k == 'C': out.append(('C', self.code_body()))
            elif k == 'X':
                c = r.choice(ESCAPED)
                if c == '\\' and i + 1 < len(kinds) and kinds[i + 1] == 'C': c = '*'
                out.append(('X', c))
            elif k in 'EG': out.append((k, [('T', self.words())]))
        return out

    def flat(self):
        r = self.r
        k = r.choice(['p', 'p', 'p', 'a', 's', 'r'])
        if k == 'p': return ('p', self.inlines())
        if k == 'a': return ('a', r.randint(1, 6), self.inlines())
        if k == 's': return ('s', r.randint(1, 2), self.inlines())
        return ('r',)

    # ---- lists
    def tight_items(self, depth):
        r = self.r
        items = []
        for _ in range(r.choice([1, 2, 2, 3])):
            it = [('p', self.inlines())]
            if depth > 0 and r.random() < 0.35:
                it.append((r.choice('uo'), False, self.tight_items(depth - 1)))
            items.append(it)
        return items

    def loose_items(self, depth, inner):
        """inner(depth, prev_kind) -> a further block of a loose item"""
        r = self.r
        items = []
        for _ in range(r.choice([1, 2, 2, 3])):
            it = [('p', self.inlines())]
            for _ in range(r.choice([0, 0, 1, 1, 2, 3])):
                b = inner(depth, it[-1][0])
                if b is not None: it.append(b)
            items.append(it)
        if len(items) < 2 and all(len(i) < 2 for i in items):
            items.append([('p', self.inlines())])
        return items

    # ---- mode A
    def a_inner(self, depth, prev):
        r = self.r
        if depth > 0 and prev not in 'uo' and r.random() < 0.3:
            return (r.choice('uo'), True, self.loose_items(depth - 1, self.a_inner))
        return self.flat()

    def a_block(self):
        r = self.r
        x = r.random()
        if x < 0.3: return self.flat()
        if x < 0.65: return (r.choice('uo'), False, self.tight_items(3))
        return (r.choice('uo'), True, self.loose_items(2, self.a_inner))

    # ---- mode C (B is C with shallow depth and a container at top)
    def c_inner(self, depth, prev):
        r = self.r
        ks = ['f', 'f']
        if depth > 0:
            if prev not in 'uo': ks += ['l', 'l']
            if prev != 'q': ks += ['q', 'q']
        k = r.choice(ks)
        if k == 'f': return self.flat()
        if k == 'l': return (r.choice('uo'), True, self.loose_items(depth - 1, self.c_inner))
        return ('q', self.c_blocks(depth - 1))

    def c_block(self, depth, prev):
        r = self.r
        ks = ['f', 'f']
        if depth > 0:
            if prev not in 'uo': ks += ['t', 'l']
            if prev != 'q': ks += ['q', 'q']
        k = r.choice(ks)
        if k == 'f': return self.flat()
        if k == 't': return (r.choice('uo'), False, self.tight_items(depth - 1))
        if k == 'l': return (r.choice('uo'), True, self.loose_items(depth - 1, self.c_inner))
        return ('q', self.c_blocks(depth - 1))

    def c_blocks(self, depth, n=None):
        r = self.r
        out = []
        for _ in range(n or r.choice([1, 1, 2, 2, 3])):
            out.append(self.c_block(depth, out[-1][0] if out else 'x'))
        return out

    # ---- mode Q: exactly `QuoteListDoc`
    def q_flat_list(self):
        r = self.r
        loose = r.random() < 0.5
        items = []
        for _ in range(r.choice([1, 2, 2, 3])):
            it = [('p', self.inlines())]
            if loose:
                for _ in range(r.choice([0, 1, 1, 2])): it.append(self.flat())
            items.append(it)
        if loose and len(items) < 2 and all(len(i) < 2 for i in items):
            items.append([('p', self.inlines())])
        return (r.choice('uo'), loose, items)

    def q_quote_of_lists(self):
        r = self.r
        out = []
        for _ in range(r.choice([1, 2, 2, 3])):
            b = self.q_flat_list() if r.random() < 0.55 and not (out and out[-1][0] in 'uo') else self.flat()
            out.append(b)
        return ('q', out)

    def q_list_of_quotes(self):
        r = self.r
        items = []
        for _ in range(r.choice([1, 2, 2, 3])):
            it = [('p', self.inlines())]
            for _ in range(r.choice([0, 1, 1, 2, 3])):
                if r.random() < 0.55 and it[-1][0] != 'q':
                    it.append(('q', [self.flat() for _ in range(r.choice([1, 2, 3]))]))
                else:
                    it.append(self.flat())
            items.append(it)
        if len(items) < 2 and all(len(i) < 2 for i in items):
            items.append([('p', self.inlines())])
        return (r.choice('uo'), True, items)

    def doc(self):
        r = self.r
        if self.mode == 'Q':
            out = []
            for _ in range(r.randint(1, 4)):
                x = r.random()
                if x < 0.25: b = self.flat()
                elif x < 0.65 and not (out and out[-1][0] == 'q'): b = self.q_quote_of_lists()
                elif not (out and out[-1][0] in 'uo'): b = self.q_list_of_quotes()
                else: b = self.flat()
                out.append(b)
            return out
        if self.mode == 'A':
            out = []
            for _ in range(r.randint(1, 4)):
                b = self.a_block()
                if out and out[-1][0] in 'uo' and b[0] in 'uo': b = self.flat()
                out.append(b)
            return out
        if self.mode == 'B':
            out = []
            for _ in range(r.randint(1, 3)):
                if r.random() < 0.5:
                    b = ('q', self.c_blocks(1))
                    if out and out[-1][0] == 'q': b = self.flat()
                else:
                    b = (r.choice('uo'), True, self.loose_items(1, self.c_inner))
                    if out and out[-1][0] in 'uo': b = self.flat()
                out.append(b)
            return out
        return self.c_blocks(self.maxdepth, n=r.randint(1, 5))


def lean_str(t):
    return '(S "' + ''.join('\\' + c if c in '"\\' else c for c in t) + '")'


def lean_inl(x):
    k = x[0]
    if k == 'T': return '.text ' + lean_str(x[1])
    if k == 'C': return '.code ' + lean_str(x[1])
    if k == 'X': return '.esc (Char.ofNat %d)' % ord(x[1])
    if k == 'E': return '.em [' + ', '.join(lean_inl(y) for y in x[1]) + ']'
    if k == 'G': return '.strong [' + ', '.join(lean_inl(y) for y in x[1]) + ']'
    raise ValueError(k)


def lean_block(b):
    k = b[0]
    inl = lambda c: '[' + ', '.join(lean_inl(y) for y in c) + ']'
    if k == 'p': return '.para ' + inl(b[1])
    if k == 'a': return '.atx %d %s' % (b[1], inl(b[2]))
    if k == 's': return '.setext %d %s' % (b[1], inl(b[2]))
    if k == 'r': return '.rule'
    if k == 'q': return '.quote ' + lean_doc(b[1])
    if k in 'uo':
        return '.%s %s [%s]' % ('ulist' if k == 'u' else 'olist', 'true' if b[1] else 'false',
                                ', '.join(lean_doc(it) for it in b[2]))
    raise ValueError(k)


def lean_doc(d):
    return '[' + ', '.join('(' + lean_block(b) + ')' for b in d) + ']'


def depth_of(d):
    m = 1
    for b in d:
        if b[0] == 'q': m = max(m, 1 + depth_of(b[1]))
        elif b[0] in 'uo':
            for it in b[2]: m = max(m, 1 + depth_of(it))
    return m


def kinds_of(d, ctx, out):
    for b in d:
        out[ctx + '>' + b[0]] += 1
        if b[0] == 'q': kinds_of(b[1], 'q', out)
        elif b[0] in 'uo':
            c = 'L' if b[1] else 'T'
            for it in b[2]: kinds_of(it, c, out)


MODES = 'AQBC'
SPELLINGS = 4
MAX_DIS = 50          # disagreement entries kept per call (the shortest sources); dist['disagreements_total'] has the count


def clip(x, k=600):
    x = x if isinstance(x, str) else repr(x)
    return x if len(x) <= k else x[:k] + '…(%d chars)' % len(x)


def check_docs(driver, rng, docs, spellings=SPELLINGS, tags=None, full=False):
    """the differential test proper: every document of `docs` that the driver's `doc.wf` accepts is printed under
    `spellings` spellings (the first one empty = canonical, the others drawn from `rng`) by `doc.print`;
    `markdown.Markdown().convert` of each printed source must equal `doc.spec` of the document.
    `tags[i]` (optional) labels document i in the statistics and in the disagreement entries.
    Returns the dict of the correspondence framework (`full`: + the keys of the command-line report)."""
    import markdown
    n = len(docs)
    tags = list(tags) if tags is not None else [''] * n
    encs = [enc_doc(d) for d in docs]
    wf = driver.ask_many([('doc.wf', e) for e in encs]) if docs else []
    keep = [(d, e, t) for d, e, t, w in zip(docs, encs, tags, wf) if w == '1']
    rej = [d for d, w in zip(docs, wf) if w != '1']
    specs = driver.ask_many([('doc.spec', e) for _, e, _ in keep]) if keep else []
    reqs, meta = [], []
    for i, (d, e, t) in enumerate(keep):
        for j in range(spellings):
            sp = [] if j == 0 else [rng.randint(0, 11) for _ in range(rng.choice([10, 60, 200]))]
            reqs.append(('doc.print', e, ','.join(map(str, sp)))); meta.append(i)
    srcs = []
    for i in range(0, len(reqs), 10000):
        srcs.extend(driver.ask_many(reqs[i:i + 10000]))
    md = markdown.Markdown()
    dis, seen = [], set()
    dist = collections.Counter()
    dist['documents'] = len(keep)
    dist['rejected_by_wf'] = len(rej)
    for d, _, t in keep:
        if t: dist['mode:' + t] += 1
        dist['depth:%d' % depth_of(d)] += 1
        kinds_of(d, 'top', dist)
    for (op, e, sp), i, s in zip(reqs, meta, srcs):
        src = dec_str(s)
        seen.add(src)
        try:
            out = md.reset().convert(src)
        except Exception as ex:  # noqa: BLE001   an exception of the converter is a disagreement, not a crash of the check
            out = 'EXCEPTION %r' % (ex,)
            md = markdown.Markdown()
        want = dec_str(specs[i])
        if out != want:
            dis.append({'src': src, 'want': want, 'got': out, 'doc': keep[i][0], 'sp': sp, 'mode': keep[i][2]})
    dis.sort(key=lambda x: (len(x['src']), x['src']))
    dist['disagreements_total'] = len(dis)
    samples = [{'op': 'doc.print', 'input': clip(keep[meta[k]][0], 400), 'model': clip(dec_str(srcs[k]), 400)}
               for k in rng.sample(range(len(reqs)), min(3, len(reqs)))]
    res = {'cases': len(reqs), 'distinct': len(seen),
           'disagreements': [{'op': 'convert(print d sp) = spec d', 'mode': x['mode'], 'input': clip(x['src'], 1500),
                              'spelling': clip(x['sp'], 120), 'model': clip(x['want']), 'impl': clip(x['got']),
                              'doc': clip(x['doc'], 800)} for x in dis[:MAX_DIS]],
           'samples': samples, 'dist': dict(sorted(dist.items()))}
    if full:
        res.update({'generated': n, 'wf': len(keep), 'n_dis': len(dis), 'dis': dis[:20], 'rejected': rej[:5]})
    return res


def run(driver, rng, n, mode=None, spellings=SPELLINGS, full=False):
    """correspondence entry point (`framework.pmap('corr.nest', 'run', seed, n, shards)`): `n` documents, each printed
    under `spellings` spellings; `distinct` = distinct printed sources (every document has >= 1 block, none is trivial).
    `mode` None: the grammar (A, Q, B, C) of every document is drawn from `rng`; a given mode: all documents of it."""
    docs, tags = [], []
    for _ in range(n):
        m = mode or rng.choice(MODES)
        docs.append(G(rng, m).doc()); tags.append(m)
    return check_docs(driver, rng, docs, spellings, tags, full)


if __name__ == '__main__' and sys.argv[1] == 'lean':
    # emit a Lean file that evaluates the predicates of Spec/DocNest.lean on generated documents
    mode, n, seed = sys.argv[2], int(sys.argv[3]), int(sys.argv[4])
    g = G(random.Random(seed), mode)
    pred = {'A': 'ListMixDoc', 'Q': 'QuoteListDoc', 'B': 'NestDoc', 'C': 'NestDoc'}[mode]
    print('import MdVerif.Spec.DocNest\nopen MdVerif MdVerif.DocSpec\n')
    for i in range(n):
        print('def d%d : Doc := %s' % (i, lean_doc(g.doc())))
    print('def docs : List Doc := [' + ', '.join('d%d' % i for i in range(n)) + ']')
    print('#eval (docs.length, (docs.filter (fun d => WF d)).length, (docs.filter (fun d => WF d && %s d && NestDoc d)).length)' % pred)
    sys.exit(0)

if __name__ == '__main__':
    import json
    mode = None if sys.argv[1] == 'all' else sys.argv[1]
    n = int(sys.argv[2]) if len(sys.argv) > 2 else 2000
    seed = int(sys.argv[3]) if len(sys.argv) > 3 else 1
    d = Driver()
    res = run(d, random.Random(seed), n, mode, full=True)
    d.close()
    print(json.dumps({k: v for k, v in res.items() if k not in ('dis', 'rejected', 'disagreements', 'samples')}, indent=1))
    for x in res['rejected'][:3]: print('REJECTED', x)
    for x in res['dis'][:int(os.environ.get('SHOW', '6'))]:
        print('SRC ', repr(x['src'])); print('WANT', repr(x['want'])); print('GOT ', repr(x['got'])); print('DOC ', x['doc']); print()
