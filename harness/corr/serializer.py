"""Correspondence check for C14: `markdown/serializers.py` against the Lean model (`MdVerif/Model/Serializer.lean`),
through the ops of `lean/Driver/SerializerOps.lean`.

    run(driver, rng, n) -> {'cases', 'distinct', 'disagreements', 'samples', 'dist'}

(a) `_escape_cdata`, `_escape_attrib_html`, `_escape_attrib`  vs  ops `esc.cdata`, `esc.attr`, `esc.attrib`
    on every string of length <= 4 (<= 5 when n >= LARGE_N) over the class alphabet of `RE_AMP`
    (`& # x X ; 0 9 a f g z A U+017F U+212A < > " ' LF space`), plus n random longer strings (on these also the
    one-pass escaper `esc1` with the three flag settings).
(b) `to_html_string`, `to_xhtml_string`  vs  op `ser` on n/10 random trees: tags from a small list (void tags, script/
    style, mixed case, a few non-ASCII), Comment / ProcessingInstruction / `None`-tag / QName nodes (well-formed and
    malformed QNames: the `ValueError` of the code is `err` of the model), hostile text / tail / attribute strings.
    Plus, on every run, one small tree per NAME NEAR THE VOID SET (`near_void_trees`): every name of the HTML void list
    (`xml.etree.ElementTree.HTML_EMPTY`, the set the model's `isVoid` transcribes) in three spellings, and the names that
    other "void element" tables add or that differ from a void name by a letter (`command keygen menuitem bgsound
    nextid spacer image menu basefon framee colgroup ...`), each once empty and once with text, an attribute, a child
    and a tail, below a parent: a serializer whose void table has an entry more or less writes `<x />` / drops the
    content / omits the end tag for exactly one of these.  A quarter of the random trees draw their tags from this list.
(c) model-internal sanity of the spec ops on the same trees: when `wf` says 1, `read fmt (ser fmt t)` = `canon t`.

Outside the domain of the model (never generated): a Comment / PI whose `text` is `None` (the code raises `TypeError`,
the model writes the empty string), `QName` objects as attribute keys or values, non-`str` text, lone surrogates, and
tags containing U+03A3 (final-sigma rule of `str.lower`).
"""
from __future__ import annotations
import itertools, random
from collections import Counter

try:
    from proto import enc_str, dec_str, enc_tree, T, to_etree, lean_ok
except ModuleNotFoundError:          # run as a script: the harness directory is the parent of corr/
    import os, sys
    sys.path.insert(0, os.path.dirname(os.path.dirname(os.path.abspath(__file__))))
    from proto import enc_str, dec_str, enc_tree, T, to_etree, lean_ok

ALPHABET = ['&', '#', 'x', 'X', ';', '0', '9', 'a', 'f', 'g', 'z', 'A', 'ſ', 'K', '<', '>', '"', "'", '\n', ' ']
LARGE_N = 100000
CHUNK = 20000

FRAGMENTS = ['&amp;', '&lt;', '&gt;', '&quot;', '&#10;', '&#12;', '&#x1F;', '&#X1f;', '&#x;', '&#;', '&;', '&#xg;', '&lt',
             '&ſ;', '&K1;', '&İ;', '&ı;', '& ', '&&', '&#1a;', '&#x 1;', '&a b;', '<b>', '</p>', '<!--',
             '-->', '?>', '"', "'", '\n', '\r\n', '\t', '&é;', 'é', ' ', '\U0001f600', '&#0;', '&0;', '&zz9;',
             'a&b;c', ']]>', '<script>', '&amp;amp;', '&#x26;', '=', '/>', ' />']
EXTRA_CHARS = ['İ', 'ı', 'é', 'σ', 'G', 'F', 'Z', '1', 'b', 'e', '-', '_', ':', '.', '/', '!', '?', '=',
               '\t', '\r', '\x00', '\x7f', ' ', ' ', '\U0001f600']

TAGS = ['div', 'p', 'span', 'em', 'a', 'pre', 'code', 'h1', 'x-y', 'ns:t', 'br', 'hr', 'img', 'input', 'BR', 'Img', 'HR',
        'script', 'style', 'SCRIPT', 'Style', 'ſtyle', 'İmg', 'b.r', 'link']
KEYS = ['class', 'id', 'href', 'title', 'checked', 'data-x', 'alt', 'src', 'Zeta', 'alpha', 'é', 'a', 'ab', 'a-b', 'A']
# the void list of the HTML serializer, as a literal (NOT imported from the code under test) ...
VOID_NAMES = ['area', 'base', 'basefont', 'br', 'col', 'embed', 'frame', 'hr', 'img', 'input', 'isindex', 'link', 'meta', 'param',
              'source', 'track', 'wbr']
# ... and names that are NOT in it: entries of other void-element tables, obsolete empty elements, one-letter neighbours
NEAR_VOID = ['command', 'keygen', 'menuitem', 'bgsound', 'nextid', 'spacer', 'image', 'menu', 'nobr', 'picture', 'audio', 'video', 'object',
             'colgroup', 'frameset', 'iframe', 'noframes', 'textarea', 'button', 'select', 'option', 'basefon', 'basefonts', 'are', 'areas',
             'bas', 'bases', 'b', 'brr', 'cols', 'co', 'embeds', 'framee', 'fram', 'h', 'hrr', 'im', 'imgs', 'inputs', 'inpu', 'isindexx',
             'links', 'lin', 'metas', 'met', 'params', 'para', 'sources', 'sourc', 'tracks', 'trac', 'wb', 'wbrr', 'data', 'slot', 'template']
QNAMES = ['{http://www.w3.org/1999/xhtml}div', '{u}br', '{}p', '{a"b&c\n<}em', '{u}script', 'nobrace', '{unclosed', '',
          '{u}}x', '{&amp;}img']


def rand_string(rng, lo=0, hi=12):
    k = rng.randint(lo, hi)
    out = []
    for _ in range(k):
        r = rng.random()
        if r < 0.55: out.append(rng.choice(ALPHABET))
        elif r < 0.85: out.append(rng.choice(FRAGMENTS))
        else: out.append(rng.choice(EXTRA_CHARS))
    return ''.join(out)


def rand_opt(rng):
    r = rng.random()
    if r < 0.25: return None
    if r < 0.35: return ''
    return rand_string(rng, 1, 8)


def rand_attrs(rng):
    ks = rng.sample(KEYS, rng.choice([0, 0, 1, 1, 2, 3, 5]))
    out = []
    for k in ks:
        r = rng.random()
        if r < 0.3: v = k                      # boolean attribute
        elif r < 0.4: v = k.replace('a', '&')  # differs from the key only by a character that gets escaped
        else: v = rand_string(rng, 0, 6)
        out.append((k, v))
    return out


def rand_tree(rng, depth=0):
    r = rng.random()
    kids = []
    if depth < 4:
        for _ in range(rng.choice([0, 0, 1, 1, 2, 3] if depth else [0, 1, 2, 3, 4])):
            kids.append(rand_tree(rng, depth + 1))
    if r < 0.08:
        return T('c', '', rand_string(rng, 0, 8), tail=rand_opt(rng), children=kids if rng.random() < 0.2 else [])
    if r < 0.14:
        return T('p', '', rand_string(rng, 0, 8), tail=rand_opt(rng), children=kids if rng.random() < 0.2 else [])
    if r < 0.24:
        return T('0', '', rand_opt(rng), tail=rand_opt(rng), attrs=rand_attrs(rng), children=kids)
    if r < 0.30:
        return T('q', rng.choice(QNAMES), rand_opt(rng), tail=rand_opt(rng), attrs=rand_attrs(rng), children=kids)
    tag = rng.choice(TAGS)
    if rng.random() < 0.25:
        tag = rng.choice(VOID_NAMES + NEAR_VOID[:9] * 2)
        if rng.random() < 0.2: tag = rng.choice([tag.upper(), tag.capitalize()])
    low = tag.lower()
    if low in VOID_NAMES and rng.random() < 0.8:
        return T('n', tag, None if rng.random() < 0.8 else rand_opt(rng), tail=rand_opt(rng), attrs=rand_attrs(rng))
    if low in ('script', 'style') and rng.random() < 0.8:
        txt = rand_opt(rng)
        if txt and rng.random() < 0.7: txt = txt.replace('<', '(')
        return T('n', tag, txt, tail=rand_opt(rng), attrs=rand_attrs(rng))
    return T('n', tag, rand_opt(rng), tail=rand_opt(rng), attrs=rand_attrs(rng), children=kids)


def near_void_trees():
    """deterministic: for each name around the void set a parent holding one with content, an empty one and one with a child only"""
    out = []
    names = []
    for v in VOID_NAMES: names += [v, v.upper(), v.capitalize()]
    for v in NEAR_VOID: names += [v] + ([v.upper(), v.capitalize()] if v in ('command', 'keygen', 'menuitem') else [])
    for nm in names:
        full = T('n', nm, 'Save ', tail='!', attrs=[('label', 'save')], children=[T('n', 'b', 'now', tail=' & then')])
        out.append(T('n', 'menu', 'm', attrs=[('type', 'context')],
                     children=[full, T('n', 'hr', None, tail='end'), T('n', nm, None, attrs=[('id', 'e')]), T('n', nm, None, children=[T('n', 'i', None)])]))
    return out


def _kinds(t, c):
    c[t.kind] += 1
    for k in t.children: _kinds(k, c)


def _impl_ser(S, t, fmt):
    try:
        e = to_etree(t)
        return (S.to_html_string if fmt == 'html' else S.to_xhtml_string)(e)
    except ValueError:
        return None


def run(driver, rng, n):
    import markdown.serializers as S
    if isinstance(rng, int): rng = random.Random(rng)
    disagreements, samples = [], []
    dist = Counter()
    cases = 0
    seen = set()

    def note(op, inp, model, impl):
        if len(disagreements) < 200:
            disagreements.append({'op': op, 'input': inp, 'model': model, 'impl': impl})
        dist['disagreements'] += 1

    # ---------------------------------------------------------------- (a) escapers
    impl_fns = [('esc.cdata', S._escape_cdata), ('esc.attr', S._escape_attrib_html), ('esc.attrib', S._escape_attrib)]
    maxlen = 5 if n >= LARGE_N else 4

    def exhaustive():
        for L in range(maxlen + 1):
            for tup in itertools.product(ALPHABET, repeat=L):
                yield ''.join(tup), False

    def randoms():
        for _ in range(n):
            s = rand_string(rng, 5, 40)
            if lean_ok(s): yield s, True

    def flush(batch):
        nonlocal cases
        reqs, meta = [], []
        for s, is_rand in batch:
            e = enc_str(s)
            for op, fn in impl_fns:
                reqs.append((op, e)); meta.append((op, s, fn(s)))
            if is_rand:
                for (q, nl), fn in (((0, 0), S._escape_cdata), ((1, 0), S._escape_attrib_html), ((1, 1), S._escape_attrib)):
                    reqs.append(('esc1', str(q), str(nl), e)); meta.append(('esc1 %d %d' % (q, nl), s, fn(s)))
        answers = driver.ask_many(reqs)
        for (op, s, impl), a in zip(meta, answers):
            cases += 1
            dist['op:' + op.split(' ')[0]] += 1
            try:
                model = dec_str(a)
            except ValueError:
                model = '<<' + a + '>>'
            if model != impl:
                note(op, s, model, impl)
            elif impl != s:
                dist['escaped_something'] += 1
                if len(samples) < 12 and rng.random() < 0.002:
                    samples.append({'op': op, 'input': s, 'output': impl})

    batch = []
    for s, is_rand in itertools.chain(exhaustive(), randoms()):
        if s in seen:
            dist['duplicate_inputs'] += 1
            continue
        seen.add(s)
        dist['strlen:%s' % (len(s) if len(s) <= maxlen else '>%d' % maxlen)] += 1
        batch.append((s, is_rand))
        if len(batch) >= CHUNK:
            flush(batch); batch = []
    if batch: flush(batch)
    n_strings = len(seen)

    # ---------------------------------------------------------------- (b) trees, (c) model round trip
    kinds = Counter()
    trees = []
    tseen = set()
    for t in near_void_trees() + [rand_tree(rng) for _ in range(max(1, n // 10))]:
        enc = enc_tree(t)
        if enc in tseen:
            dist['duplicate_inputs'] += 1
            continue
        tseen.add(enc)
        trees.append((t, enc))
        _kinds(t, kinds)
    for i in range(0, len(trees), 2000):
        part = trees[i:i + 2000]
        reqs = []
        for t, enc in part:
            reqs += [('ser', 'html', enc), ('ser', 'xhtml', enc), ('wf', enc), ('canon', enc)]
        ans = driver.ask_many(reqs)
        reads, rmeta = [], []
        for j, (t, enc) in enumerate(part):
            a_html, a_xhtml, a_wf, a_canon = ans[4 * j:4 * j + 4]
            for fmt, a in (('html', a_html), ('xhtml', a_xhtml)):
                cases += 1
                dist['op:ser ' + fmt] += 1
                impl = _impl_ser(S, t, fmt)
                if a == 'err':
                    model = None
                else:
                    try:
                        model = dec_str(a)
                    except ValueError:
                        model = '<<' + a + '>>'
                if model != impl:
                    note('ser ' + fmt, enc, model, impl)
                else:
                    if impl is None: dist['ser_err'] += 1
                    if len(samples) < 24 and impl is not None and rng.random() < 0.02:
                        samples.append({'op': 'ser ' + fmt, 'input': enc, 'output': impl})
                if a_wf == '1' and a != 'err':
                    reads.append(('read', fmt, a)); rmeta.append((fmt, enc, a_canon))
            dist['wf_trees' if a_wf == '1' else 'non_wf_trees'] += 1
        if reads:
            rans = driver.ask_many(reads)
            for (fmt, enc, canon), a in zip(rmeta, rans):
                cases += 1
                dist['op:read(ser)=canon'] += 1
                if a != canon:
                    note('read %s (ser %s t) = canon t  [model-internal]' % (fmt, fmt), enc, a, canon)
    for k, v in kinds.items(): dist['nodes:' + k] = v
    dist['strings'] = n_strings
    dist['trees'] = len(trees)
    return {'cases': cases, 'distinct': n_strings + len(trees), 'disagreements': disagreements, 'samples': samples,
            'dist': dict(dist)}


if __name__ == '__main__':
    import sys, json, time
    from proto import Driver
    n = int(sys.argv[1]) if len(sys.argv) > 1 else 2000
    path = sys.argv[2] if len(sys.argv) > 2 else None
    d = Driver(path)
    t0 = time.time()
    r = run(d, random.Random(14), n)
    d.close()
    print(json.dumps({k: r[k] for k in ('cases', 'distinct', 'dist')}, indent=1, ensure_ascii=True))
    print('samples:')
    for s in r['samples'][:8]: print('  ', json.dumps(s, ensure_ascii=True))
    print('disagreements: %d   (%.1fs)' % (len(r['disagreements']), time.time() - t0))
    for x in r['disagreements'][:10]: print('  ', json.dumps(x, ensure_ascii=True))
