"""Correspondence of the Lean model of the `tables` extension (C16) with `markdown.extensions.tables.TableProcessor`.

`run(driver, rng, n)`: exhaustive rows up to length 6 over the alphabet ``| \\ ` a space`` for `_split`, `_split_row`
(every border value), `_build_row` (several widths), `RE_END_BORDER`; `n` random longer rows for the same ops;
`n` random 2-3 line blocks over ``| - : a space \\n`` (plus a share with backslashes and ticks) for `test` and
`test`+`run`; the separator cells seen are also compared for their alignment.
"""
from __future__ import annotations
import itertools, os, sys, collections
import xml.etree.ElementTree as etree

sys.path.insert(0, os.path.dirname(os.path.dirname(os.path.abspath(__file__))))
from proto import enc_str, enc_list, enc_opt  # noqa: E402

ALPHA = '|\\`a '
BLOCK_ALPHA = '|-:a \n'


def _tp():
    import markdown
    md = markdown.Markdown(extensions=['tables'])
    tp = md.parser.blockprocessors['table']
    assert tp.config['use_align_attribute'] is False
    return tp


# ---------------------------------------------------------------- implementation side
def impl_split(tp, s):
    return enc_list(tp._split(s))


def impl_splitrow(tp, s, b):
    tp.border = b
    return enc_list(tp._split_row(s))


def impl_buildrow(tp, n, s, b):
    tp.border = b
    parent = etree.Element('tbody')
    tp._build_row(s, parent, [None] * n)
    tr = parent[0]
    assert len(parent) == 1 and all(c.tag == 'td' for c in tr)
    return enc_list([c.text for c in tr])


def impl_endborder(tp, s):
    return '1' if tp.RE_END_BORDER.search(s) is not None else '0'


def impl_test(tp, block):
    tp.border = False
    tp.separator = ''
    if not tp.test(etree.Element('div'), block):
        return '0'
    return '1 %d %s' % (int(tp.border), enc_list(tp.separator))


_ALIGN = {None: 'N', 'text-align: left;': 'L', 'text-align: right;': 'R', 'text-align: center;': 'C'}


def impl_run(tp, block):
    tp.border = False
    tp.separator = ''
    parent = etree.Element('div')
    if not tp.test(parent, block):
        return '0'
    tp.run(parent, [block])
    assert len(parent) == 1
    table = parent[0]
    thead, tbody = table[0], table[1]
    assert table.tag == 'table' and thead.tag == 'thead' and tbody.tag == 'tbody' and len(table) == 2 and len(thead) == 1
    htr = thead[0]
    assert all(c.tag == 'th' for c in htr)
    aligns = ''.join(_ALIGN[c.get('style')] for c in htr)
    rows = []
    for tr in tbody:
        assert tr.tag == 'tr' and all(c.tag == 'td' for c in tr)
        # every body cell carries the alignment of its column (the cells of `_build_empty_row` carry none)
        if any(c.text is not None for c in tr):
            assert ''.join(_ALIGN[c.get('style')] for c in tr) == aligns
        else:
            assert all(c.get('style') is None for c in tr)
        rows.append(';'.join(enc_opt(c.text) for c in tr))
    return '1 %s %s %s' % (aligns, enc_list([c.text for c in htr]), '/'.join(rows))


def impl_align(tp, cell):
    """alignment `run` derives from one separator cell"""
    tp.border = 0
    tp.separator = [cell]
    parent = etree.Element('div')
    tp.run(parent, ['x\n-'])
    return _ALIGN[parent[0][0][0][0].get('style')]


# ---------------------------------------------------------------- generators
def rand_row(rng):
    k = rng.randint(7, 40)
    mode = rng.random()
    if mode < 0.5:
        w = [6, 2, 3, 5, 2]
    elif mode < 0.8:
        w = [3, 4, 6, 3, 1]
    else:
        w = [2, 1, 1, 8, 3]
    s = ''.join(rng.choices(ALPHA, weights=w, k=k))
    if rng.random() < 0.05:
        s += '\n'
    return s


def rand_block(rng):
    alpha, w = (BLOCK_ALPHA, [6, 5, 2, 3, 3, 0]) if rng.random() < 0.75 else (BLOCK_ALPHA + '\\`', [6, 5, 2, 3, 3, 0, 2, 2])
    nlines = rng.choice([1, 2, 2, 2, 3, 3, 3, 4])
    return '\n'.join(''.join(rng.choices(alpha, weights=w, k=rng.randint(0, 9))) for _ in range(nlines))


# ---------------------------------------------------------------- run
def run(driver, rng, n):
    tp = _tp()
    reqs, impls, ins = [], [], []
    dist = collections.Counter()

    def add(op, args, impl, shown):
        reqs.append((op,) + tuple(args)); impls.append(impl); ins.append(shown); dist[op] += 1

    def row_ops(s, exhaustive):
        add('tsplit', [enc_str(s)], impl_split(tp, s), s)
        add('tendborder', [enc_str(s)], impl_endborder(tp, s), s)
        for b in (0, 1, 2, 3):
            add('tsplitrow', [enc_str(s), str(b)], impl_splitrow(tp, s, b), (s, b))
        if exhaustive:
            pairs = [(len(s) % 4, 0), ((len(s) + 1) % 5, 3)]
        else:
            pairs = [(rng.randint(0, 6), rng.randint(0, 3)) for _ in range(2)]
        for k, b in pairs:
            add('tbuildrow', [str(k), enc_str(s), str(b)], impl_buildrow(tp, k, s, b), (k, s, b))

    rows = 0
    for k in range(0, 7):
        for t in itertools.product(ALPHA, repeat=k):
            row_ops(''.join(t), True); rows += 1
    for _ in range(n):
        row_ops(rand_row(rng), False); rows += 1

    seps = set()
    blocks = [rand_block(rng) for _ in range(n)]
    # short blocks exhaustively: two lines, up to 3 characters each
    for a in range(0, 4):
        for b in range(0, 4):
            for x in itertools.product('|-:a ', repeat=a):
                for y in itertools.product('|-:a ', repeat=b):
                    blocks.append(''.join(x) + '\n' + ''.join(y))
    tables = 0
    for blk in blocks:
        r = impl_test(tp, blk)
        add('ttest', [enc_str(blk)], r, blk)
        if r != '0':
            tables += 1
            seps.update(tp.separator)
        add('trun', [enc_str(blk)], impl_run(tp, blk), blk)
    for c in sorted(seps) + [' :- ', ':', '', ' ', '::', '-:-', ' : ', ':a:', '-', ':--', '--:', ':-:', '---']:
        add('talign', [enc_str(c)], impl_align(tp, c), c)

    answers = []
    for i in range(0, len(reqs), 20000):
        answers.extend(driver.ask_many(reqs[i:i + 20000]))
    dis = []
    for r, a, m, shown in zip(reqs, impls, answers, ins):
        if a != m:
            dis.append({'op': r[0], 'input': repr(shown), 'model': m, 'impl': a})
    dist['rows'] = rows
    dist['blocks'] = len(blocks)
    dist['blocks_accepted_as_table'] = tables
    dist['separator_cells'] = len(seps)
    samples = [{'op': reqs[i][0], 'input': repr(ins[i]), 'model': answers[i]}
               for i in rng.sample(range(len(reqs)), min(12, len(reqs)))]
    return {'cases': len(reqs), 'distinct': len(set(reqs)), 'disagreements': dis[:50], 'samples': samples,
            'dist': dict(dist)}


if __name__ == '__main__':
    import random, json
    from proto import Driver
    d = Driver()
    res = run(d, random.Random(int(sys.argv[2]) if len(sys.argv) > 2 else 16), int(sys.argv[1]) if len(sys.argv) > 1 else 3000)
    d.close()
    print(json.dumps({k: v for k, v in res.items() if k != 'samples'}, indent=1))
    for s in res['samples']:
        print(s)
    sys.exit(1 if res['disagreements'] else 0)
