"""Correspondence of the Python `str` shims of `lean/MdVerif/Py/Basic.lean` (ops `py.*`, `lean/Driver/PyOps.lean`)
with CPython.

`run(driver, rng, n)`:
  1. FULL SWEEP of every code point 0..0x10FFFF except the surrogates for the per-character classes:
       `py.isspace`   vs `str.isspace` and `re.match(r'\\s')`
       `py.isdecimal` vs `str.isdecimal` and `re.match(r'\\d')`
       `py.isword`    vs `re.match(r'\\w')` and `str.isalnum() or '_'`
       `py.lowerchar` vs `str.lower` of the one-character string
       `py.decimalvalue` vs `int(c)` on every `\\d` character; the ASCII classes on every code point
  2. every other op on exhaustive short strings over small alphabets;
  3. every op on `n` random inputs.

Documented out-of-domain points are skipped *explicitly* and counted in `dist` under `skip:<reason>`:
  * `str.lower` on a string containing U+03A3 (final-sigma rule is context dependent; the model is context free);
  * `replace` / `replaceAux` / `splitS` / `splitAux` with an empty pattern (`Py.replace` is specified for non-empty
    patterns, `str.split('')` raises);
  * `int(s)` on the empty string or on a string with a non-`\\d` character; `decimalValue` of a non-`\\d` character;
  * `natToDecAux` with less fuel than digits;
  * strings with lone surrogates (not Lean `Char`s).
"""
from __future__ import annotations
import itertools, os, re, sys

sys.path.insert(0, os.path.dirname(os.path.dirname(os.path.abspath(__file__))))
from proto import enc_str, dec_str, enc_list, dec_list, lean_ok   # noqa: E402

SIGMA = '\u03a3'
SWEEP_CHUNK = 4096

CLASSES = {
    'space': r'\s', 'decimal': r'\d', 'word': r'\w', 'asciidigit': r'[0-9]', 'asciilower': r'[a-z]',
    'asciiupper': r'[A-Z]', 'asciialpha': r'[a-zA-Z]', 'asciialnum': r'[a-zA-Z0-9]', 'hex': r'[0-9a-fA-F]',
}
_RX = {k: re.compile(v) for k, v in CLASSES.items()}
_RX_SPAN = {k: re.compile('(?:%s)*' % v) for k, v in CLASSES.items()}
_RX_RSPAN = {k: re.compile('(?:%s)*\\Z' % v) for k, v in CLASSES.items()}


def in_class(cls, c):
    return _RX[cls].match(c) is not None


def lstripp(cls, s):
    return s[_RX_SPAN[cls].match(s).end():]


def rstripp(cls, s):
    # longest suffix made of the class: scan from the right (a regex search would be quadratic on long inputs)
    i = len(s)
    while i > 0 and in_class(cls, s[i - 1]):
        i -= 1
    return s[:i]


# ------------------------------------------------------------------ decoders
def d_bools(a): return [] if a == '' else [x == '1' for x in a.split(',')]
def d_nums(a): return [] if a == '' else [int(x) for x in a.split(',')]
def d_int(a): return int(a)
def d_bool(a): return {'1': True, '0': False}[a]


class Batch:
    """collects requests with their expected value; `flush` asks the driver and records disagreements"""

    def __init__(self, driver):
        self.driver = driver
        self.reqs, self.meta = [], []
        self.cases = 0
        self.distinct = set()
        self.dis = []
        self.n_dis = 0
        self.dist = {}

    def count(self, key, k=1):
        self.dist[key] = self.dist.get(key, 0) + k

    def skip(self, reason, k=1):
        self.count('skip:' + reason, k)

    def add(self, op, args, expect, dec, shown=None, weight=1, label=None, ood=None):
        """args: already encoded fields; `ood`: name of a documented out-of-domain reason — the point is skipped
        (never a disagreement), but whether the model happens to agree there is recorded in `dist`"""
        if not all(lean_ok(x) for x in (shown if isinstance(shown, (list, tuple)) else [shown]) if isinstance(x, str)):
            self.skip('surrogate'); return
        self.reqs.append((op,) + tuple(args))
        self.meta.append((label or op, expect, dec, shown, weight, ood))
        if len(self.reqs) >= 20000:
            self.flush()

    def flush(self):
        if not self.reqs:
            return
        answers = self.driver.ask_many(self.reqs)
        for r, (label, expect, dec, shown, weight, ood), a in zip(self.reqs, self.meta, answers):
            if ood is not None:
                self.skip(ood, weight)
                try:
                    same = dec(a) == expect
                except Exception:
                    same = False
                self.count('skip:%s:model-%s' % (ood, 'agrees-anyway' if same else 'differs'), weight)
                continue
            self.cases += weight
            self.count(label, weight)
            self.distinct.add(r)
            try:
                model = dec(a)
            except Exception:
                model = 'UNDECODABLE:' + a[:200]
            if model != expect:
                self.n_dis += 1
                if len(self.dis) < 60:
                    self.dis.append(self.describe(label, shown, model, expect))
        self.reqs, self.meta = [], []

    @staticmethod
    def describe(label, shown, model, expect):
        # for per-character answers report only the differing positions
        if isinstance(model, list) and isinstance(expect, list) and isinstance(shown, str) and \
                len(model) == len(expect) == len(shown) and len(shown) > 8:
            bad = [(hex(ord(shown[i])), model[i], expect[i]) for i in range(len(shown)) if model[i] != expect[i]]
            return {'op': label, 'input': 'code points ' + ', '.join(b[0] for b in bad[:40]),
                    'model': [b[1] for b in bad[:40]], 'impl': [b[2] for b in bad[:40]]}
        return {'op': label, 'input': shown, 'model': model, 'impl': expect}


# ------------------------------------------------------------------ 1. the sweep
def sweep(b: Batch):
    cps = [c for c in range(0x110000) if not (0xD800 <= c <= 0xDFFF)]
    mismatch_internal = []
    for k in range(0, len(cps), SWEEP_CHUNK):
        chunk = ''.join(chr(c) for c in cps[k:k + SWEEP_CHUNK])
        e = enc_str(chunk)
        w = len(chunk)
        sp = [c.isspace() for c in chunk]
        dc = [c.isdecimal() for c in chunk]
        wd = [(c.isalnum() or c == '_') for c in chunk]
        # the two CPython notions the model claims to be must agree with each other, otherwise the claim is ill-posed
        for i, c in enumerate(chunk):
            if sp[i] != in_class('space', c) or dc[i] != in_class('decimal', c) or wd[i] != in_class('word', c):
                mismatch_internal.append(hex(ord(c)))
        b.add('py.isspace', [e], sp, d_bools, chunk, w, 'sweep:isspace')
        b.add('py.isdecimal', [e], dc, d_bools, chunk, w, 'sweep:isdecimal')
        b.add('py.isword', [e], wd, d_bools, chunk, w, 'sweep:isword')
        b.add('py.lowerchar', [e], [c.lower() for c in chunk], dec_list, chunk, w, 'sweep:lowerchar')
        for cls in ('asciidigit', 'asciilower', 'asciiupper', 'asciialpha', 'asciialnum', 'hex'):
            op = {'hex': 'py.ishexdigit'}.get(cls, 'py.is' + cls)
            b.add(op, [e], [in_class(cls, c) for c in chunk], d_bools, chunk, w, 'sweep:' + cls)
        decs = ''.join(c for c in chunk if c.isdecimal())
        if decs:
            b.add('py.decimalvalue', [enc_str(decs)], [int(c) for c in decs], d_nums, decs, len(decs),
                  'sweep:decimalvalue')
        b.skip('decimalvalue-of-non-decimal', w - len(decs))
    b.flush()
    return mismatch_internal


# ------------------------------------------------------------------ 2./3. string ops
def words(alphabet, maxlen):
    for ln in range(maxlen + 1):
        for t in itertools.product(alphabet, repeat=ln):
            yield ''.join(t)


def check_search(b, s, p, by):
    es, ep, eb = enc_str(s), enc_str(p), enc_str(by)
    sh = [s, p, by]
    b.add('py.startswith', [es, ep], s.startswith(p), d_bool, sh)
    b.add('py.endswith', [es, ep], s.endswith(p), d_bool, sh)
    b.add('py.find', [es, ep], s.find(p), d_int, sh)
    b.add('py.contains', [es, ep], p in s, d_bool, sh)
    if p:
        b.add('py.replace', [es, ep, eb], s.replace(p, by), dec_str, sh)
        b.add('py.splits', [es, ep], s.split(p), dec_list, sh)
        for k in (0, 1, 2):
            b.add('py.replaceaux', [ep, eb, str(k), es], s[k:].replace(p, by), dec_str, sh + [k])
            b.add('py.splitaux', [ep, str(k), es], s[k:].split(p), dec_list, sh + [k])
    else:
        b.skip('replace-empty-pattern'); b.skip('split-empty-separator')
        b.skip('replaceaux-empty-pattern', 3); b.skip('splitaux-empty-separator', 3)


def check_strip(b, s, ch):
    es, ec = enc_str(s), enc_str(ch)
    b.add('py.lstrip', [es], s.lstrip(), dec_str, s)
    b.add('py.rstrip', [es], s.rstrip(), dec_str, s)
    b.add('py.strip', [es], s.strip(), dec_str, s)
    b.add('py.isblank', [es], not s.strip(), d_bool, s)
    b.add('py.lstripc', [es, ec], s.lstrip(ch), dec_str, [s, ch])
    b.add('py.rstripc', [es, ec], s.rstrip(ch), dec_str, [s, ch])
    b.add('py.stripc', [es, ec], s.strip(ch), dec_str, [s, ch])
    b.add('py.splitc', [es, ec], s.split(ch), dec_list, [s, ch])
    b.add('py.lines', [es], s.split('\n'), dec_list, s)
    lead = len(s) - len(s.lstrip(ch))
    b.add('py.countprefix', [ec, 'N', es], lead, d_int, [s, ch, None])
    for lim in (0, 1, 2, 5):
        b.add('py.countprefix', [ec, str(lim), es], min(lead, lim), d_int, [s, ch, lim])


def check_classes(b, s, classes=tuple(CLASSES)):
    es = enc_str(s)
    for cls in classes:
        b.add('py.spanlen', [cls, es], _RX_SPAN[cls].match(s).end(), d_int, [cls, s])
        l = lstripp(cls, s)
        b.add('py.lstripp', [cls, es], l, dec_str, [cls, s])
        b.add('py.rstripp', [cls, es], rstripp(cls, s), dec_str, [cls, s])
        b.add('py.stripp', [cls, es], rstripp(cls, l), dec_str, [cls, s])
    # the space class is `str.strip()`
    assert rstripp('space', lstripp('space', s)) == s.strip()


def check_lower(b, s):
    b.add('py.lower', [enc_str(s)], s.lower(), dec_str, s, ood='lower-final-sigma U+03A3' if SIGMA in s else None)


def check_tabs(b, s, tab):
    b.add('py.expandtabs', [str(tab), enc_str(s)], s.expandtabs(tab), dec_str, [tab, s])
    for col in (0, 1, 3, 7):
        b.add('py.expandtabsaux', [str(tab), str(col), enc_str(s)], ('x' * col + s).expandtabs(tab)[col:], dec_str,
              [tab, col, s])


def check_join(b, sep, l):
    b.add('py.join', [enc_str(sep), enc_list(l)], sep.join(l), dec_str, [sep] + list(l))
    b.add('py.joinlines', [enc_list(l)], '\n'.join(l), dec_str, list(l))


def check_nat(b, n):
    b.add('py.nattodec', [str(n)], str(n), dec_str, n)
    b.add('py.pad4', [str(n)], '%04d' % n, dec_str, n)
    b.add('py.digitchar', [str(n)], str(n % 10), dec_str, n)
    d = len(str(n))
    for fuel in (d, d + 3):
        b.add('py.nattodecaux', [str(fuel), str(n), enc_str('ab')], str(n) + 'ab', dec_str, [fuel, n])
    if d > 1:
        b.skip('nattodecaux-fuel-too-small')


def check_int(b, s):
    if s == '' or not all(c.isdecimal() for c in s):
        b.skip('int-of-empty-or-non-decimal'); return
    b.add('py.dectonat', [enc_str(s)], int(s), d_int, s)


def check_ranges(b, rs, n):
    f = '-' if not rs else ';'.join('%d:%d' % r for r in rs)
    b.add('py.inranges', [f, str(n)], any(lo <= n <= hi for lo, hi in rs), d_bool, [rs, n])


WS = [' ', '\t', '\n', '\r', '\x0b', '\x0c', '\x1c', '\x1d', '\x1e', '\x1f', '\x85', '\xa0', '\u1680', '\u2000',
      '\u2003', '\u200a', '\u2028', '\u2029', '\u202f', '\u205f', '\u3000', '\u200b', '\ufeff', '\u180e']
DIGITS = list('0123456789') + ['\u0660', '\u0669', '\u06f5', '\u0967', '\uff10', '\uff19', '\U0001d7ce', '\U0001d7ff',
                               '\U0001e950', '\xb2', '\u2460', '\u3007', '\u0bf0', '\u2155']
LETTERS = list('abcxyzABCXYZ_-#*.') + ['\xe9', '\xc9', '\u0130', '\u0131', '\u017f', '\u212a', '\u1e9e', '\xdf',
                                      '\u01c5', '\u03c2', '\u03c3', SIGMA, '\u0391', '\u0410', '\u10a0', '\u13a0',
                                      '\u2160', '\u24b6', '\uff21', '\U00010400', '\U0001e900', '\u4e2d', '\u0e01',
                                      '\u0300', '\U0001f600', '\x00', '\x7f', '\x80']
RND = WS + DIGITS + LETTERS


def rand_str(rng, alphabet=RND, maxlen=None):
    k = maxlen if maxlen is not None else rng.choice((0, 1, 2, 3, 5, 8, 13, 30))
    # a narrow sub-alphabet often, so that patterns do occur
    if rng.random() < 0.5:
        alphabet = rng.sample(alphabet, min(len(alphabet), rng.randint(1, 4)))
    return ''.join(rng.choice(alphabet) for _ in range(rng.randint(0, k)))


def run(driver, rng, n):
    b = Batch(driver)
    internal = sweep(b)

    # ---- exhaustive
    for s in words('ab', 6):
        for p in words('ab', 3):
            for by in ('', 'c', 'ab'):
                check_search(b, s, p, by)
    for s in words(['a', 'b', '\n'], 4):
        for p in ('a\n', '\n', 'ab', 'aa', 'b'):
            check_search(b, s, p, '\n\n')
    for s in words([' ', '\n', 'a', '\x1f', '\xa0'], 5):
        for ch in (' ', 'a', '\n'):
            check_strip(b, s, ch)
    for s in words([' ', 'a', '7', '_', '\u0663', 'F', '\u2028'], 4):
        check_classes(b, s)
    for s in words(['\t', 'a', '\n', '\r', ' '], 5):
        for tab in (0, 1, 2, 3, 4, 8):
            check_tabs(b, s, tab)
    for l in itertools.chain.from_iterable(itertools.product(['', 'a', 'b\n', ','], repeat=k) for k in range(5)):
        for sep in ('', ',', '\n', ', '):
            check_join(b, sep, list(l))
    for v in list(range(0, 12000)) + [10 ** k + d for k in range(4, 25) for d in (-1, 0, 1)]:
        check_nat(b, v)
    for s in words(['0', '9', '\u0663', '\uff17', '\U0001d7d8'], 5):
        check_int(b, s)
    for s in words(['A', 'z', '\u0130', '\xc9', '\u1e9e', '\U00010400', ' '], 4):
        check_lower(b, s)
    for s in ('\u0391' + SIGMA, SIGMA, 'a' + SIGMA + ' b', SIGMA + 'a'):
        check_lower(b, s)
    for rs in ([], [(3, 5)], [(0, 0), (7, 9)], [(10, 20), (15, 30), (40, 40)]):
        for v in range(0, 45):
            check_ranges(b, rs, v)

    # ---- random
    for i in range(n):
        s = rand_str(rng)
        kind = i % 8
        if kind == 0:
            p = rand_str(rng, maxlen=3) if rng.random() < 0.5 else (s[rng.randrange(len(s)):][:rng.randint(0, 3)] if s else '')
            check_search(b, s, p, rand_str(rng, maxlen=3))
        elif kind == 1:
            check_strip(b, s, rng.choice(s) if s and rng.random() < 0.8 else rng.choice(RND))
        elif kind == 2:
            check_classes(b, s)
        elif kind == 3:
            check_lower(b, s)
        elif kind == 4:
            check_tabs(b, rand_str(rng, ['\t', '\t', ' ', 'a', '\n', '\r', '\x0b', '\x0c', '\u2028', '\xe9', '\u4e2d']),
                       rng.choice((0, 1, 2, 3, 4, 5, 7, 8, 16)))
        elif kind == 5:
            check_join(b, rand_str(rng, maxlen=2), [rand_str(rng, maxlen=4) for _ in range(rng.randint(0, 5))])
        elif kind == 6:
            check_nat(b, rng.choice((rng.randrange(10 ** 4), rng.randrange(10 ** 9), rng.randrange(10 ** 30))))
        else:
            check_int(b, rand_str(rng, DIGITS[:19], maxlen=12))
            check_int(b, rand_str(rng, DIGITS, maxlen=4))
    b.flush()

    samples = [{'op': 'str.lower', 'input': '\u0391' + SIGMA, 'impl': ('\u0391' + SIGMA).lower(),
                'note': 'final sigma: skipped (documented out of domain)'},
               {'op': 'str.lower', 'input': '\u0130', 'impl': '\u0130'.lower()},
               {'op': 'str.isspace', 'input': '\x1c\x85\u200b', 'impl': [c.isspace() for c in '\x1c\x85\u200b']}]
    if internal:
        b.dis.append({'op': 'CPython: str methods vs re classes differ', 'input': internal[:40], 'model': None,
                      'impl': None})
        b.n_dis += len(internal)
    return {'cases': b.cases, 'distinct': len(b.distinct), 'disagreements': b.dis, 'n_disagreements': b.n_dis,
            'samples': samples, 'dist': dict(sorted(b.dist.items(), key=lambda kv: -kv[1]))}


if __name__ == '__main__':
    import random, json
    from proto import Driver
    path = sys.argv[1] if len(sys.argv) > 1 else None
    n = int(sys.argv[2]) if len(sys.argv) > 2 else 20000
    d = Driver(path)
    try:
        r = run(d, random.Random(9), n)
    finally:
        d.close()
    print(json.dumps({k: r[k] for k in ('cases', 'distinct', 'n_disagreements')}))
    print(json.dumps(r['disagreements'][:12], indent=1, default=str))
    print(json.dumps(r['dist'], indent=0))
