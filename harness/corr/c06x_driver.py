"""C06X check on the MODEL (driver op `convertx`): for random documents of the domain the visible letters of the model's
output equal the letters of the source (plain conservation), and the model's output equals the implementation's.
usage: c06x_driver.py <ext,ext,...> <n> [seed]"""
import sys, os, random
sys.path.insert(0, os.path.join(os.path.dirname(__file__), '..'))
import markdown, htmlread, proto
from gen import c06_docs as D
sys.argv_saved = sys.argv
EXTS = ['fenced_code', 'tables', 'admonition', 'def_list', 'abbr', 'footnotes', 'sane_lists', 'nl2br', 'wikilinks', 'attr_list', 'toc']
EXT = sys.argv[1].split(',') if sys.argv[1] else []
N = int(sys.argv[2]); SEED = int(sys.argv[3]) if len(sys.argv) > 3 else 1
FORB = os.environ.get('FORB', '<&[]')
import importlib.util
spec = importlib.util.spec_from_file_location('fz', os.path.join(os.path.dirname(__file__), 'c06x_fuzz.py'))
src = open(spec.origin).read().replace('\nmain()\n', '\n')
ns = {'__file__': spec.origin}; sys.argv = [spec.origin, sys.argv[1], '0']
exec(compile(src, spec.origin, 'exec'), ns)
xdoc = ns['xdoc']; letters = ns['letters']
rng = random.Random(SEED)
docs = []
while len(docs) < N:
    W = D.Words(rng)
    t = xdoc(rng, W) if rng.random() < 0.7 else D.gen(rng)[1]
    if any(c in t for c in FORB): continue
    docs.append(t)
fl = ''.join('1' if e in EXT else '0' for e in EXTS)
d = proto.Driver(os.path.join(os.path.dirname(__file__), '../../lean/.lake/build/bin/mdmodel'))
ans = d.ask_many([('convertx', fl, '4', 'xhtml', proto.enc_str(s)) for s in docs])
md = markdown.Markdown(extensions=EXT)
ok = bad = dis = other = 0
for s, a in zip(docs, ans):
    if not a.startswith('ok'):
        other += 1; continue
    out = proto.dec_str(a[3:])
    md.reset()
    if md.convert(s) != out: dis += 1
    try:
        f = htmlread.forest(out)
    except htmlread.NotWellFormed:
        other += 1; continue
    if letters(htmlread.text_content(f)) == letters(s): ok += 1
    else:
        bad += 1
        if bad <= 3: print(repr(s), repr(out))
print('ext', EXT, 'docs', len(docs), 'conserved', ok, 'violations', bad, 'model/impl disagreements', dis, 'not ok/unreadable', other)
