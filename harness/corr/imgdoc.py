"""C01i: differential test of the sub-grammars of `Props/C01i.lean` against the real converter, under spellings of the
inline link style (`inlineStyle`): model (`Pipeline.convert`) = specification (`spec`) = `markdown.Markdown().convert`.

python corr/imgdoc.py <mode> <n documents> <seed>       (4 spellings per document)
  mode img      paragraphs that are one line of words / escapes / code spans / emphasised words and INLINE IMAGES
                `![alt](src "title")` (no link in such a paragraph), among rules, code blocks, headings and paragraphs of
                the smaller sub-grammars
  mode imglink  as img, and links and images mixed in one paragraph (probe)
  mode hlink    ATX / Setext headings that are such a line with inline LINKS
  mode himg     ATX / Setext headings with images (probe)
  mode all      everything together: paragraphs with links or with images, headings with links
  mode mixall   links AND images in the same paragraph / ATX heading / Setext heading (`MixedDoc`)
  mode brmix    as mixall, and hard breaks between the items of a paragraph (`MixedBrDoc`)

The spellings have choices that are multiples of 5, so that `linkStyle` draws the inline style for every link and image;
a printed source with `<` or with a reference definition is counted as `skipped`.
"""
from __future__ import annotations
import os, sys, random, json

sys.path.insert(0, os.path.dirname(os.path.dirname(os.path.abspath(__file__))))
import proto  # noqa: E402
from proto import enc_str, dec_str  # noqa: E402
from corr import doc as D  # noqa: E402
from corr import nest as N  # noqa: E402


def simple_dest(g):
    while True:
        d = g.dest()
        if '_' not in d and '&' not in d: return d


def mix_items(rng, g, n, link=0.0, img=0.0, first=True):
    """`n` items: T words, X escape, C code span without `<`, E/G around words, L link, I image"""
    out, prev = [], None
    for i in range(n):
        for _ in range(100):
            r = rng.random()
            if r < link: k = 'L'
            elif r < link + img: k = 'I'
            else: k = rng.choice('TTTCXEG')
            if k == 'T' and prev == 'T': continue
            if k == 'C' and prev == 'C': continue
            break
        prev = k
        if k == 'T': out.append(['T', None])
        elif k == 'X': out.append(('X', rng.choice(D.ESCAPED)))
        elif k == 'C':
            while True:
                b = g.code_body()
                if '<' not in b: break
            if out and out[-1][0] == 'X' and out[-1][1] == '\\': out[-1] = ('X', '*')
            out.append(('C', b))
        elif k in 'EG': out.append((k, [('T', g.label())]))
        elif k == 'L':
            c = mix_items(rng, g, rng.choice([1, 1, 2, 3]))
            out.append(('L', c, simple_dest(g), g.title()))
        elif k == 'I':
            out.append(('I', g.label(), simple_dest(g), g.title()))
    res = []
    for i, x in enumerate(out):
        if x[0] == 'T':
            lead = i > 0 and rng.random() < 0.7
            trail = i < len(out) - 1 and rng.random() < 0.7
            res.append(('T', g.words(lead, trail)))
        else:
            res.append(x)
    return res


def brackets(xs):
    return any((x[0] == 'X' and x[1] in '[]') or (x[0] == 'C' and ('[' in x[1] or ']' in x[1])) for x in xs)


def content(rng, g, link, img, need, br=0.0):
    for _ in range(500):
        c = mix_items(rng, g, rng.choice([1, 2, 2, 3, 4, 5]), link, img)
        if need and not any(x[0] in need for x in c): continue
        if br:
            out = []
            for i, x in enumerate(c):
                if i > 0 and rng.random() < br:
                    out.append(('B',))
                    if x[0] == 'T': x = ('T', x[1].lstrip(' ') or 'w')
                out.append(x)
            c = out
        return c
    return [('T', 'w')]


def gen_doc(rng, g, mode):
    out = []
    for _ in range(rng.randint(1, 3)):
        k = rng.choice(['p', 'p', 'p', 'a', 's', 'r'])
        if mode == 'img':
            if k == 'p': b = ('p', content(rng, g, 0, 0.35, 'I') if rng.random() < 0.8 else content(rng, g, 0.3, 0, ''))
            elif k == 'a': b = ('a', rng.randint(1, 6), content(rng, g, 0, 0, ''))
            elif k == 's': b = ('s', rng.randint(1, 2), content(rng, g, 0, 0, ''))
            else: b = ('r',)
        elif mode == 'imglink':
            if k == 'p': b = ('p', content(rng, g, 0.25, 0.25, 'I'))
            elif k == 'a': b = ('a', rng.randint(1, 6), content(rng, g, 0, 0, ''))
            elif k == 's': b = ('s', rng.randint(1, 2), content(rng, g, 0, 0, ''))
            else: b = ('r',)
        elif mode == 'hlink':
            if k == 'p': b = ('p', content(rng, g, 0.3, 0, ''))
            elif k == 'a': b = ('a', rng.randint(1, 6), content(rng, g, 0.4, 0, 'L'))
            elif k == 's': b = ('s', rng.randint(1, 2), content(rng, g, 0.4, 0, 'L'))
            else: b = ('r',)
        elif mode == 'himg':
            if k == 'p': b = ('p', content(rng, g, 0, 0.3, ''))
            elif k == 'a': b = ('a', rng.randint(1, 6), content(rng, g, 0, 0.4, 'I'))
            elif k == 's': b = ('s', rng.randint(1, 2), content(rng, g, 0, 0.4, 'I'))
            else: b = ('r',)
        elif mode == 'brmix':
            if k == 'p': b = ('p', content(rng, g, 0.25, 0.25, '', 0.35))
            elif k == 'a': b = ('a', rng.randint(1, 6), content(rng, g, 0.25, 0.25, ''))
            elif k == 's': b = ('s', rng.randint(1, 2), content(rng, g, 0.25, 0.25, ''))
            else: b = ('r',)
        elif mode == 'mixall':
            if k == 'p': b = ('p', content(rng, g, 0.25, 0.25, ''))
            elif k == 'a': b = ('a', rng.randint(1, 6), content(rng, g, 0.25, 0.25, ''))
            elif k == 's': b = ('s', rng.randint(1, 2), content(rng, g, 0.25, 0.25, ''))
            else: b = ('r',)
        else:
            if k == 'p':
                b = ('p', content(rng, g, 0.35, 0, '') if rng.random() < 0.5 else content(rng, g, 0, 0.35, ''))
            elif k == 'a': b = ('a', rng.randint(1, 6), content(rng, g, 0.35, 0, ''))
            elif k == 's': b = ('s', rng.randint(1, 2), content(rng, g, 0.35, 0, ''))
            else: b = ('r',)
        out.append(b)
    return out


def first_link_ok(doc, heads):
    for b in doc:
        if b[0] == 'p' or (heads and b[0] in 'as'):
            c = b[1] if b[0] == 'p' else b[2]
            start = True
            for x in c:     # a link that starts a line (the paragraph, or the line after a hard break)
                if start and x[0] == 'L' and brackets(x[1]): return False
                start = x[0] == 'B'
    return True


def spelling(rng):
    return [5 * rng.randint(0, 8) for _ in range(rng.randint(0, 40))]


SPELLINGS = 4


def run(driver, rng, n, mode='img', full=False, heads_first=False):
    import markdown
    g = D.Gen(rng, 4)
    docs = []
    while len(docs) < n:
        g.labels = set()
        d = gen_doc(rng, g, mode)
        if not first_link_ok(d, heads_first): continue
        docs.append(d)
    encs = [D.enc_doc(d) for d in docs]
    wf = driver.ask_many([('doc.wf', e) for e in encs]) if docs else []
    keep = [(d, e) for d, e, w in zip(docs, encs, wf) if w == '1']
    res = dict(documents=len(keep), cases=0, differences=0, rejected=len(docs) - len(keep), skipped=0)
    specs = driver.ask_many([('doc.spec', e) for _, e in keep]) if keep else []
    reqs, meta = [], []
    for i, (doc, e) in enumerate(keep):
        for _ in range(SPELLINGS):
            sp = ','.join(str(k) for k in spelling(rng))
            reqs.append(('doc.print', e, sp)); meta.append(i)
    srcs = [dec_str(x) for x in driver.ask_many(reqs)] if reqs else []
    todo = []
    for k, src in enumerate(srcs):
        if '<' in src or ('\n[' in src and ']: ' in src):
            res['skipped'] += 1
        else:
            todo.append(k)
    answers = driver.ask_many([('convert', '4', 'xhtml', enc_str(srcs[k])) for k in todo]) if todo else []
    md = markdown.Markdown()
    dis, seen = [], set()
    kinds = dict(img=0, link=0, himg=0, hlink=0, both=0)
    for k, a in zip(todo, answers):
        src, i = srcs[k], meta[k]
        spec = dec_str(specs[i])
        model = dec_str(a[3:]) if a.startswith('ok ') else a
        try:
            real = md.reset().convert(src)
        except Exception as ex:  # noqa: BLE001
            real = 'EXCEPTION %r' % (ex,)
            md = markdown.Markdown()
        seen.add(src)
        for b in keep[i][0]:
            if b[0] == 'p':
                hi, hl = any(x[0] == 'I' for x in b[1]), any(x[0] == 'L' for x in b[1])
                kinds['img'] += hi; kinds['link'] += hl; kinds['both'] += hi and hl
            elif b[0] in 'as':
                kinds['himg'] += any(x[0] == 'I' for x in b[2]); kinds['hlink'] += any(x[0] == 'L' for x in b[2])
        if not (model == spec == real):
            dis.append(dict(src=src, spec=spec, model=model, real=real, doc=keep[i][0], sp=reqs[k][2]))
    res['cases'] = len(todo); res['differences'] = len(dis); res['distinct'] = len(seen); res.update(kinds)
    dis.sort(key=lambda x: (len(x['src']), x['src']))
    out = {'cases': len(todo), 'distinct': len(seen), 'res': res, 'dis': dis}
    return out


def lean_inl(x):
    if x[0] == 'L':
        t = 'none' if x[3] is None else '(some %s)' % N.lean_str(x[3])
        return '.link [%s] %s %s' % (', '.join(lean_inl(y) for y in x[1]), N.lean_str(x[2]), t)
    if x[0] == 'I':
        t = 'none' if x[3] is None else '(some %s)' % N.lean_str(x[3])
        return '.image %s %s %s' % (N.lean_str(x[1]), N.lean_str(x[2]), t)
    if x[0] in 'EG':
        return '.%s [%s]' % ('em' if x[0] == 'E' else 'strong', ', '.join(lean_inl(y) for y in x[1]))
    if x[0] == 'B': return '.br'
    return N.lean_inl(x)


def lean_block(b):
    inl = lambda c: '[' + ', '.join(lean_inl(y) for y in c) + ']'
    if b[0] == 'p': return '.para ' + inl(b[1])
    if b[0] == 'a': return '.atx %d %s' % (b[1], inl(b[2]))
    if b[0] == 's': return '.setext %d %s' % (b[1], inl(b[2]))
    return '.rule'


PRED = {'brmix': 'MixedBrDoc', 'img': 'ImgDoc', 'imglink': 'MixedDoc', 'hlink': 'LinkHDoc', 'himg': 'LinkImgDoc', 'all': 'LinkImgDoc',
        'mixall': 'MixedDoc'}

if __name__ == '__main__' and sys.argv[1] == 'lean':
    # python corr/imgdoc.py lean <mode> <n> <seed>: a Lean file that evaluates `WF`, the predicate of the mode and
    # `inlineStyle` on generated documents and spellings: the generator and the predicates describe the same documents
    mode, n, seed = sys.argv[2], int(sys.argv[3]), int(sys.argv[4])
    rng = random.Random(seed)
    g = D.Gen(rng, 4)
    print('import MdVerif.Spec.DocFlat3\nopen MdVerif MdVerif.DocSpec\n')
    i = 0
    while i < n:
        g.labels = set()
        d = gen_doc(rng, g, mode)
        if not first_link_ok(d, False): continue
        print('def d%d : Doc := [%s]' % (i, ', '.join('(' + lean_block(b) + ')' for b in d)))
        print('def s%d : Spelling := ⟨%s⟩' % (i, spelling(rng)))
        i += 1
    print('def docs : List (Doc × Spelling) := [' + ', '.join('(d%d, s%d)' % (i, i) for i in range(n)) + ']')
    print('#eval (docs.length, (docs.filter (fun p => WF p.1)).length, '
          '(docs.filter (fun p => WF p.1 && %s p.1)).length, '
          '(docs.filter (fun p => WF p.1 && %s p.1 && inlineStyle p.1 p.2)).length)' % (PRED[mode], PRED[mode]))
    sys.exit(0)

if __name__ == '__main__':
    mode = sys.argv[1]
    n = int(sys.argv[2]) if len(sys.argv) > 2 else 2000
    seed = int(sys.argv[3]) if len(sys.argv) > 3 else 1
    d = proto.Driver()
    out = run(d, random.Random(seed), n, mode, full=True, heads_first=os.environ.get('HEADS_FIRST') == '1')
    d.close()
    res, dis = out['res'], out['dis']
    print(json.dumps(res))
    for x in dis[:int(os.environ.get('SHOW', '6'))]:
        print('SRC  ', repr(x['src'])); print('SPEC ', repr(x['spec'])); print('MODEL', repr(x['model']))
        print('REAL ', repr(x['real'])); print()
