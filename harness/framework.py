"""Check framework: translate -> prove (lake) -> correspond -> search -> report.   See DESIGN.md section 2.1.

Exit codes of a check: 0 = property held on everything explored (KNOWN-FINDING lines may be printed),
1 = VIOLATION line printed, 2 = infrastructure failure (never a VIOLATION line).
"""
from __future__ import annotations
import fcntl, hashlib, importlib, json, os, random, re, subprocess, sys, time, traceback
from concurrent.futures import ProcessPoolExecutor

VERIF = os.path.dirname(os.path.dirname(os.path.abspath(__file__)))
HARNESS = os.path.join(VERIF, 'harness')
LEAN = os.path.join(VERIF, 'lean')
REPO = os.environ.get('VERIF_REPO', '/repo')
if REPO not in sys.path: sys.path.insert(0, REPO)
if HARNESS not in sys.path: sys.path.insert(0, HARNESS)

ALLOWED_AXIOMS = {'propext', 'Classical.choice', 'Quot.sound'}
FORBIDDEN = re.compile(r'\b(sorry|admit|native_decide|bv_decide|implemented_by|unsafe)\b|^\s*axiom\s|maxHeartbeats\s+0\b|^\s*partial\s|@\[extern|^\s*opaque\s')
TRUSTED_BASE = [
    'Lean 4.33.0 kernel (thorough tier: leanchecker re-check of the compiled property module)',
    'axioms: propext, Classical.choice, Quot.sound only (audited by #print axioms on every run); no native_decide/bv_decide/sorry',
    'harness/translate.py (regenerates MdVerif/Generated/*.lean from the working tree of the repository on every run)',
    'the correspondence harness, generators and canonicalisers (differential test model vs implementation, not a proof)',
    'Lean compiler/runtime of the driver executable mdmodel (used by the correspondence only)',
    'CPython 3.12.1 + stdlib (re, str, list.sort, xml.etree, html.parser, codecs, importlib, optparse, threading) as substrate',
]


def log(*a):
    print(*a, file=sys.stderr, flush=True)


class Lock:
    def __enter__(self):
        self.f = open(os.path.join(LEAN, '.build.lock'), 'w')
        fcntl.flock(self.f, fcntl.LOCK_EX)
        return self

    def __exit__(self, *a):
        fcntl.flock(self.f, fcntl.LOCK_UN); self.f.close()


# ------------------------------------------------------------------ step 1 + 2
def translate():
    import translate as tr
    importlib.reload(tr)
    return tr.run(REPO)


def lake(args, timeout=3000):
    p = subprocess.run(['lake'] + args, cwd=LEAN, capture_output=True, text=True, timeout=timeout)
    return p.returncode, p.stdout + p.stderr


def strip_comments(src: str) -> str:
    # remove /- ... -/ (nested not needed here) and -- line comments
    src = re.sub(r'/-.*?-/', lambda m: '\n' * m.group(0).count('\n'), src, flags=re.S)
    return '\n'.join(l.split('--')[0] for l in src.split('\n'))


def import_closure(mods):
    """files of the transitive `import MdVerif.*` closure of the given modules"""
    seen = {}
    todo = list(mods)
    while todo:
        m = todo.pop()
        if m in seen or not m.startswith('MdVerif'): continue
        p = os.path.join(LEAN, m.replace('.', '/') + '.lean')
        try: src = open(p, encoding='utf-8').read()
        except OSError: continue
        seen[m] = p
        todo += re.findall(r'^import\s+(MdVerif[\w\.]*)', src, flags=re.M)
    return seen


def forbidden_tokens(mods):
    hits = []
    for m, p in sorted(import_closure(mods).items()):
        for i, l in enumerate(strip_comments(open(p, encoding='utf-8').read()).split('\n')):
            if FORBIDDEN.search(l):
                hits.append('%s:%d: %s' % (os.path.relpath(p, LEAN), i + 1, l.strip()[:80]))
    return hits


def theorem_names(module):
    p = os.path.join(LEAN, module.replace('.', '/') + '.lean')
    src = strip_comments(open(p, encoding='utf-8').read())
    return re.findall(r'^\s*theorem\s+([A-Za-z0-9_\.\']+)', src, flags=re.M), len(re.findall(r'^\s*example\b', src, flags=re.M))


def prove(prop_modules, audit_modules, clean=False):
    """build the property modules and their audits; returns dict(ok, broken[], theorems[], axioms{}, cmd)"""
    res = {'ok': True, 'broken': [], 'theorems': [], 'examples': 0, 'axioms': {}, 'cmd': '', 'build_s': 0.0}
    t0 = time.time()
    with Lock():
        rep = translate()
        res['translator'] = rep
        for m in rep.get('report', []):
            res['ok'] = False; res['broken'].append('translator-mismatch:' + str(m))
        mods = list(prop_modules) + list(audit_modules) + ['mdmodel']
        res['cmd'] = 'cd lean && lake build ' + ' '.join(mods)
        if clean:
            for m in list(prop_modules) + list(audit_modules):
                for ext in ('olean', 'ilean', 'trace', 'hash'):
                    try: os.remove(os.path.join(LEAN, '.lake', 'build', 'lib', 'lean', m.replace('.', '/') + '.' + ext))
                    except OSError: pass
        # audits print their axioms only when (re)built: force them to rebuild so the output is from this run
        for m in audit_modules:
            for ext in ('olean', 'ilean', 'trace', 'hash'):
                try: os.remove(os.path.join(LEAN, '.lake', 'build', 'lib', 'lean', m.replace('.', '/') + '.' + ext))
                except OSError: pass
        rc, out = lake(['build'] + mods)
    res['build_s'] = round(time.time() - t0, 1)
    res['closure'] = sorted(import_closure(list(prop_modules)))
    if rc != 0:
        res['ok'] = False
        errs = [l for l in out.split('\n') if 'error' in l][:6]
        res['broken'].append('lean-build-failed: ' + ' | '.join(errs)[:1500])
        res['build_output_tail'] = out[-3000:]
    if re.search(r"declaration uses `?sorry", out):
        res['ok'] = False; res['broken'].append('sorry-in-build-output')
    for m in re.finditer(r"'([^']+)' depends on axioms: \[([^\]]*)\]", out):
        res['axioms'][m.group(1)] = [a.strip() for a in m.group(2).split(',') if a.strip()]
    for m in re.finditer(r"'([^']+)' does not depend on any axioms", out):
        res['axioms'][m.group(1)] = []
    for mod in prop_modules:
        try:
            th, ex = theorem_names(mod)
        except OSError:
            res['ok'] = False; res['broken'].append('missing-module:' + mod); continue
        res['examples'] += ex
        for t in th:
            res['theorems'].append(t)
            full = [k for k in res['axioms'] if k == t or k.endswith('.' + t)]
            if rc == 0 and not full:
                res['ok'] = False; res['broken'].append('theorem-not-audited:' + t)
            for k in full:
                bad = set(res['axioms'][k]) - ALLOWED_AXIOMS
                if bad:
                    res['ok'] = False; res['broken'].append('axioms:%s:%s' % (t, ','.join(sorted(bad))))
    hits = forbidden_tokens(list(prop_modules) + list(audit_modules))
    if hits:
        res['ok'] = False; res['broken'].append('forbidden-token: ' + '; '.join(hits[:5]))
    return res


def leanchecker(mods):
    with Lock():
        p = subprocess.run(['lake', 'env', 'leanchecker'] + list(mods), cwd=LEAN, capture_output=True, text=True, timeout=3000)
    return p.returncode == 0, (p.stdout + p.stderr)[-800:]


# ------------------------------------------------------------------ parallel helper
def _shard(args):
    modname, fname, seed, n, extra = args
    if HARNESS not in sys.path: sys.path.insert(0, HARNESS)
    if REPO not in sys.path: sys.path.insert(0, REPO)
    import proto
    mod = importlib.import_module(modname)
    f = getattr(mod, fname)
    rng = random.Random(seed)
    drv = None
    try:
        if getattr(mod, 'NEEDS_DRIVER', True):
            drv = proto.Driver()
        return f(drv, rng, n, **extra) if extra else f(drv, rng, n)
    except Exception:
        return {'cases': 0, 'distinct': 0, 'error': traceback.format_exc()[-1500:]}
    finally:
        if drv: drv.close()


def merge(results, key_list):
    out = {'cases': 0, 'distinct': 0, 'samples': [], 'dist': {}, 'errors': []}
    for k in key_list: out[k] = []
    for r in results:
        out['cases'] += r.get('cases', 0); out['distinct'] = max(out['distinct'], r.get('distinct', 0))  # conservative: shards may overlap
        for k in key_list: out[k].extend(r.get(k, []))
        if len(out['samples']) < 8: out['samples'].extend(r.get('samples', [])[:2])
        for k, v in (r.get('dist') or {}).items():
            if isinstance(v, (int, float)): out['dist'][k] = out['dist'].get(k, 0) + v
            elif k not in out['dist']: out['dist'][k] = v
        if r.get('error'): out['errors'].append(r['error'])
    return out


def pmap(modname, fname, seed, n, shards=1, key_list=('disagreements',), extra=None):
    """run module.fname(driver, rng, n_i) over `shards` processes with derived seeds"""
    shards = max(1, shards)
    per = max(1, n // shards)
    jobs = [(modname, fname, (seed * 1000003 + i * 7919 + 17) & 0x7fffffff, per, extra or {}) for i in range(shards)]
    if shards == 1:
        res = [_shard(jobs[0])]
    else:
        with ProcessPoolExecutor(max_workers=min(shards, 16)) as ex:
            res = list(ex.map(_shard, jobs))
    return merge(res, list(key_list))


# ------------------------------------------------------------------ known findings / reporting
def load_findings(pid):
    try:
        data = json.load(open(os.path.join(VERIF, 'known_findings.json')))
    except OSError:
        return []
    return [f for f in data.get('findings', []) if f.get('property') == pid]


def write_replay(pid, obj):
    d = os.path.join(VERIF, 'replays'); os.makedirs(d, exist_ok=True)
    h = hashlib.sha1(json.dumps(obj, sort_keys=True, default=str).encode()).hexdigest()[:10]
    p = os.path.join(d, '%s-%s.json' % (pid, h))
    json.dump(obj, open(p, 'w'), indent=1, default=str, ensure_ascii=True)
    return os.path.relpath(p, VERIF)


def write_evidence(pid, ev):
    d = os.path.join(VERIF, 'evidence'); os.makedirs(d, exist_ok=True)
    json.dump(ev, open(os.path.join(d, pid + '.json'), 'w'), indent=1, default=str, ensure_ascii=True)


def jsonable(x, depth=0):
    if isinstance(x, (str, int, float, bool)) or x is None: return x
    if isinstance(x, dict): return {str(k): jsonable(v, depth + 1) for k, v in list(x.items())[:50]}
    if isinstance(x, (list, tuple)): return [jsonable(v, depth + 1) for v in list(x)[:50]]
    return repr(x)[:300]


class Spec:
    """what a property check consists of"""

    def __init__(self, pid, props, audits, corr=(), oracle=None, partial='', technique='', extra_trusted=()):
        self.pid, self.props, self.audits, self.corr, self.oracle = pid, list(props), list(audits), list(corr), oracle
        self.partial, self.technique, self.extra_trusted = partial, technique, list(extra_trusted)


def run_check(spec: Spec, tier='quick', seed=0, budgets=None):
    """budgets: {'corr': n, 'search': n, 'search_broken': n, 'shards': k}"""
    t0 = time.time()
    pid = spec.pid
    b = {'corr': 3000, 'search': 2000, 'search_broken': 20000, 'shards': 4}
    b.update(budgets or {})
    if tier == 'thorough':
        b = {k: (v * 40 if k != 'shards' else 16) for k, v in b.items()}
        b.update((budgets or {}).get('thorough', {}))
    broken = []
    # ---- 1+2
    try:
        pr = prove(spec.props, spec.audits, clean=(tier == 'thorough'))
    except subprocess.TimeoutExpired:
        log('lake build timed out'); return 2
    except Exception:
        log(traceback.format_exc()); return 2
    broken += pr['broken']
    lc = None
    if tier == 'thorough' and pr['ok']:
        try:
            ok, out = leanchecker(spec.props)
            lc = {'ok': ok, 'tail': out}
            if not ok: broken.append('leanchecker-failed: ' + out[-300:])
        except Exception as e:
            lc = {'ok': None, 'tail': repr(e)}
    # ---- 3 correspondence
    corr_res = {}
    driver_ok = os.path.exists(os.path.join(LEAN, '.lake', 'build', 'bin', 'mdmodel'))
    for modname in spec.corr:
        if not driver_ok:
            broken.append('driver-not-built'); break
        r = pmap(modname, 'run', seed, b['corr'], shards=b['shards'])
        corr_res[modname] = r
        if r['errors']:
            broken.append('correspondence-crashed:%s: %s' % (modname, r['errors'][0][-400:]))
        if r['disagreements']:
            broken.append('correspondence:%s: %d disagreement(s), first: %s' % (
                modname, len(r['disagreements']), json.dumps(jsonable(r['disagreements'][0]))[:600]))
    # ---- 4 search
    findings = load_findings(pid)
    search = {'cases': 0, 'distinct': 0, 'violations': [], 'samples': [], 'dist': {}, 'errors': []}
    known_hit = {}
    if spec.oracle:
        n = b['search_broken'] if broken else b['search']
        extra = {}
        hints = [d for r in corr_res.values() for d in r['disagreements'][:20]]
        omod = importlib.import_module(spec.oracle)
        # known-finding witnesses are replayed on every run
        for f in findings:
            if f.get('status') == 'fixed':
                continue
            try:
                fails = omod.replay(f['witness'])
            except Exception:
                fails = None
                log('witness replay crashed for', f['id'], traceback.format_exc()[-500:])
            if fails: known_hit[f['id']] = f
        # fixed findings: their witnesses are ordinary corpus cases; a failure is a violation
        for f in findings:
            if f.get('status') == 'fixed':
                try:
                    if omod.replay(f['witness']):
                        search['violations'].append({'input': f['witness'], 'observed': 'fixed finding %s fails again' % f['id'],
                                                     'required': f.get('what', ''), 'finding': None})
                except Exception:
                    pass
        if hints and hasattr(omod, 'probe'):
            try:
                search['violations'].extend(omod.probe(hints) or [])
            except Exception:
                log('probe crashed', traceback.format_exc()[-500:])
        r = pmap(spec.oracle, 'search', seed, n, shards=b['shards'], key_list=('violations',))
        search['cases'] += r['cases']; search['distinct'] = max(search['distinct'], r['distinct'])
        search['violations'] += r['violations']; search['samples'] = r['samples']; search['dist'] = r['dist']
        search['errors'] = r['errors']
        if r['errors']:
            log('search shard crashed:', r['errors'][0]);
    # classify violations
    new_viol = []
    for v in search['violations']:
        fid = v.get('finding')
        if fid and any(f['id'] == fid and f.get('status') != 'fixed' for f in findings):
            known_hit.setdefault(fid, next(f for f in findings if f['id'] == fid))
        else:
            new_viol.append(v)
    # ---- 5 report
    for fid, f in sorted(known_hit.items()):
        print('KNOWN-FINDING: property=%s %s %s' % (pid, fid, f.get('what', '')))
    rc = 0
    replay_path = None
    if new_viol:
        new_viol.sort(key=lambda v: len(json.dumps(jsonable(v.get('input')))))
        v = new_viol[0]
        replay_path = write_replay(pid, {'property': pid, 'kind': 'failing-input', 'violation': jsonable(v),
                                         'others': jsonable(new_viol[1:6]), 'broken_obligations': broken,
                                         'seed': seed, 'tier': tier})
        print('VIOLATION property=%s replay=%s' % (pid, replay_path)); rc = 1
    elif broken:
        replay_path = write_replay(pid, {'property': pid, 'kind': 'broken-proof-or-correspondence',
                                         'no_longer_checks': broken,
                                         'first_disagreements': jsonable([d for r in corr_res.values() for d in r['disagreements'][:3]]),
                                         'search': {'cases': search['cases'], 'found': 0}, 'seed': seed, 'tier': tier})
        print('VIOLATION property=%s replay=%s no-failing-input-found' % (pid, replay_path)); rc = 1
    if search['errors'] and rc == 0 and search['cases'] == 0:
        log('search produced no cases because of crashes'); rc = 2
    # evidence
    audited = [t for t in pr['theorems'] if any(k == t or k.endswith('.' + t) for k in pr['axioms'])]
    obligations = len(pr['theorems']) + pr['examples']
    discharged = (len(audited) + pr['examples']) if not any(x.startswith(('lean-build', 'sorry', 'missing-module')) for x in broken) else 0
    corr_cases = sum(r['cases'] for r in corr_res.values())
    corr_dist = sum(r['distinct'] for r in corr_res.values())  # per module: max over shards (lower bound)
    samples = [{'theorem': t, 'axioms': next((pr['axioms'][k] for k in pr['axioms'] if k == t or k.endswith('.' + t)), None)} for t in pr['theorems'][:6]]
    for mname, r in corr_res.items():
        samples += [{'correspondence': mname, 'case': jsonable(s)} for s in r['samples'][:3]]
    samples += [{'search': jsonable(s)} for s in search['samples'][:3]]
    ev = {
        'property_id': pid, 'tier': tier, 'seed': seed, 'level': 'proof',
        'coverage': {
            'obligations': max(obligations, 1), 'discharged': discharged,
            'checker_cmd': pr['cmd'] + ('  &&  lake env leanchecker ' + ' '.join(spec.props) if lc else ''),
            'trusted_base': TRUSTED_BASE + spec.extra_trusted,
            'theorems': pr['theorems'], 'examples_kernel_checked': pr['examples'], 'axioms': pr['axioms'],
            'leanchecker': lc,
            'evaluations': corr_cases + search['cases'], 'distinct_nontrivial': corr_dist + search['distinct'],
            'rule': 'distinct_nontrivial is a lower bound (the largest per-shard count of distinct non-trivial inputs, summed over modules, shards may overlap); correspondence cases: model (compiled Lean driver) and implementation run on the same input, distinct = distinct inputs '
                    'outside the trivial class named by each module; search cases: the property oracle evaluated on the implementation',
            'correspondence': {m: {'cases': r['cases'], 'distinct': r['distinct'], 'disagreements': len(r['disagreements']),
                                   'dist': jsonable(r['dist'])} for m, r in corr_res.items()},
            'search': {'cases': search['cases'], 'distinct': search['distinct'], 'violations_new': len(new_viol),
                       'known_findings_reproduced': sorted(known_hit), 'dist': jsonable(search['dist'])},
            'broken_obligations': broken, 'samples': samples,
            'explanation': spec.partial,
        },
        'assumptions': [spec.partial] if spec.partial else [],
        'wall_s': round(time.time() - t0, 1), 'violations': len(new_viol) + (1 if (broken and not new_viol) else 0),
    }
    write_evidence(pid, ev)
    log('[%s] tier=%s seed=%d build=%.0fs theorems=%d corr=%d search=%d broken=%d new_violations=%d wall=%.0fs' % (
        pid, tier, seed, pr['build_s'], len(pr['theorems']), corr_cases, search['cases'], len(broken), len(new_viol), time.time() - t0))
    for x in broken: log('  broken:', x[:400])
    return rc
