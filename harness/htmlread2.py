"""A STRICT reader for the HTML/XHTML written by markdown.serializers (used by the C14/C16/C17 search oracles).

It is a specification-side tool: written from the HTML syntax, not from the serializer.  It refuses anything that
could be mistaken for markup:
  * in text: every `<` starts a tag/comment/PI, a `>` never occurs, every `&` starts a well-formed entity reference;
  * in attribute values (always double-quoted, or absent = boolean attribute in html): no `<`, `>`, `"`; `&` as above;
  * an attribute name occurs at most once per tag; end tags match start tags; nothing is left open;
  * `script`/`style` content is raw up to the matching `</script` / `</style`;
  * comments `<!--…-->` (first `-->` ends it), PIs `<?…?>` (first `?>` ends it).
Texts are returned as TOKEN tuples: a token is one character, or ('ent', name) for an entity reference other than the
four basic ones (`&amp; &lt; &gt; &quot;` denote their characters: those are the ones the serializer itself writes).
So `&copy;` stays one unit and `&amp;copy;` is the six characters `&copy;`.

An "entity reference" is `&` name `;` with name = `#`digits | `#x`hexdigits | alphanumerics, ASCII-case-insensitively,
and -- a documented tolerance -- the four non-ASCII characters that Python's `re.I` folds into `[a-z]`
(U+0130, U+0131, U+017F, U+212A), because the property calls "well-formed" what the serializer's own rule accepts.

Node shapes:  ('e', tag, attrs, children)   attrs = list of (name, tokens) in source order
              ('t', tokens)   ('c', tokens) comment   ('p', tokens) processing instruction   ('r', str) raw script/style text

Relation to the proved Lean reader `Ser.readForest` (cross-checked by corr/readers.py, 0 disagreements): in strict mode
(`lenient_void=False`) the two accept the same strings and read the same forest, except where this reader follows the
HTML syntax more liberally, on purpose: (1) a tag / attribute name is any run without white space and `/>=<"'&`
(Lean: [A-Za-z0-9:_.-]+); (2) any run of white space separates attributes and may precede `>` (Lean: exactly one blank
before each attribute and before `/>`); (3) script / style text runs to `</script`, `<` included (Lean: text without
`<`).  It is stricter in one place: comment / PI content is tokenised like text (Lean keeps it verbatim, so
`<!-- a < b -->` passes there and not here).  `lenient_void=True` additionally accepts both void spellings and valueless
attributes in both formats and is not comparable.
"""
import re

VOID = frozenset(['area', 'base', 'basefont', 'br', 'col', 'embed', 'frame', 'hr', 'img', 'input', 'isindex', 'link', 'meta',
                  'param', 'source', 'track', 'wbr'])
RAWTEXT = frozenset(['script', 'style'])
ENT = re.compile('&(#[0-9]+|#[xX][0-9a-fA-F]+|[0-9A-Za-zİıſK]+);')
BASIC = {'amp': '&', 'lt': '<', 'gt': '>', 'quot': '"'}
_WS = ' \t\n\r\f'


class ReadError(Exception):
    pass


def tokens(s, what='text', stop='<>', decode=True):
    """strict tokenisation of character data; `stop` = characters that must not occur"""
    out = []; i = 0; n = len(s)
    while i < n:
        c = s[i]
        if c == '&':
            m = ENT.match(s, i)
            if not m: raise ReadError('bare & in %s at %d: %r' % (what, i, s[max(0, i - 10):i + 12]))
            name = m.group(1)
            if decode and name in BASIC: out.append(BASIC[name])
            else: out.append(('ent', name))
            i = m.end(); continue
        if c in stop: raise ReadError('bare %r in %s at %d: %r' % (c, what, i, s[max(0, i - 10):i + 12]))
        out.append(c); i += 1
    return tuple(out)


def lenient_tokens(s):
    """what a tolerant reader makes of SOURCE text: bare & < > " are themselves; an entity reference is one token; the
    four basic references denote their characters.  This is `canon` for text/tail/attribute values."""
    out = []; i = 0; n = len(s)
    while i < n:
        if s[i] == '&':
            m = ENT.match(s, i)
            if m:
                name = m.group(1)
                out.append(BASIC[name] if name in BASIC else ('ent', name)); i = m.end(); continue
        out.append(s[i]); i += 1
    return tuple(out)


def untok(toks):
    return ''.join(t if isinstance(t, str) else '&%s;' % t[1] for t in toks)


def _name(s, i, what):
    j = i; n = len(s)
    while j < n and s[j] not in _WS and s[j] not in '/>=<"\'&':
        j += 1
    if j == i: raise ReadError('empty %s name at %d: %r' % (what, i, s[max(0, i - 10):i + 12]))
    return s[i:j], j


def read(s, fmt='xhtml', lenient_void=False):
    """-> forest.  fmt 'html': void elements are `<br>` (no end tag, no slash), a valueless attribute is boolean (value =
    its name).  fmt 'xhtml': void elements are `<br />`; every attribute has a value.  lenient_void: accept both
    void spellings and valueless attributes in both formats (used for whole documents, where raw HTML passes through)."""
    root = []; stack = [(None, root)]
    i = 0; n = len(s)

    def add_text(frag, pos):
        if not frag: return
        kids = stack[-1][1]
        t = tokens(frag, 'text')
        if kids and kids[-1][0] == 't': kids[-1] = ('t', kids[-1][1] + t)
        else: kids.append(('t', t))
    while i < n:
        j = s.find('<', i)
        if j < 0:
            add_text(s[i:], i); break
        add_text(s[i:j], i)
        if s.startswith('<!--', j):
            k = s.find('-->', j + 4)
            if k < 0: raise ReadError('unterminated comment at %d' % j)
            stack[-1][1].append(('c', tokens(s[j + 4:k], 'comment'))); i = k + 3; continue
        if s.startswith('<?', j):
            k = s.find('?>', j + 2)
            if k < 0: raise ReadError('unterminated PI at %d' % j)
            stack[-1][1].append(('p', tokens(s[j + 2:k], 'pi'))); i = k + 2; continue
        if s.startswith('</', j):
            tag, k = _name(s, j + 2, 'end tag')
            if k >= n or s[k] != '>': raise ReadError('malformed end tag at %d: %r' % (j, s[j:j + 20]))
            if stack[-1][0] != tag: raise ReadError('end tag </%s> does not match open <%s> at %d' % (tag, stack[-1][0], j))
            stack.pop(); i = k + 1; continue
        tag, k = _name(s, j + 1, 'tag')
        attrs = []; seen = set(); selfclose = False
        while True:
            k0 = k
            while k < n and s[k] in _WS: k += 1
            if k >= n: raise ReadError('unterminated tag at %d: %r' % (j, s[j:j + 30]))
            if s[k] == '>': k += 1; break
            if s.startswith('/>', k):
                if k0 == k and not lenient_void: raise ReadError('`/>` without preceding space at %d' % k)
                selfclose = True; k += 2; break
            if k0 == k: raise ReadError('missing space before attribute at %d: %r' % (k, s[j:k + 10]))
            an, k = _name(s, k, 'attribute')
            if an in seen: raise ReadError('duplicate attribute %r at %d' % (an, k))
            seen.add(an)
            if k < n and s[k] == '=':
                if k + 1 >= n or s[k + 1] != '"': raise ReadError('unquoted attribute value at %d: %r' % (k, s[j:k + 10]))
                e = s.find('"', k + 2)
                if e < 0: raise ReadError('unterminated attribute value at %d' % k)
                attrs.append((an, tokens(s[k + 2:e], 'attribute value'))); k = e + 1
            else:
                if fmt != 'html' and not lenient_void: raise ReadError('valueless attribute %r in xhtml at %d' % (an, k))
                attrs.append((an, tuple(an)))
        low = tag.lower()
        node = ('e', tag, attrs, [])
        stack[-1][1].append(node)
        i = k
        if low in VOID:
            if not lenient_void:
                if fmt == 'html' and selfclose: raise ReadError('void element written <%s /> in html at %d' % (tag, j))
                if fmt != 'html' and not selfclose: raise ReadError('void element written <%s> in xhtml at %d' % (tag, j))
            continue
        if selfclose:
            if not lenient_void: raise ReadError('non-void element self-closed: <%s /> at %d' % (tag, j))
            continue
        if low in RAWTEXT:
            m = re.compile('</' + re.escape(tag), re.I).search(s, i)
            if not m: raise ReadError('unterminated <%s> at %d' % (tag, j))
            if m.start() > i: node[3].append(('r', s[i:m.start()]))
            i = m.start()
        stack.append((tag, node[3]))
    if len(stack) != 1: raise ReadError('unclosed <%s>' % stack[-1][0])
    return root


def try_read(s, fmt='xhtml', lenient_void=False):
    try:
        return read(s, fmt, lenient_void), None
    except ReadError as e:
        return None, str(e)


# ---------------------------------------------------------------- conveniences for document-level oracles
def attrs_dict(node):
    return {k: untok(v) for k, v in node[2]}


def walk(forest):
    """all element nodes, document order"""
    for nd in forest:
        if nd[0] == 'e':
            yield nd
            yield from walk(nd[3])


def text_of(node):
    """concatenated text of an element (entities kept as &name;)"""
    out = []
    for k in node[3]:
        if k[0] == 't': out.append(untok(k[1]))
        elif k[0] == 'r': out.append(k[1])
        elif k[0] == 'e': out.append(text_of(k))
    return ''.join(out)


def dump(forest):
    """a compact JSON-able rendering (for reports)"""
    out = []
    for nd in forest:
        if nd[0] == 'e': out.append([nd[1], {k: untok(v) for k, v in nd[2]}, dump(nd[3])])
        elif nd[0] == 'r': out.append({'raw': nd[1]})
        else: out.append({nd[0]: untok(nd[1])})
    return out
