"""normalize -> block mirror -> inline mirror -> prettify -> unescape -> serialize(xhtml) -> strip top-level -> post ; for text without '<' and '&'"""
import sys; sys.path.insert(0,'.')
import mirror_block as MB, mirror_inline as MI
STX='\x02'; ETX='\x03'
BLOCK_LEVEL=set(['address','article','aside','blockquote','details','div','dl','fieldset','figcaption','figure','footer','form','h1','h2','h3','h4','h5','h6','header','hgroup','hr','main','menu','nav','ol','p','pre','section','table','ul','canvas','colgroup','dd','body','dt','group','html','iframe','li','legend','math','map','noscript','output','object','option','progress','script','style','summary','tbody','td','textarea','tfoot','th','thead','tr','video','center'])
HTML_EMPTY={'area','base','basefont','br','col','embed','frame','hr','img','input','isindex','link','meta','param','source','track','wbr'}
def expandtabs(s, tab):
    out=[]; col=0
    for ch in s:
        if ch=='\t':
            if tab>0:
                k=tab-(col%tab); out.append(' '*k); col+=k
        elif ch in '\n\r': out.append(ch); col=0
        else: out.append(ch); col+=1
    return ''.join(out)
def normalize(src, tab=4):
    s=src.replace(STX,'').replace(ETX,'')
    s=s.replace('\r\n','\n').replace('\r','\n')+'\n\n'
    s=expandtabs(s,tab)
    # re.sub(r'(?<=\n) +\n', '\n', s)
    out=[]; i=0; n=len(s)
    while i<n:
        if s[i]==' ' and i>0 and s[i-1]=='\n':
            j=i
            while j<n and s[j]==' ': j+=1
            if j<n and s[j]=='\n': out.append('\n'); i=j+1; continue
            out.append(s[i:j]); i=j; continue
        out.append(s[i]); i+=1
    return ''.join(out)
def to_mut(n):
    e=MI.E(n.tag); e.text=(MI.A(n.text) if (n.atomic and n.text is not None) else n.text); e.tail=n.tail
    e.children=[to_mut(c) for c in n.children]; e.attrib=dict(n.attrs); return e
def is_block(tag): return tag.lower().rstrip('/') in BLOCK_LEVEL
def prettify(root):
    def pe(elem):
        if is_block(elem.tag) and elem.tag not in ('code','pre'):
            if (not elem.text or not elem.text.strip()) and len(elem.children) and is_block(elem.children[0].tag): elem.text='\n'
            for e in elem.children:
                if is_block(e.tag): pe(e)
        if not elem.tail or not elem.tail.strip(): elem.tail='\n'
    pe(root)
    def it(e):
        yield e
        for c in e.children: yield from it(c)
    for br in it(root):
        if br.tag=='br':
            br.tail = '\n' if (not br.tail or not br.tail.strip()) else '\n%s'%br.tail
    for pre in it(root):
        if pre.tag=='pre' and pre.children and pre.children[0].tag=='code':
            code=pre.children[0]
            if not code.children and code.text is not None: code.text=MI.A(code.text.rstrip()+'\n')
def unescape_text(t):
    out=[]; i=0; n=len(t)
    while i<n:
        if t[i]==STX:
            j=i+1
            while j<n and t[j].isdigit(): j+=1      # \d unicode
            if j>i+1 and j<n and t[j]==ETX:
                out.append(chr(int(t[i+1:j]))); i=j+1; continue
        out.append(t[i]); i+=1
    return ''.join(out)
def unescape_tree(root):
    def it(e):
        yield e
        for c in e.children: yield from it(c)
    for e in it(root):
        if e.text and e.tag!='code': e.text=unescape_text(e.text)
        if e.tail: e.tail=unescape_text(e.tail)
        for k,v in list(e.attrib.items()): e.attrib[k]=unescape_text(v)
def is_ent(s,i):
    """RE_AMP lookahead at position i (after '&')"""
    n=len(s)
    def al(c): return c.isascii() and c.isalnum() or c in 'İıſK'
    def run(p,pred):
        q=p
        while q<n and pred(s[q]): q+=1
        return q>p and q<n and s[q]==';'
    if i<n and s[i]=='#':
        if run(i+1, lambda c: c in '0123456789'): return True
        if i+1<n and s[i+1] in 'xX' and run(i+2, lambda c: c in '0123456789abcdefABCDEF'): return True
        return False
    return run(i, al)
def esc_cdata(t):
    out=[]
    for i,c in enumerate(t):
        if c=='&': out.append('&' if is_ent(t,i+1) else '&amp;')
        elif c=='<': out.append('&lt;')
        elif c=='>': out.append('&gt;')
        else: out.append(c)
    return ''.join(out)
def esc_attr(t): return esc_cdata(t).replace('"','&quot;')
def serialize(e, fmt='xhtml'):
    out=['<'+e.tag]
    for k,v in sorted(e.attrib.items()):
        v=esc_attr(v)
        if k==v and fmt=='html': out.append(' %s'%v)
        else: out.append(' %s="%s"'%(k,v))
    if fmt=='xhtml' and e.tag.lower() in HTML_EMPTY: out.append(' />')
    else:
        out.append('>')
        if e.text: out.append(e.text if e.tag.lower() in ('script','style') else esc_cdata(e.text))
        for c in e.children: out.append(serialize(c,fmt))
        if e.tag.lower() not in HTML_EMPTY: out.append('</'+e.tag+'>')
    if e.tail: out.append(esc_cdata(e.tail))
    return ''.join(out)
def convert(src, fmt='xhtml'):
    if not src.strip(): return ''
    lines=normalize(src).split('\n')
    root,refs=MB.parse_document(lines)
    m=to_mut(root)
    MI.Inline(refs).run(m)
    prettify(m); unescape_tree(m)
    out=serialize(m,fmt)
    try:
        start=out.index('<div>')+5; end=out.rindex('</div>'); out=out[start:end].strip()
    except ValueError:
        if out.strip().endswith('<div />'): out=''
        else: raise
    # postprocessors: raw_html (empty stash), amp_substitute
    out=out.replace(STX+'amp'+ETX,'&')
    return out.strip()
if __name__=='__main__':
    import random, markdown, glob
    R=random.Random(int(sys.argv[1])); N=int(sys.argv[2])
    toks=['a','b','cd',' ',' ','\n','\n','\n\n','*','**','_','__','`','``','\\','!','[',']','(',')','[a]','[x][a]','![i][a]','"',"'",' "t"',':','  \n','é','1','-','# ','## ','> ','- ','1. ','    ','---','===','\t','\r\n','\r','[a]: /u "T"\n\n','.','{','+','>','\x02','=']
    bad=0; cnt=0
    for fmt in ('xhtml','html'):
        md=markdown.Markdown(output_format=fmt)
        for i in range(N):
            s=''.join(R.choice(toks) for _ in range(R.randint(1,18)))
            if '<' in s or '&' in s: continue
            try: real=md.reset().convert(s)
            except RecursionError: continue
            cnt+=1
            try: mine=convert(s,fmt)
            except Exception as e: mine='EXC '+repr(e)
            if real!=mine:
                bad+=1
                if bad<=6: print('SRC',repr(s)); print(' REAL',repr(real)); print(' MINE',repr(mine))
    print('bad',bad,'of',cnt)
