import sys, random, markdown, glob
sys.path.insert(0,'.')
import mirror_inline as MI
from markdown.util import AtomicString
import xml.etree.ElementTree as etree
def to_m(e):
    n=MI.E(e.tag); n.text=(MI.A(e.text) if isinstance(e.text,AtomicString) else e.text); n.tail=e.tail
    n.children=[to_m(c) for c in e]; n.attrib=dict(e.attrib); return n
def dump_real(e): return (e.tag, e.text or '', bool(e.text) and isinstance(e.text,AtomicString), tuple(dump_real(c) for c in e), e.tail or '', tuple(sorted(e.attrib.items())))
def dump_m(n): return (n.tag, n.text or '', bool(n.text) and isinstance(n.text,MI.A), tuple(dump_m(c) for c in n.children), n.tail or '', tuple(sorted(n.attrib.items())))
R=random.Random(int(sys.argv[1])); N=int(sys.argv[2])
toks=['a','b','cd',' ',' ','\n','*','**','***','_','__','___','`','``','\\','\\\\','!','[',']','(',')','[a]','[b c]','[x][a]','![i][a]','"',"'",' "t"',':','  \n','é','1','-','# ','> ','- ','\n\n','[a]: /u "T"\n\n','[b c]: <v>\n\n','.','{','+']
md=markdown.Markdown()
bad=0; exc=0; cnt=0
corpus=[]
for f in glob.glob('/repo/tests/basic/*.txt')+glob.glob('/repo/tests/misc/*.txt'):
    try: corpus.append(open(f,encoding='utf-8').read())
    except Exception: pass
for i in range(N):
    if i%6==5:
        c=R.choice(corpus); a=R.randint(0,len(c)); s=c[a:a+R.randint(0,120)]
    else: s=''.join(R.choice(toks) for _ in range(R.randint(1,16)))
    if '<' in s or '&' in s: continue
    md.reset()
    lines=md.preprocessors['normalize_whitespace'].run(s.split('\n'))
    try: root=md.parser.parseDocument(list(lines)).getroot()
    except RecursionError: continue
    mine=to_m(root)
    refs=dict(md.references)
    try:
        real=md.treeprocessors['inline'].run(root); rexc=None
    except Exception as e: rexc=type(e).__name__
    ip=MI.Inline(refs)
    try:
        ip.run(mine); mexc=None
    except Exception as e: mexc=type(e).__name__
    cnt+=1
    if rexc or mexc:
        if rexc!=mexc:
            bad+=1
            if bad<=5: print('EXC',repr(s),rexc,mexc)
        continue
    if dump_real(root)!=dump_m(mine):
        bad+=1
        if bad<=6: print('SRC',repr(s)); print(' REAL',dump_real(root)); print(' MINE',dump_m(mine))
print('bad',bad,'of',cnt)
