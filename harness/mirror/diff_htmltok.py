"""diff of mirror_htmltok against the real HTMLExtractor (recorded events, cleandoc, stash).
usage: diff_htmltok.py SEED N      (run from harness/mirror with PYTHONPATH=<repo>:<harness>)"""
import sys, os, random, collections
sys.path.insert(0, '.'); sys.path.insert(0, os.path.join(os.path.dirname(os.path.abspath(__file__)), '..'))
import mirror_htmltok as MT
from corr import extract as CE
from corr import htmltok as CH

def main():
    R = random.Random(int(sys.argv[1])); N = int(sys.argv[2])
    bad = 0; ood = 0; cnt = 0; seen = set(); dist = collections.Counter()
    for i in range(N):
        src = CH.gen_doc(R)
        if src in seen: continue
        seen.add(src)
        try:
            p, md = CE.record(src)
        except AssertionError:
            real = 'ASSERT'
        else:
            real = (p.events, ''.join(p.cleandoc), [str(x) for x in md.htmlStash.rawHtmlBlocks])
        cnt += 1
        m = MT.events(src)
        if m is MT.OOD:
            ood += 1; continue
        if real == 'ASSERT':
            bad += 1; print('ASSERT but mirror in domain', repr(src)); continue
        evs, ex = m
        mine = (evs, ''.join(ex.cleandoc), ex.stash)
        for e in evs: dist[e[0]] += 1
        if mine != real:
            bad += 1
            if bad <= 8:
                print('SRC', repr(src))
                for a, b in zip(real[0], mine[0]):
                    if a != b: print('  REAL', a); print('  MINE', b); break
                else: print('  len', len(real[0]), len(mine[0]), real[0][len(mine[0]):][:2], mine[0][len(real[0]):][:2])
                if real[1:] != mine[1:]: print('  REAL', real[1:]); print('  MINE', mine[1:])
    print('bad', bad, 'of', cnt, 'distinct; ood', ood, dict(dist))

main()
