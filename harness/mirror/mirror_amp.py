"""'&' handling for text without '<': (1) HTMLExtractor/html.parser effect = charref re-spelling with the feed/close two-phase bail rule;
(2) ENTITY_RE inline pattern -> htmlStash -> RawHtmlPostprocessor.  Patches mirror_inline/mirror_pipeline in place."""
import sys; sys.path.insert(0,'.')
import mirror_inline as MI, mirror_pipeline as MP, mirror_block as MB
STX='\x02'; ETX='\x03'
HEX='0123456789abcdefABCDEF'
def charref_at(s,i):
    """&#(?:[0-9]+|[xX][0-9a-fA-F]+)[^0-9a-fA-F]  match at i -> end or None (greedy + backtracking)"""
    n=len(s)
    if not s.startswith('&#',i): return None
    p=i+2
    # alt1 digits+ then a char not in HEX ; backtracking over digits: fewer digits -> next char is a digit (in HEX) -> fail
    q=p
    while q<n and s[q] in '0123456789': q+=1
    if q>p and q<n and s[q] not in HEX: return q+1
    # alt2
    if p<n and s[p] in 'xX':
        q=p+1
        while q<n and s[q] in HEX: q+=1
        if q>p+1 and q<n and s[q] not in HEX: return q+1   # (cannot happen with backtracking either)
    return None
def entityref_at(s,i):
    """patched: &([a-zA-Z][-.a-zA-Z0-9]*);"""
    n=len(s); p=i+1
    if p>=n or not (s[p].isascii() and s[p].isalpha()): return None
    q=p+1
    while q<n and ((s[q].isascii() and s[q].isalnum()) or s[q] in '-.'): q+=1
    if q<n and s[q]==';': return q+1
    return None
def extract(text):
    """cleandoc for '<'-free text"""
    out=[]
    def goahead(raw, end):
        i=0; n=len(raw)
        while i<n:
            j=raw.find('&',i)
            if j<0: j=n
            if i<j: out.append(raw[i:j])
            i=j
            if i==n: break
            if raw.startswith('&#',i):
                e=charref_at(raw,i)
                if e is not None:
                    name=raw[i+2:e-1]
                    out.append('&#%s;'%name)
                    k=e
                    if raw[k-1]!=';': k-=1
                    i=k; continue
                else:
                    if ';' in raw[i:]:
                        out.append(raw[i:i+2]); i+=2
                    break
            else:
                e=entityref_at(raw,i)
                if e is not None:
                    out.append(raw[i:e]); i=e; continue      # k=match.end(); raw[k-1]==';' always
                # incomplete == entityref -> no match
                if i+1<n:
                    out.append('&'); i+=1
                else: break
        if end and i<n:
            out.append(raw[i:n]); i=n
        return raw[i:]
    rest=goahead(text, False)
    rest=goahead(rest, True)
    if rest: out.append(rest)
    return ''.join(out)
# ---- entity inline pattern (index 12) and html stash
def entity_find(s, start):
    n=len(s); i=start
    while True:
        i=s.find('&',i)
        if i<0: return None
        p=i+1
        if p<n and s[p]=='#':
            q=p+1
            while q<n and s[q] in '0123456789': q+=1
            if q>p+1 and q<n and s[q]==';': return (i,q+1)
            if p+1<n and s[p+1]=='x':
                q=p+2
                while q<n and s[q] in HEX: q+=1
                if q>p+2 and q<n and s[q]==';': return (i,q+1)
        else:
            q=p
            while q<n and s[q].isascii() and s[q].isalnum(): q+=1
            if q>p and q<n and s[q]==';': return (i,q+1)
        i+=1
orig_apply=MI.Inline.apply
def apply(self, pi, data, startIndex):
    if pi==12:
        m=entity_find(data,startIndex)
        if not m: return data,False,0
        st,en=m
        raw=data[st:en]
        # HtmlInlineProcessor: backslash_unescape(unescape(raw)) ; unescape uses md.serializer for element values
        raw=self.html_unescape(raw); raw=MP.unescape_text(raw)
        self.html_stash.append(raw)
        node=STX+'wzxhzdk:%d'%(len(self.html_stash)-1)+ETX
        ph=self.stash_node(node)
        return data[:st]+ph+data[en:],True,0
    return orig_apply(self,pi,data,startIndex)
def html_unescape(self,text): return text   # an entity text contains no inline placeholder
MI.Inline.apply=apply; MI.Inline.html_unescape=html_unescape
def convert(src, fmt='xhtml'):
    if not src.strip(): return ''
    lines=MP.normalize(src).split('\n')
    lines=extract('\n'.join(lines)).split('\n')
    root,refs=MB.parse_document(lines)
    m=MP.to_mut(root)
    ip=MI.Inline(refs); ip.html_stash=[]
    ip.run(m)
    MP.prettify(m); MP.unescape_tree(m)
    out=MP.serialize(m,fmt)
    start=out.index('<div>')+5; end=out.rindex('</div>'); out=out[start:end].strip()
    # RawHtmlPostprocessor (entries are never block level here: they start with '&')
    stash=ip.html_stash
    def run(text):
        if not stash: return text
        res=[]; i=0; n=len(text)
        while i<n:
            if text.startswith(STX+'wzxhzdk:',i):
                j=i+9; k=j
                while k<n and text[k] in '0123456789': k+=1
                if k>j and k<n and text[k]==ETX and int(text[j:k])<len(stash):
                    res.append(stash[int(text[j:k])]); i=k+1; continue
            res.append(text[i]); i+=1
        new=''.join(res)
        return new if new==text else run(new)
    out=run(out)
    out=out.replace(STX+'amp'+ETX,'&')
    return out.strip()
if __name__=='__main__':
    import random, markdown
    R=random.Random(int(sys.argv[1])); N=int(sys.argv[2])
    toks=['a','b',' ',' ','\n','\n\n','*','**','_','`','\\','[',']','(',')','[a]','"',':','  \n','é','1','- ','# ','    ','&','&amp;',';','#','x','&#1','&#12;','&#x1f','&#x1F;','&#','&#x','&a','&lt;','&ſ;','&1;','g','[a]: /u&v "T&amp;"\n\n','ff']
    bad=0; cnt=0
    md=markdown.Markdown()
    for i in range(N):
        s=''.join(R.choice(toks) for _ in range(R.randint(1,14)))
        try: real=md.reset().convert(s)
        except RecursionError: continue
        cnt+=1
        try: mine=convert(s)
        except Exception as e: mine='EXC '+repr(e)
        if real!=mine:
            bad+=1
            if bad<=8: print('SRC',repr(s)); print(' REAL',repr(real)); print(' MINE',repr(mine))
    print('bad',bad,'of',cnt)
