"""Value-passing, regex-free mirror of markdown.blockparser + core blockprocessors (default config).
Shape intended for transliteration to Lean: immutable nodes, explicit state/refs threading, fuel-free here."""
from dataclasses import dataclass, replace
from typing import Optional, Tuple

@dataclass(frozen=True)
class N:
    tag: str
    text: Optional[str] = None
    atomic: bool = False
    children: Tuple['N', ...] = ()
    tail: Optional[str] = None
    attrs: Tuple[Tuple[str,str], ...] = ()

def last(p): return p.children[-1] if p.children else None
def append(p, c): return replace(p, children=p.children+(c,))
def set_last(p, c): return replace(p, children=p.children[:-1]+(c,))
def upd_path(p, steps, f):
    """apply f to the node reached by following `steps` last-child links"""
    if steps==0: return f(p)
    return set_last(p, upd_path(last(p), steps-1, f))
def node_at(p, steps):
    for _ in range(steps): p=last(p)
    return p

# ---------- python str helpers (to be Py/ shims) ----------
def code_escape(t): return t.replace('&','&amp;').replace('<','&lt;').replace('>','&gt;')
def is_blank(s): return s.strip()==''

# ---------- recognisers ----------
def count_prefix(s, ch, i=0, limit=None):
    k=0
    while i+k<len(s) and s[i+k]==ch and (limit is None or k<limit): k+=1
    return k
def is_digit_re(c): return c.isdigit()          # \d (unicode decimal digits)  [Py shim]
def list_item_match(line, tab, kinds):
    """^[ ]{0,tab-1}((\d+\.)|[*+-])[ ]+(.*)  -> (marker, content) or None ; kinds subset of {'ol','ul'}"""
    i=count_prefix(line,' ',0,tab-1)
    # [ ]{0,tab-1} greedy; fewer spaces would leave a space before the marker -> fail
    j=i
    marker=None
    if 'ol' in kinds:
        d=j
        while d<len(line) and is_digit_re(line[d]): d+=1
        if d>j and d<len(line) and line[d]=='.':
            marker=line[j:d+1]; e=d+1
    if marker is None and 'ul' in kinds and j<len(line) and line[j] in '*+-':
        marker=line[j]; e=j+1
    if marker is None: return None
    sp=count_prefix(line,' ',e)
    if sp==0: return None
    rest=line[e+sp:]
    # (.*) no DOTALL: line has no \n here when called per line; for block-level match use first line only
    return marker, rest
def indent_item_match(line, tab):
    """^[ ]{tab,2tab-1}((\d+\.)|[*+-])[ ]+.*"""
    i=count_prefix(line,' ')
    if not (tab<=i<=2*tab-1): 
        # [ ]{tab,2tab-1} then marker must follow immediately: if more spaces than 2tab-1, next is space -> fail
        return False
    j=i; d=j
    while d<len(line) and is_digit_re(line[d]): d+=1
    if d>j and d<len(line) and line[d]=='.': e=d+1
    elif j<len(line) and line[j] in '*+-': e=j+1
    else: return False
    return count_prefix(line,' ',e)>0
def first_line(block):
    k=block.find('\n'); return block if k<0 else block[:k]
def hr_line(line):
    i=count_prefix(line,' ',0,3)
    if i>=len(line): return False
    ch=line[i]
    if ch not in '-_*': return False
    p=i; cnt=0
    while True:
        q=p+count_prefix(line,ch,p)
        if q==p: break
        cnt+=q-p
        q+=count_prefix(line,' ',q,2)
        p=q
    return cnt>=3 and line[p:].strip(' ')==''
def hr_search(block):
    pos=0
    for line in block.split('\n'):
        if hr_line(line): return pos, pos+len(line)
        pos+=len(line)+1
    return None
def hash_search(s):
    n=len(s)
    starts=sorted(set([0]+[i for i in range(n) if s[i]=='\n']))
    for st in starts:
        for kind in ('^','nl'):
            if kind=='^' and st!=0: continue
            if kind=='nl' and s[st]!='\n': continue
            q = st if kind=='^' else st+1
            h=count_prefix(s,'#',q,6)
            for lv in range(h,0,-1):
                r=q+lv; pos=r
                while True:
                    e=pos+count_prefix(s,'#',pos)
                    ok=None
                    for e2 in range(e,pos-1,-1):
                        if e2<n and s[e2]=='\n': ok=e2+1; break
                        if e2==n: ok=e2; break
                    if ok is not None: return (st, ok, lv, s[r:pos])
                    if pos>=n: break
                    if s[pos]=='\\':
                        if pos+1<n and s[pos+1]!='\n': pos+=2
                        else: break
                    else: pos+=1
    return None
def setext_match(block):
    """^.*?\n[=-]+[ ]*(\n|$)  MULTILINE, .match at 0"""
    k=block.find('\n')
    if k<0: return False
    rest=block[k+1:]
    line2=first_line(rest)
    i=0
    while i<len(line2) and line2[i] in '=-': i+=1
    if i==0: return False
    return line2[i:].strip(' ')==''
def quote_search(block):
    """(^|\n)[ ]{0,3}>[ ]?(.*)  search; returns start index of match"""
    pos=0; lines=block.split('\n')
    for li,line in enumerate(lines):
        i=count_prefix(line,' ',0,3)
        if i<len(line) and line[i]=='>':
            return (pos if li==0 else pos-1)
        pos+=len(line)+1
    return None
def quote_clean(line):
    if line.strip()=='>': return ''
    i=count_prefix(line,' ',0,3)
    if i<len(line) and line[i]=='>':
        r=line[i+1:]
        if r.startswith(' '): r=r[1:]
        return r
    return line
def ref_match_at(s, p):
    n=len(s)
    def at_eol(q): return q==n or s[q]=='\n'
    i=p+count_prefix(s,' ',p,3)
    if i>=n or s[i]!='[': return None
    j=i+1
    while j<n and s[j] not in '[]': j+=1
    if j>=n or s[j]!=']': return None
    ident=s[i+1:j]
    if j+1>=n or s[j+1]!=':': return None
    k0=j+2; k=k0+count_prefix(s,' ',k0)
    def tail(q):
        a=q+count_prefix(s,' ',q)
        for a2 in range(a,q-1,-1):
            opts=[]
            if a2<n and s[a2]=='\n':
                b=a2+1+count_prefix(s,' ',a2+1)
                for b2 in range(b,a2,-1): opts.append(b2)
            opts.append(a2)
            for b2 in opts:
                if b2<n and s[b2] in '"\'':
                    qch=s[b2]; e=b2+1
                    while e<n and s[e]!='\n': e+=1
                    for c in range(e-1,b2,-1):
                        if s[c]==qch:
                            d=c+1+count_prefix(s,' ',c+1)
                            for d2 in range(d,c,-1):
                                if at_eol(d2): return (d2, s[b2+1:c])
                if b2<n and s[b2]=='(':
                    e=b2+1
                    while e<n and s[e]!='\n': e+=1
                    for c in range(e-1,b2,-1):
                        if s[c]==')':
                            d=c+1+count_prefix(s,' ',c+1)
                            for d2 in range(d,c,-1):
                                if at_eol(d2): return (d2, s[b2+1:c])
                if at_eol(b2): return (b2, None)
        return None
    for k2 in range(k,k0-1,-1):
        cands=[]
        if k2<n and s[k2]=='\n':
            m=k2+1+count_prefix(s,' ',k2+1)
            for m2 in range(m,k2,-1): cands.append(m2)
        cands.append(k2)
        for u0 in cands:
            u=u0
            while u<n and not s[u].isspace(): u+=1
            for u2 in range(u,u0,-1):
                r=tail(u2)
                if r: return (r[0], ident, s[u0:u2], r[1])
    return None
def ref_search(s):
    starts=[0]+[i+1 for i,c in enumerate(s) if c=='\n']
    for p in starts:
        r=ref_match_at(s,p)
        if r: return (p,)+r
    return None

# ---------- processors ----------
TAB=4
def detab(text, length=TAB):
    new=[]; lines=text.split('\n')
    for line in lines:
        if line.startswith(' '*length): new.append(line[length:])
        elif not line.strip(): new.append('')
        else: break
    return '\n'.join(new), '\n'.join(lines[len(new):])
def loose_detab(text, level=1):
    lines=text.split('\n')
    return '\n'.join(l[TAB*level:] if l.startswith(' '*TAB*level) else l for l in lines)
def isstate(state, s): return bool(state) and state[-1]==s

ITEM=('li',); LISTS=('ul','ol')

def parse_chunk(state, refs, parent, text): return parse_blocks(state, refs, parent, tuple(text.split('\n\n')))

def parse_blocks(state, refs, parent, blocks):
    """returns (parent', refs').  state is restored by every processor, so it is not returned."""
    blocks=list(blocks)
    while blocks:
        b=blocks[0]
        parent, refs, blocks = dispatch(state, refs, parent, blocks)
    return parent, refs

def dispatch(state, refs, parent, blocks):
    b=blocks[0]; rest=blocks[1:]
    # empty (100)
    if (not b) or b.startswith('\n'):
        return _empty(refs, parent, b, rest)
    # indent (90)
    if b.startswith(' '*TAB) and not isstate(state,'detabbed') and (parent.tag in ITEM or (last(parent) is not None and last(parent).tag in LISTS)):
        return _indent(state, refs, parent, b, rest)
    # code (80)
    if b.startswith(' '*TAB):
        return _code(refs, parent, b, rest)
    # hashheader (70)
    m=hash_search(b)
    if m: return _hash(state, refs, parent, b, rest, m)
    # setext (60)
    if setext_match(b): return _setext(refs, parent, b, rest)
    # hr (50)
    m=hr_search(b)
    if m: return _hr(state, refs, parent, b, rest, m)
    # olist (40) / ulist (30)
    if list_item_match(first_line(b), TAB, ('ol',)): return _list(state, refs, parent, b, rest, 'ol')
    if list_item_match(first_line(b), TAB, ('ul',)): return _list(state, refs, parent, b, rest, 'ul')
    # quote (20)
    q=quote_search(b)
    if q is not None: return _quote(state, refs, parent, b, rest, q)
    # reference (15)
    m=ref_search(b)
    if m:
        st,en,ident,link,title=m
        refs=refs+((ident.strip().lower(), (link.lstrip('<').rstrip('>'), title)),)
        new=[]
        if b[:st].strip(): new.append(b[:st].rstrip('\n'))
        if b[en:].strip(): new.append(b[en:].lstrip('\n'))
        return parent, refs, new+rest
    # paragraph (10)
    return _para(state, refs, parent, b, rest)

def _empty(refs, parent, b, rest):
    filler='\n\n'
    if b:
        filler='\n'; the_rest=b[1:]
        if the_rest: rest=[the_rest]+rest
    sib=last(parent)
    if sib is not None and sib.tag=='pre' and sib.children and sib.children[0].tag=='code':
        code=sib.children[0]
        code=replace(code, text=(code.text or '')+filler if code.text is not None else 'None'+filler, atomic=True)
        parent=set_last(parent, replace(sib, children=(code,)+sib.children[1:]))
    return parent, refs, rest

def _code(refs, parent, b, rest):
    sib=last(parent)
    block, the_rest = detab(b)
    if sib is not None and sib.tag=='pre' and sib.children and sib.children[0].tag=='code':
        code=sib.children[0]
        code=replace(code, text='{}\n{}\n'.format(code.text, code_escape(block.rstrip())), atomic=True)
        parent=set_last(parent, replace(sib, children=(code,)+sib.children[1:]))
    else:
        parent=append(parent, N('pre', children=(N('code', text='%s\n'%code_escape(block.rstrip()), atomic=True),)))
    if the_rest: rest=[the_rest]+rest
    return parent, refs, rest

def _hash(state, refs, parent, b, rest, m):
    st,en,lv,header=m
    before=b[:st]; after=b[en:]
    if before: parent, refs = parse_blocks(state, refs, parent, (before,))
    parent=append(parent, N('h%d'%lv, text=header.strip()))
    if after:
        if isstate(state,'looselist'): after=loose_detab(after)
        rest=[after]+rest
    return parent, refs, rest

def _setext(refs, parent, b, rest):
    lines=b.split('\n')
    lv=1 if lines[1].startswith('=') else 2
    parent=append(parent, N('h%d'%lv, text=lines[0].strip()))
    if len(lines)>2: rest=['\n'.join(lines[2:])]+rest
    return parent, refs, rest

def _hr(state, refs, parent, b, rest, m):
    st,en=m
    pre=b[:st].rstrip('\n')
    if pre: parent, refs = parse_blocks(state, refs, parent, (pre,))
    parent=append(parent, N('hr'))
    post=b[en:].lstrip('\n')
    if post: rest=[post]+rest
    return parent, refs, rest

def get_items(block, tag):
    items=[]
    for line in block.split('\n'):
        m=list_item_match(line, TAB, ('ol','ul'))
        if m: items.append(m[1])
        elif indent_item_match(line, TAB):
            if items[-1].startswith(' '*TAB): items[-1]='{}\n{}'.format(items[-1], line)
            else: items.append(line)
        else: items[-1]='{}\n{}'.format(items[-1], line)
    return items

def _list(state, refs, parent, b, rest, tag):
    items=get_items(b, tag)
    sib=last(parent)
    if sib is not None and sib.tag in ('ol','ul'):
        lst=sib
        li=last(lst)
        if li.text:
            li=replace(li, text='', children=(N('p', text=li.text),)+li.children)
        lch=last(li)
        if lch is not None and lch.tail:
            li=set_last(li, replace(lch, tail=''))
            li=append(li, N('p', text=lch.tail.lstrip()))
        lst=set_last(lst, li)
        first=items.pop(0)
        newli, refs = parse_blocks(state+('looselist',), refs, N('li'), (first,))
        lst=append(lst, newli)
        mode='sib'
    elif parent.tag in ('ol','ul'):
        lst=parent; mode='parent'
    else:
        lst=N(tag); mode='new'
    st2=state+('list',)
    for item in items:
        if item.startswith(' '*TAB):
            li, refs = parse_blocks(st2, refs, last(lst), (item,))
            lst=set_last(lst, li)
        else:
            li, refs = parse_blocks(st2, refs, N('li'), (item,))
            lst=append(lst, li)
    if mode=='sib': parent=set_last(parent, lst)
    elif mode=='parent': parent=lst
    else: parent=append(parent, lst)
    return parent, refs, rest

def _quote(state, refs, parent, b, rest, q):
    before=b[:q]
    parent, refs = parse_blocks(state, refs, parent, (before,))
    block='\n'.join(quote_clean(l) for l in b[q:].split('\n'))
    sib=last(parent)
    if sib is not None and sib.tag=='blockquote':
        quote, refs = parse_chunk(state+('blockquote',), refs, sib, block)
        parent=set_last(parent, quote)
    else:
        quote, refs = parse_chunk(state+('blockquote',), refs, N('blockquote'), block)
        parent=append(parent, quote)
    return parent, refs, rest

def _para(state, refs, parent, b, rest):
    if b.strip():
        if isstate(state,'list'):
            sib=last(parent)
            if sib is not None:
                t='{}\n{}'.format(sib.tail, b) if sib.tail else '\n%s'%b
                parent=set_last(parent, replace(sib, tail=t))
            else:
                t='{}\n{}'.format(parent.text, b) if parent.text else b.lstrip()
                parent=replace(parent, text=t)
        else:
            parent=append(parent, N('p', text=b.lstrip()))
    return parent, refs, rest

def get_level(state, parent, block):
    k=count_prefix(block,' ')
    indent_level = (k//TAB) if k>=TAB else 0      # len(m.group(1))/tab  where group is ([ ]{tab})+ greedy
    level = 1 if isstate(state,'list') else 0
    steps=0; cur=parent
    while indent_level>level:
        child=last(cur)
        if child is not None and (child.tag in LISTS or child.tag in ITEM):
            if child.tag in LISTS: level+=1
            cur=child; steps+=1
        else: break
    return level, steps

def _indent(state, refs, parent, b, rest):
    level, steps = get_level(state, parent, b)
    block=loose_detab(b, level)
    st2=state+('detabbed',)
    sibling=node_at(parent, steps)
    if parent.tag in ITEM:
        if parent.children and last(parent).tag in LISTS:
            sub, refs = parse_blocks(st2, refs, last(parent), (block,))
            parent=set_last(parent, sub)
        else:
            parent, refs = parse_blocks(st2, refs, parent, (block,))
    elif sibling.tag in ITEM:
        sub, refs = parse_blocks(st2, refs, sibling, (block,))
        parent=upd_path(parent, steps, lambda _: sub)
    elif sibling.children and last(sibling).tag in ITEM:
        li=last(sibling)
        if li.text:
            li=replace(li, text='', children=(N('p', text=li.text),)+li.children)
        li, refs = parse_chunk(st2, refs, li, block)
        parent=upd_path(parent, steps, lambda s: set_last(s, li))
    else:
        li, refs = parse_blocks(st2, refs, N('li'), (block,))
        parent=upd_path(parent, steps, lambda s: append(s, li))
    return parent, refs, rest

def parse_document(lines):
    root, refs = parse_chunk((), (), N('div'), '\n'.join(lines))
    return root, dict(refs)   # later entries win
