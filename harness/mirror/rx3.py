import re, random, sys
sys.path.insert(0,'/repo')
from markdown import blockprocessors as bp
R=random.Random(int(sys.argv[1])); N=int(sys.argv[2])
REF=bp.ReferenceProcessor.RE
def isspace(c): return c.isspace()
def ref_match_at(s, p):
    """match attempt at line start p. returns (end, id, url, title5, title6) or None; mirrors backtracking order"""
    n=len(s)
    def at_eol(q): return q==n or s[q]=='\n'
    i=p; sp=0
    while i<n and s[i]==' ' and sp<3: i+=1; sp+=1
    # [ ]{0,3} greedy; backtracking to fewer spaces makes next char ' ' != '[' -> fail, so only max
    if i>=n or s[i]!='[': return None
    j=i+1
    while j<n and s[j] not in '[]': j+=1
    # ([^\[\]]*) greedy then \] : backtracking useless (next must be ']')
    if j>=n or s[j]!=']': return None
    ident=s[i+1:j]
    if j+1>=n or s[j+1]!=':': return None
    k=j+2
    k0=k
    while k<n and s[k]==' ': k+=1
    # [ ]* greedy w/ backtracking, \n? , [ ]* , then [^\s]+ needs non-space: only the maximal choices can work unless... enumerate properly
    def tail(q):
        """after url: [ ]*(?:\\n[ ]*)?(title)?$  returns (end, t5, t6) first success in priority order"""
        # [ ]* greedy with backtracking
        a=q
        while a<n and s[a]==' ': a+=1
        for a2 in range(a, q-1, -1):
            # optional (?:\n[ ]*)  greedy: try with, then without
            opts=[]
            if a2<n and s[a2]=='\n':
                b=a2+1
                while b<n and s[b]==' ': b+=1
                for b2 in range(b, a2, -1): opts.append(b2)   # [ ]* greedy backtrack down to a2+1
            opts.append(a2)
            for b2 in opts:
                # optional title, greedy: try title first
                if b2<n and s[b2] in '"\'':
                    qch=s[b2]
                    # (.*) greedy no newline then \4 then [ ]* then $
                    e=b2+1
                    while e<n and s[e]!='\n': e+=1
                    for c in range(e-1, b2, -1):   # position of closing quote
                        if s[c]==qch:
                            d=c+1
                            while d<n and s[d]==' ': d+=1
                            for d2 in range(d, c, -1):
                                if at_eol(d2): return (d2, s[b2+1:c], None)
                if b2<n and s[b2]=='(':
                    e=b2+1
                    while e<n and s[e]!='\n': e+=1
                    for c in range(e-1, b2, -1):
                        if s[c]==')':
                            d=c+1
                            while d<n and s[d]==' ': d+=1
                            for d2 in range(d, c, -1):
                                if at_eol(d2): return (d2, None, s[b2+1:c])
                if at_eol(b2): return (b2, None, None)
        return None
    # enumerate: [ ]* (k from max down to k0), \n? , [ ]*
    for k2 in range(k, k0-1, -1):
        cands=[]
        if k2<n and s[k2]=='\n':
            m=k2+1
            while m<n and s[m]==' ': m+=1
            for m2 in range(m, k2, -1): cands.append(m2)
        cands.append(k2)
        for u0 in cands:
            u=u0
            while u<n and not isspace(s[u]): u+=1
            for u2 in range(u, u0, -1):
                r=tail(u2)
                if r: return (r[0], ident, s[u0:u2], r[1], r[2])
    return None
def ref_find(s):
    starts=[0]+[i+1 for i,c in enumerate(s) if c=='\n']
    for p in starts:
        r=ref_match_at(s,p)
        if r: return (p,)+r
    return None
def ref_re(s):
    m=REF.search(s)
    if not m: return None
    return (m.start(), m.end(), m.group(1), m.group(2), m.group(5), m.group(6))
alph=['[',']',':',' ','  ','\n','a','b','"',"'",'(',')','[a]:','[a]: ','/u',' "t"',"<",">",'\t']
bad=0
for t in range(N):
    s=''.join(R.choice(alph) for _ in range(R.randint(1,9)))
    if ref_find(s)!=ref_re(s):
        bad+=1
        if bad<8: print(repr(s), ref_find(s), ref_re(s))
print('bad',bad)
