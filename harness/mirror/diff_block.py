import sys, random, markdown, glob
sys.path.insert(0,'.')
import mirror_block as M
from markdown.util import AtomicString
def dump_real(e):
    return (e.tag, e.text if e.text else None if e.text is None else '', isinstance(e.text, AtomicString) if e.text is not None else False, tuple(dump_real(c) for c in e), e.tail if e.tail else (None if e.tail is None else ''), tuple(sorted(e.attrib.items())))
def dump_m(n):
    return (n.tag, n.text if n.text else None if n.text is None else '', n.atomic if n.text is not None else False, tuple(dump_m(c) for c in n.children), n.tail if n.tail else (None if n.tail is None else ''), tuple(sorted(n.attrs)))
def norm(d):
    # treat None and '' alike for text/tail (truthiness is what the code branches on)
    tag,text,at,ch,tail,attrs=d
    return (tag, text or '', at if text else False, tuple(norm(c) for c in ch), tail or '', attrs)
R=random.Random(int(sys.argv[1])); N=int(sys.argv[2])
toks=['a','b','cd',' ',' ','\n','\n','\n\n','*','_','`','\\','!','>','> ','>  ','#','# ','## ','-','- ','+ ','* ','1. ','12. ','2.','    ','  ','   ','        ','---','***','* * *','===','=','-\n','.',':','[a]: /u','[b]:\n /u "t"',' "t"','(t)','[',']','\t','  \n','é','٣. ','<x']
md=markdown.Markdown()
bad=0
corpus=[]
for f in glob.glob('/repo/tests/basic/*.txt')+glob.glob('/repo/tests/misc/*.txt'):
    try: corpus.append(open(f,encoding='utf-8').read())
    except Exception: pass
for i in range(N):
    if i%5==4 and corpus:
        c=R.choice(corpus); a=R.randint(0,len(c)); s=c[a:a+R.randint(0,160)]
    else:
        s=''.join(R.choice(toks) for _ in range(R.randint(1,18)))
    if '<' in s and i%5!=4: pass
    if '<' in s or '&' in s: continue
    md.reset()
    lines=md.preprocessors['normalize_whitespace'].run(s.split('\n'))
    try:
        real=md.parser.parseDocument(list(lines)).getroot()
    except RecursionError: continue
    rrefs=dict(md.references)
    root, refs = M.parse_document(lines)
    if norm(dump_real(real))!=norm(dump_m(root)) or rrefs!=refs:
        bad+=1
        if bad<=5:
            print('SRC',repr(s)); print(' REAL',norm(dump_real(real)), rrefs); print(' MINE',norm(dump_m(root)), refs)
print('bad',bad,'of',N)
