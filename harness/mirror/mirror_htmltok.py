"""Regex-free mirror of the TOKENIZER under the raw-HTML extractor: what `HTMLExtractor.feed(src); HTMLExtractor.close()`
(CPython 3.12 `html.parser.HTMLParser.goahead` + `_markupbase`, with the monkey patches and overrides of
`markdown/htmlparser.py`, `convert_charrefs=False`) fires as a list of callback events, for a well-delimited fragment of
raw HTML.  Outside the fragment the mirror answers OOD (`None`), never a wrong answer.

The event vocabulary is the one of `Model/ExtractEv.lean` / `harness/corr/extract.py`:
  ('S', tag, text, atLineStart, isBlock, isEmptyTag, blankFollows)   handle_starttag
  ('E', tag, text, blankFollows)                                     handle_endtag
  ('D', text)                                                        handle_data
  ('M', text, isBlock, atLineStart, blankFollows)                    handle_empty_tag (startend, comment, pi, decl, bogus)
  ('C', name) ('R', name)                                            handle_charref / handle_entityref
  ('X', rest)                                                        tail of close()

Because `parse_pi` / `parse_html_declaration` read `self.intail`, and `handle_starttag` decides about CDATA mode through
`self.inraw`, the tokenizer is run together with the extractor callbacks (a port of `ExtractEv.step`).

OOD points (everything else is modelled):
  * an incomplete construct in the first phase (`parse_*` returns -1, a lone `<` at the very end) -- F-C04-2;
  * a first phase that stops at `&` (stray `&#`, `&` as the last character) with a `<` in the unread rest -- F-C04-1;
  * a quoted attribute value without closing quote right after `=` (the regexes backtrack);
  * marked sections `<![` at a line start; CDATA content mode (`<script>`/`<style>` start tag that stays in raw mode);
  * U+03A3 in a tag name (final-sigma rule of `str.lower`).

Written as a direct counterpart of `lean/MdVerif/Model/HtmlTok.lean` (same helper names)."""
import sys

OOD = None
INCOMPLETE = -1

BLOCK_LEVEL = None


def block_level_elements():
    global BLOCK_LEVEL
    if BLOCK_LEVEL is None:
        import markdown
        BLOCK_LEVEL = list(markdown.Markdown().block_level_elements)
    return BLOCK_LEVEL


# ------------------------------------------------------------------ characters
def is_space(c): return c.isspace()
def is_ascii_alpha(c): return ('a' <= c <= 'z') or ('A' <= c <= 'Z')
def is_ascii_alnum(c): return is_ascii_alpha(c) or ('0' <= c <= '9')
def is_hex(c): return c in '0123456789abcdefABCDEF'


def span_len(p, s):
    n = 0
    while n < len(s) and p(s[n]): n += 1
    return n


def find_char(ch, s, start):
    """s.find(ch, start) -> index or None"""
    k = s.find(ch, start)
    return None if k < 0 else k


def lower_name(name):
    """str.lower(); OOD when the final-sigma rule could apply"""
    if '\u03a3' in name: return OOD
    return name.lower()


# ------------------------------------------------------------------ recognisers of the start tag regexes
def loc_name_ch(c): return c not in '`\t\n\r\f />\x00'       # tag name of locatestarttagend_tolerant (patched)
def find_name_ch(c): return c not in '\t\n\r\f />\x00'       # tag name of tagfind_tolerant
def attr_cont_ch(c): return not is_space(c) and c not in '/=>'
def ws_or_slash(c): return is_space(c) or c == '/'
def look_behind_ok(c): return c in '\'"/' or is_space(c)


def ws_slash_len(s):
    """(?:\\s|/(?!>))*  at the start of s"""
    n = 0
    while n < len(s):
        if is_space(s[n]): n += 1
        elif s[n] == '/' and s[n + 1:n + 2] != '>': n += 1
        else: break
    return n


def commas_len(s):
    """(?:\\s*,)*  at the start of s"""
    p = 0
    while True:
        w = span_len(is_space, s[p:])
        if s[p + w:p + w + 1] == ',': p += w + 1
        else: return p


def value_len(s, patched):
    """(?:\\s*=+\\s*(?:'[^']*'|"[^"]*"|(?!['"])BARE*)COMMAS)?  at the start of s -> length, or OOD when the greedy path fails
    (unclosed quote: the regex backtracks).  patched: BARE = [^`>\\s], COMMAS = (?:\\s*,)*; else BARE = [^>\\s], no COMMAS"""
    a = span_len(is_space, s)
    b = span_len(lambda c: c == '=', s[a:])
    if b == 0: return 0
    c = span_len(is_space, s[a + b:])
    p = a + b + c
    t = s[p:]
    if t[:1] == "'" or t[:1] == '"':
        q = find_char(t[0], t, 1)
        if q is None: return OOD
        p += q + 1
    elif patched:
        p += span_len(lambda ch: ch != '`' and ch != '>' and not is_space(ch), t)
    else:
        p += span_len(lambda ch: ch != '>' and not is_space(ch), t)
    if patched: p += commas_len(s[p:])
    return p


def attr_len(s, prev, patched):
    """one attribute at the start of s (prev = the character before it):
    (?<=['"\\s/])FIRST[^\\s/=>]*VALUE(?:\\s|/(?!>))*   -> length, 0 = no match, OOD"""
    if not look_behind_ok(prev): return 0
    if s == '': return 0
    c = s[0]
    if is_space(c) or c == '/' or c == '>' or (patched and c == '`'): return 0
    p = 1 + span_len(attr_cont_ch, s[1:])
    v = value_len(s[p:], patched)
    if v is OOD: return OOD
    p += v
    return p + ws_slash_len(s[p:])


def locate_end(s):
    """locatestarttagend_tolerant.match at the start of s (s = '<' + letter + ...): m.end(), or OOD"""
    p = 2 + span_len(loc_name_ch, s[2:])
    p += span_len(ws_or_slash, s[p:])
    fuel = len(s)
    while fuel > 0:
        fuel -= 1
        a = attr_len(s[p:], s[p - 1], True)
        if a is OOD: return OOD
        if a == 0: break
        p += a
    return p + span_len(is_space, s[p:])


def check_whole(s):
    """check_for_whole_start_tag -> endpos, INCOMPLETE, or OOD"""
    j = locate_end(s)
    if j is OOD: return OOD
    nxt = s[j:j + 1]
    if nxt == '>': return j + 1
    if nxt == '/':
        return j + 2 if s[j + 1:j + 2] == '>' else INCOMPLETE
    if nxt == '': return INCOMPLETE
    if is_ascii_alpha(nxt) or nxt == '=': return INCOMPLETE
    return j                                   # j > i always: s starts with '<' + letter


def attrs_end(s, k, endpos):
    """the `while k < endpos: m = attrfind_tolerant.match(rawdata, k) ...` loop -> final k, or OOD"""
    fuel = len(s)
    while fuel > 0 and k < endpos:
        fuel -= 1
        a = attr_len(s[k:], s[k - 1], False)
        if a is OOD: return OOD
        if a == 0: break
        k += a
    return k


# ------------------------------------------------------------------ positions
def update_pos(lineno, offset, chunk):
    nl = chunk.count('\n')
    if nl: return lineno + nl, len(chunk) - (chunk.rindex('\n') + 1)
    return lineno, offset + len(chunk)


def line_start(raw, k):
    """index just after the k-th newline of raw (k = 0: 0); beyond the last newline: len(raw) + 1.
    This is `lineno_start_cache[k]` as `line_offset` fills it while `rawdata` stays the same string."""
    p = 0
    for _ in range(k):
        q = raw.find('\n', p)
        if q < 0: return len(raw) + 1
        p = q + 1
    return p


def line_offset(raw, lineno): return line_start(raw, lineno - 1)


def at_line_start(raw, lineno, offset):
    if offset == 0: return True
    if offset > 3: return False
    lo = line_offset(raw, lineno)
    return raw[lo:lo + offset].strip() == ''


def blank_line(s):
    """blank_line_re = ^([ ]*\\n){2}  .match(s)"""
    a = span_len(lambda c: c == ' ', s)
    if s[a:a + 1] != '\n': return False
    t = s[a + 1:]
    b = span_len(lambda c: c == ' ', t)
    return t[b:b + 1] == '\n'


def look(raw, lineno, offset, text):
    return blank_line(raw[line_offset(raw, lineno) + offset + len(text):])


# ------------------------------------------------------------------ the extractor callbacks (port of ExtractEv.step)
class Ex:
    def __init__(self):
        self.inraw = False; self.intail = False; self.stack = []; self.cache = []; self.cleandoc = []; self.stash = []

    def store(self, html):
        self.cleandoc.append('\x02wzxhzdk:%d\x03' % len(self.stash)); self.stash.append(html)

    def data(self, d):
        if self.intail and '\n' in d: self.intail = False
        (self.cache if self.inraw else self.cleandoc).append(d)

    def empty(self, d, is_block, als, bf):
        if self.inraw or self.intail: self.cache.append(d)
        elif als and is_block:
            if bf: d += '\n'
            else: self.intail = True
            item = self.cleandoc[-1] if self.cleandoc else ''
            if not item.endswith('\n\n') and item.endswith('\n'): self.cleandoc.append('\n')
            self.store(d); self.cleandoc.append('\n\n')
        else: self.cleandoc.append(d)

    def start(self, tag, text, als, isb, ise, bf):
        if ise: return self.empty(text, isb, als, bf)
        if isb and (self.intail or (als and not self.inraw)):
            self.inraw = True; self.cleandoc.append('\n')
        if self.inraw: self.stack.append(tag); self.cache.append(text)
        else: self.cleandoc.append(text)

    def end(self, tag, text, bf):
        if self.inraw:
            self.cache.append(text)
            if tag in self.stack:
                while self.stack:
                    if self.stack.pop() == tag: break
            if not self.stack:
                if bf: self.cache.append('\n')
                else: self.intail = True
                self.inraw = False
                self.store(''.join(self.cache)); self.cleandoc.append('\n\n'); self.cache = []
        else: self.cleandoc.append(text)

    def close(self, rest):
        if rest: self.data(rest)
        if self.cache:
            self.store(''.join(self.cache)); self.cache = []

    def step(self, ev):
        k = ev[0]
        if k == 'S': self.start(*ev[1:])
        elif k == 'E': self.end(*ev[1:])
        elif k == 'D': self.data(ev[1])
        elif k == 'M': self.empty(*ev[1:])
        elif k == 'C': self.empty('&#%s;' % ev[1], False, False, False)
        elif k == 'R': self.empty('&%s;' % ev[1], False, False, False)
        elif k == 'X': self.close(ev[1])


# ------------------------------------------------------------------ references
def charref_at(s):
    """charref = &#(?:[0-9]+|[xX][0-9a-fA-F]+)[^0-9a-fA-F]  .match at the start of s -> m.end() or None"""
    if s[:2] != '&#': return None
    r = s[2:]
    q = span_len(lambda c: '0' <= c <= '9', r)
    if q > 0 and q < len(r) and not is_hex(r[q]): return q + 3
    if r[:1] in ('x', 'X') and r[:1] != '':
        k = span_len(is_hex, r[1:])
        if k > 0 and k + 1 < len(r) and not is_hex(r[k + 1]): return k + 4
    return None


def entityref_at(s):
    """patched entityref = &([a-zA-Z][-.a-zA-Z0-9]*);  .match at the start of s (s[0] == '&') -> m.end() or None"""
    if len(s) < 2 or not is_ascii_alpha(s[1]): return None
    q = span_len(lambda c: is_ascii_alnum(c) or c in '-.', s[2:])
    return q + 3 if s[2 + q:3 + q] == ';' else None


# ------------------------------------------------------------------ the constructs after '<'
def is_block_tag(tag):
    return tag.lower().rstrip('/') in block_level_elements()


CDATA = ('script', 'style')


def parse_starttag(s, als, bf_of, ex):
    """s = rawdata[i:] with '<' + letter -> (consumed, events) | INCOMPLETE | OOD.  bf_of(text) = the look-ahead after text"""
    endpos = check_whole(s)
    if endpos is OOD or endpos == INCOMPLETE: return endpos
    text = s[:endpos]
    tn = 1 + span_len(find_name_ch, s[2:])
    name = s[1:1 + tn]
    k = 1 + tn + ws_slash_len(s[1 + tn:])
    k = attrs_end(s, k, endpos)
    if k is OOD: return OOD
    end = s[k:endpos].strip()
    if end != '>' and end != '/>':
        return endpos, [('D', text)]
    tag = lower_name(name)
    if tag is OOD: return OOD
    if end == '/>':
        return endpos, [('M', text, is_block_tag(tag), als, bf_of(text))]
    return endpos, [('S', tag, text, als, is_block_tag(tag), tag == 'hr', bf_of(text))]


def endtag_name(s):
    """endtagfind = </\\s*([a-zA-Z][-.a-zA-Z0-9:_]*)\\s*>  .match at the start of s (s starts with '</') -> group 1 or None"""
    a = 2 + span_len(is_space, s[2:])
    if not (a < len(s) and is_ascii_alpha(s[a])): return None
    b = a + 1 + span_len(lambda c: is_ascii_alnum(c) or c in '-.:_', s[a + 1:])
    c = b + span_len(is_space, s[b:])
    return s[a:b] if s[c:c + 1] == '>' else None


def parse_endtag(s, als, bf_of):
    g = find_char('>', s, 1)
    if g is None: return INCOMPLETE
    text = s[:g + 1]                                          # get_endtag_text: rawdata[i : first '>' + 1]
    name = endtag_name(s)
    if name is not None:
        return g + 1, [('E', name.lower(), text, bf_of(text))]
    if len(s) > 2 and is_ascii_alpha(s[2]):                   # tagfind_tolerant.match(rawdata, i+2)
        tn = 1 + span_len(find_name_ch, s[3:])
        tag = lower_name(s[2:2 + tn])
        if tag is OOD: return OOD
        return g + 1, [('E', tag, text, bf_of(text))]
    if s[:3] == '</>': return 3, []
    return g + 1, [('M', text, False, als, bf_of(text))]      # parse_bogus_comment


def comment_close(s, start):
    """commentclose = --\\s*>  .search(s, start) -> (m.start(), m.end()) or None"""
    p = start
    while p + 1 < len(s):
        if s[p] == '-' and s[p + 1] == '-':
            w = span_len(is_space, s[p + 2:])
            if s[p + 2 + w:p + 3 + w] == '>': return p, p + 3 + w
        p += 1
    return None


def parse_comment(s, als, bf_of):
    m = comment_close(s, 4)
    if m is None: return INCOMPLETE
    text = '<!--' + s[4:m[0]] + '-->'
    return m[1], [('M', text, True, als, bf_of(text))]


def find_str(pat, s, start):
    k = s.find(pat, start)
    return None if k < 0 else k


def parse_pi(s, als, bf_of, intail):
    if not (als or intail): return 2, [('D', '<?')]
    q = find_str('?>', s, 2)
    if q is None: return INCOMPLETE
    text = '<?' + s[2:q] + '?>'
    return q + 2, [('M', text, True, als, bf_of(text))]


def parse_decl(s, als, bf_of, intail):
    if not (als or intail): return 2, [('D', '<!')]
    if s[:3] == '<![': return OOD
    if s[:9].lower() == '<!doctype':
        g = find_char('>', s, 9)
        if g is None: return INCOMPLETE
        text = '<!' + s[2:g] + '>'
        return g + 1, [('M', text, True, als, bf_of(text))]
    g = find_char('>', s, 2)
    if g is None: return INCOMPLETE
    text = s[:g + 1]
    return g + 1, [('M', text, False, als, bf_of(text))]


# ------------------------------------------------------------------ goahead
def interesting(s):
    """index of the first '<' or '&' of s, or len(s)"""
    return span_len(lambda c: c != '<' and c != '&', s)


def go1(raw):
    """feed(raw) = goahead(0): (events, extractor state, unread rest) or OOD"""
    ex = Ex(); evs = []
    i = 0; n = len(raw); lineno = 1; offset = 0

    def emit(ev):
        evs.append(ev); ex.step(ev)

    while i < n:
        s = raw[i:]
        j = interesting(s)
        if j > 0: emit(('D', s[:j]))
        lineno, offset = update_pos(lineno, offset, s[:j]); i += j
        if i == n: break
        s = raw[i:]
        if s[0] == '<':
            als = at_line_start(raw, lineno, offset)
            bf_of = lambda text, ln=lineno, off=offset: look(raw, ln, off, text)
            if len(s) > 1 and is_ascii_alpha(s[1]): r = parse_starttag(s, als, bf_of, ex)
            elif s[:2] == '</': r = parse_endtag(s, als, bf_of)
            elif s[:4] == '<!--': r = parse_comment(s, als, bf_of)
            elif s[:2] == '<?': r = parse_pi(s, als, bf_of, ex.intail)
            elif s[:2] == '<!': r = parse_decl(s, als, bf_of, ex.intail)
            elif len(s) > 1: r = (1, [('D', '<')])
            else: r = INCOMPLETE
            if r is OOD or r == INCOMPLETE: return OOD              # first phase stops in front of a '<'
            k, new = r
            for ev in new:
                emit(ev)
                if ev[0] == 'S' and ev[1] in CDATA and ex.inraw: return OOD      # CDATA content mode stays on
            lineno, offset = update_pos(lineno, offset, s[:k]); i += k
        elif s[:2] == '&#':
            e = charref_at(s)
            if e is not None:
                emit(('C', s[2:e - 1]))
                k = e if s[e - 1] == ';' else e - 1
                lineno, offset = update_pos(lineno, offset, s[:k]); i += k
            else:
                if ';' in s:
                    emit(('D', '&#')); i += 2
                break
        else:
            e = entityref_at(s)
            if e is not None:
                emit(('R', s[1:e - 1]))
                lineno, offset = update_pos(lineno, offset, s[:e]); i += e
            elif len(s) > 1:
                emit(('D', '&')); lineno, offset = update_pos(lineno, offset, '&'); i += 1
            else: break
    return evs, ex, raw[i:]


def go2(raw):
    """close() = goahead(1) on a rest WITHOUT '<': the events (independent of positions and of the extractor state)"""
    evs = []
    i = 0; n = len(raw)
    while i < n:
        s = raw[i:]
        j = interesting(s)
        if j > 0: evs.append(('D', s[:j]))
        i += j
        if i == n: break
        s = raw[i:]
        if s[:2] == '&#':
            e = charref_at(s)
            if e is not None:
                evs.append(('C', s[2:e - 1]))
                i += e if s[e - 1] == ';' else e - 1
            else:
                if ';' in s:
                    evs.append(('D', '&#')); i += 2
                break
        else:
            e = entityref_at(s)
            if e is not None:
                evs.append(('R', s[1:e - 1])); i += e
            elif len(s) > 1:
                evs.append(('D', '&')); i += 1
            else: break
    if i < n: evs.append(('D', raw[i:]))
    return evs


def events(src):
    """the whole event list of feed(src); close(), and the final extractor state -- or OOD"""
    r = go1(src)
    if r is OOD: return OOD
    evs, ex, rest = r
    if '<' in rest: return OOD
    tail = go2(rest) + [('X', '')]
    for ev in tail: ex.step(ev)
    return evs + tail, ex


def extract_text(src):
    """(''.join(cleandoc), stash) or OOD"""
    r = events(src)
    if r is OOD: return OOD
    return ''.join(r[1].cleandoc), r[1].stash
