import re, random, sys
sys.path.insert(0,'/repo')
from markdown import inlinepatterns as ip
R=random.Random(int(sys.argv[1])); N=int(sys.argv[2])
F=re.DOTALL|re.UNICODE
def isw(c): return c.isalnum() or c=='_'
def lazy_seq(s, i, c, steps):
    """generic: steps = list of ('lit', k) | ('lazy', minlen, charpred) ; backtracking search in priority order. returns (end, groups) or None"""
    n=len(s)
    def go(pos, si, groups):
        if si==len(steps): return (pos, groups)
        st=steps[si]
        if st[0]=='lit':
            k=st[1]
            if s[pos:pos+k]==c*k and len(s[pos:pos+k])==k: return go(pos+k, si+1, groups)
            return None
        if st[0]=='notnext':   # (?!c)
            if pos<n and s[pos]==c: return None
            return go(pos, si+1, groups)
        if st[0]=='nb_w':      # (?<!\w)
            if pos>0 and isw(s[pos-1]): return None
            return go(pos, si+1, groups)
        if st[0]=='nb_c':      # (?<!c)
            if pos>0 and s[pos-1]==c: return None
            return go(pos, si+1, groups)
        if st[0]=='na_w':      # (?!\w)
            if pos<n and isw(s[pos]): return None
            return go(pos, si+1, groups)
        if st[0]=='lazy':
            mn, pred = st[1], st[2]
            L=mn
            # chars must satisfy pred
            for k in range(0, mn):
                if pos+k>=n or not pred(s[pos+k]): return None
            while pos+L<=n:
                r=go(pos+L, si+1, groups+[s[pos:pos+L]])
                if r: return r
                if pos+L>=n or not pred(s[pos+L]): return None
                L+=1
            return None
        if st[0]=='greedy':
            mn, pred = st[1], st[2]
            L=0
            while pos+L<n and pred(s[pos+L]): L+=1
            while L>=mn:
                r=go(pos+L, si+1, groups+[s[pos:pos+L]])
                if r: return r
                L-=1
            return None
    return go(i, 0, [])
any_=lambda ch: True
def pats(c):
    notc=lambda ch: ch!=c
    if c=='*':
        return [
          [('lit',3),('lazy',1,any_),('lit',1),('lazy',0,any_),('lit',2)],
          [('lit',3),('lazy',1,any_),('lit',2),('lazy',0,any_),('lit',1)],
          [('lit',2),('notnext',),('lazy',1,notc),('lit',1),('notnext',),('lazy',1,any_),('lit',3)],
          [('lit',2),('lazy',1,any_),('lit',2)],
          [('lit',1),('greedy',1,notc),('lit',1)],
        ]
    return [
          [('lit',3),('lazy',1,any_),('lit',1),('lazy',0,any_),('lit',2)],
          [('lit',3),('lazy',1,any_),('lit',2),('lazy',0,any_),('lit',1)],
          [('nb_w',),('lit',2),('notnext',),('lazy',1,any_),('nb_w',),('lit',1),('notnext',),('lazy',1,any_),('lit',3),('na_w',)],
          [('nb_w',),('lit',2),('notnext',),('lazy',1,any_),('nb_c',),('lit',2),('na_w',)],
          [('nb_w',),('lit',1),('notnext',),('lazy',1,any_),('nb_c',),('lit',1),('na_w',)],
    ]
REs={'*':[re.compile(x,F) for x in (ip.EM_STRONG_RE,ip.STRONG_EM_RE,ip.STRONG_EM3_RE,ip.STRONG_RE,ip.EMPHASIS_RE)],
     '_':[re.compile(x,F) for x in (ip.EM_STRONG2_RE,ip.STRONG_EM2_RE,ip.SMART_STRONG_EM_RE,ip.SMART_STRONG_RE,ip.SMART_EMPHASIS_RE)]}
NS=re.compile(ip.NOT_STRONG_RE,F)
def ns_find(s):
    # ((^|(?<=\s))(\*{1,3}|_{1,3})(?=\s|$))  ; no MULTILINE: ^ at 0 only, $ at end or before final \n
    n=len(s)
    for i in range(n):
        if not (i==0 or s[i-1].isspace()): continue
        for c in '*_':
            k=0
            while i+k<n and s[i+k]==c and k<3: k+=1
            for m in range(k,0,-1):
                e=i+m
                if e==n or s[e].isspace() or (e==n-1 and s[e]=='\n'): return (i,e)
    return None
alph=['*','**','_','__','a','b',' ','\n','1','é','-']
bad=0
for t in range(N):
    s=''.join(R.choice(alph) for _ in range(R.randint(1,10)))
    for c in '*_':
        P=pats(c)
        for i in range(len(s)):
            if s[i]!=c: continue
            for k in range(5):
                m=REs[c][k].match(s,i)
                exp=(m.end(), [g for g in m.groups()[1:]]) if m else None
                got=lazy_seq(s,i,c,P[k])
                if got is not None: got=(got[0], got[1])
                if exp!=got:
                    bad+=1
                    if bad<8: print(c,k,repr(s),i,exp,got)
    m=NS.search(s); exp=(m.start(),m.end()) if m else None
    if ns_find(s)!=exp:
        bad+=1
        if bad<8: print('NS',repr(s),exp,ns_find(s))
print('bad',bad)
