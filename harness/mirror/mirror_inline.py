"""Regex-free mirror of treeprocessors.InlineProcessor + the core inline patterns for text without '<' and '&'.
Mutable node objects are used to mirror the in-place algorithm exactly (live iteration, insert positions, stack order);
the Lean model will use an explicit worklist for the same order."""
STX='\x02'; ETX='\x03'
PREFIX=STX+'klzzwxh:'
ESCAPED=['\\','`','*','_','{','}','[',']','(',')','>','#','+','-','.','!']
class A(str): pass   # AtomicString
class E:
    def __init__(s, tag): s.tag=tag; s.text=None; s.tail=None; s.children=[]; s.attrib={}
    def itertext(s):
        if s.text: yield s.text
        for c in s.children:
            yield from c.itertext()
            if c.tail: yield c.tail
def code_escape(t): return t.replace('&','&amp;').replace('<','&lt;').replace('>','&gt;')
def isw(c): return c.isalnum() or c=='_'

# ---------------- recognisers ----------------
def bt_find(s, start):
    n=len(s)
    for i in range(start, n+1):
        if i>0 and s[i-1]=='\\': continue
        k=0
        while i+k<n and s[i+k]=='\\': k+=1
        if k>=2 and k%2==0 and i+k<n and s[i+k]=='`': return ('bs', i, i+k, s[i:i+k])
        t=0
        while i+t<n and s[i+t]=='`': t+=1
        for m in range(t,0,-1):
            j=i+m+1
            while j+m<=n:
                if s[j-1]!='`' and s[j:j+m]=='`'*m and not (j+m<n and s[j+m]=='`'): return ('code', i, j+m, s[i+m:j])
                j+=1
    return None
def seq_match(s, i, c, steps):
    n=len(s)
    def go(pos, si, groups):
        if si==len(steps): return (pos, groups)
        st=steps[si]; k=st[0]
        if k=='lit':
            m=st[1]
            return go(pos+m, si+1, groups) if s[pos:pos+m]==c*m else None
        if k=='notnext': return None if (pos<n and s[pos]==c) else go(pos, si+1, groups)
        if k=='nb_w': return None if (pos>0 and isw(s[pos-1])) else go(pos, si+1, groups)
        if k=='nb_c': return None if (pos>0 and s[pos-1]==c) else go(pos, si+1, groups)
        if k=='na_w': return None if (pos<n and isw(s[pos])) else go(pos, si+1, groups)
        if k=='lazy':
            mn, notc = st[1], st[2]
            ok=lambda ch: (ch!=c) if notc else True
            for q in range(mn):
                if pos+q>=n or not ok(s[pos+q]): return None
            L=mn
            while pos+L<=n:
                r=go(pos+L, si+1, groups+[s[pos:pos+L]])
                if r: return r
                if pos+L>=n or not ok(s[pos+L]): return None
                L+=1
            return None
        if k=='greedy':
            mn=st[1]; L=0
            while pos+L<n and s[pos+L]!=c: L+=1
            while L>=mn:
                r=go(pos+L, si+1, groups+[s[pos:pos+L]])
                if r: return r
                L-=1
            return None
    return go(i,0,[])
def em_patterns(c):
    if c=='*':
        return [([('lit',3),('lazy',1,False),('lit',1),('lazy',0,False),('lit',2)],'double','strong,em'),
                ([('lit',3),('lazy',1,False),('lit',2),('lazy',0,False),('lit',1)],'double','em,strong'),
                ([('lit',2),('notnext',),('lazy',1,True),('lit',1),('notnext',),('lazy',1,False),('lit',3)],'double2','strong,em'),
                ([('lit',2),('lazy',1,False),('lit',2)],'single','strong'),
                ([('lit',1),('greedy',1),('lit',1)],'single','em')]
    return [([('lit',3),('lazy',1,False),('lit',1),('lazy',0,False),('lit',2)],'double','strong,em'),
            ([('lit',3),('lazy',1,False),('lit',2),('lazy',0,False),('lit',1)],'double','em,strong'),
            ([('nb_w',),('lit',2),('notnext',),('lazy',1,False),('nb_w',),('lit',1),('notnext',),('lazy',1,False),('lit',3),('na_w',)],'double2','strong,em'),
            ([('nb_w',),('lit',2),('notnext',),('lazy',1,False),('nb_c',),('lit',2),('na_w',)],'single','strong'),
            ([('nb_w',),('lit',1),('notnext',),('lazy',1,False),('nb_c',),('lit',1),('na_w',)],'single','em')]
def ns_find(s, start):
    n=len(s)
    for i in range(start,n):
        if not (i==0 or s[i-1].isspace()): continue
        for c in '*_':
            k=0
            while i+k<n and s[i+k]==c and k<3: k+=1
            for m in range(k,0,-1):
                e=i+m
                if e==n or s[e].isspace(): return (i,e)
    return None

# ---------------- the processor ----------------
class Inline:
    def __init__(s, references):
        s.refs=references; s.stash=[]   # list of nodes; id = index
    def ph(s, idx): return PREFIX+('%04d'%idx)+ETX
    def stash_node(s, node):
        s.stash.append(node); return s.ph(len(s.stash)-1)
    def find_ph(s, data, index):
        """INLINE_PLACEHOLDER_RE.search(data, index) -> (id, end) | (None, index+1)"""
        n=len(data); i=index
        while True:
            i=data.find(PREFIX, i)
            if i<0: return None, index+1
            j=i+len(PREFIX); k=j
            while k<n and data[k] in '0123456789': k+=1     # [0-9]
            if k>j and k<n and data[k]==ETX: return data[j:k], k+1
            i+=1
    def in_stash(s, id): 
        return id is not None and len(id)>=4 and id.isdigit() and ('%04d'%int(id))==id and int(id)<len(s.stash)
    def unescape(s, text):
        """Pattern.unescape: one-level placeholder expansion"""
        out=[]; i=0; n=len(text)
        while True:
            j=text.find(PREFIX,i)
            if j<0: out.append(text[i:]); break
            k=j+len(PREFIX); e=k
            while e<n and text[e] in '0123456789': e+=1
            if e>k and e<n and text[e]==ETX:
                id=text[k:e]
                out.append(text[i:j])
                if s.in_stash(id):
                    v=s.stash[int(id)]
                    out.append(v if isinstance(v,str) else ''.join(v.itertext()))
                else: raise TypeError('sub returned None')
                i=e+1
            else:
                out.append(text[i:j+1]); i=j+1
        return ''.join(out)
    # ---- patterns: each returns (node|None, start|None, end|None) for the first *accepted* match from startIndex, or 'nomatch'
    def get_text(s, data, index):
        bc=1; text=[]
        for pos in range(index,len(data)):
            c=data[pos]
            if c==']': bc-=1
            elif c=='[': bc+=1
            index+=1
            if bc==0: break
            text.append(c)
        return ''.join(text), index, bc==0
    def re_link_angle(s, data, index):
        r"""\(\s*(?:(<[^<>]*>)\s*(?:('[^']*'|"[^"]*")\s*)?\))?  match at index -> (matched?, g1, g2, end)"""
        n=len(data)
        if index>=n or data[index]!='(': return None
        p=index+1
        while p<n and data[p].isspace(): p+=1
        # no '<' in domain => optional group fails; regex still matches "(" + \s* (greedy, but the optional part failing lets \s* keep its greedy length)
        return (None,None,p)
    def get_link(s, data, index):
        href=''; title=None; handled=False
        m=s.re_link_angle(data,index)
        if m:
            bracket_count=1; backtrack_count=1; start_index=m[2]; index=start_index; last_bracket=-1
            quote=None; start_quote=-1; exit_quote=-1; ignore_matches=False
            alt_quote=None; start_alt_quote=-1; exit_alt_quote=-1; last=''
            for pos in range(index,len(data)):
                c=data[pos]
                if c=='(':
                    if not ignore_matches: bracket_count+=1
                    elif backtrack_count>0: backtrack_count-=1
                elif c==')':
                    if (exit_quote!=-1 and quote==last) or (exit_alt_quote!=-1 and alt_quote==last): bracket_count=0
                    elif not ignore_matches: bracket_count-=1
                    elif backtrack_count>0:
                        backtrack_count-=1
                        if backtrack_count==0: last_bracket=index+1
                elif c in ("'",'"'):
                    if not quote:
                        ignore_matches=True; backtrack_count=bracket_count; bracket_count=1; start_quote=index+1; quote=c
                    elif c!=quote and not alt_quote:
                        start_alt_quote=index+1; alt_quote=c
                    elif c==quote: exit_quote=index+1
                    elif alt_quote and c==alt_quote: exit_alt_quote=index+1
                index+=1
                if bracket_count==0:
                    if exit_quote>=0 and quote==last:
                        href=data[start_index:start_quote-1]; title=''.join(data[start_quote:exit_quote-1])
                    elif exit_alt_quote>=0 and alt_quote==last:
                        href=data[start_index:start_alt_quote-1]; title=''.join(data[start_alt_quote:exit_alt_quote-1])
                    else: href=data[start_index:index-1]
                    break
                if c!=' ': last=c
            if bracket_count!=0 and backtrack_count==0:
                href=data[start_index:last_bracket-1]; index=last_bracket; bracket_count=0
            handled = bracket_count==0
        if title is not None:
            t=s.unescape(title.strip())
            if (t.startswith('"') and t.endswith('"')) or (t.startswith("'") and t.endswith("'")): t=t[1:-1]
            title=''.join(' ' if ch.isspace() else ch for ch in t)
        href=s.unescape(href).strip()
        return href,title,index,handled
    def eval_id(s, data, index, text, short):
        if short: return text.lower(), index, True
        n=len(data); p=index
        if p<n and data[p].isspace(): 
            # \s? greedy then \[ ; backtrack to zero spaces if fails
            if p+1<n and data[p+1]=='[': p=p+1
            elif data[p]=='[': pass
            else: return None,index,False
        if p>=n or data[p]!='[': return None,index,False
        q=p+1
        while q<n and data[q]!=']': q+=1
        if q>=n: return None,index,False
        id=data[p+1:q].lower()
        if not id: id=text.lower()
        return id, q+1, True
    def ws_clean(s, id):
        out=[]; prev=False
        for ch in id:
            if ch.isspace():
                if not prev: out.append(' ')
                prev=True
            else: out.append(ch); prev=False
        return ''.join(out)
    def apply(s, pi, data, startIndex):
        """one __applyPattern call for pattern index pi. returns (data, matched, startIndex)"""
        n=len(data)
        node=None; start=end=None; found=False
        if pi==0:   # backtick
            m=bt_find(data,startIndex)
            if m:
                kind,start,end,g=m; found=True
                if kind=='code':
                    node=E('code'); node.text=A(code_escape(g.strip()))
                else: node=g.replace('\\\\', STX+'92'+ETX)
        elif pi==1: # escape
            i=data.find('\\',startIndex)
            while i>=0 and i+1>=n: i=-1
            if i>=0:
                found=True; start=i; end=i+2; ch=data[i+1]
                node=(STX+str(ord(ch))+ETX) if ch in ESCAPED else None
        elif pi in (2,3,4,5,6,7):  # reference, link, image_link, image_reference, short_reference, short_image_ref
            image = pi in (4,5,7)
            pos=startIndex
            while True:
                if image:
                    i=data.find('![',pos)
                    if i<0: break
                    mstart=i; mend=i+2
                else:
                    i=data.find('[',pos)
                    if i<0: break
                    if i>0 and data[i-1]=='!': pos=i+1; continue
                    mstart=i; mend=i+1
                pos=mend       # finditer continues after this match
                text,index,handled=s.get_text(data,mend)
                if not handled: continue
                if pi in (3,4):
                    href,title,index,handled=s.get_link(data,index)
                    if not handled: continue
                    if pi==3:
                        el=E('a'); el.text=text; el.attrib['href']=href
                        if title is not None: el.attrib['title']=title
                    else:
                        el=E('img'); el.attrib['src']=href
                        if title is not None: el.attrib['title']=title
                        el.attrib['alt']=s.unescape(text)
                    node,start,end,found=el,mstart,index,True; break
                else:
                    id,e2,handled=s.eval_id(data,index,text, short=pi in (6,7))
                    if not handled: continue
                    id=s.ws_clean(id)
                    if id not in s.refs:
                        node,start,end,found=None,mstart,e2,True; break
                    href,title=s.refs[id]
                    if pi in (2,6):
                        el=E('a'); el.attrib['href']=href
                        if title: el.attrib['title']=title
                        el.text=text
                    else:
                        el=E('img'); el.attrib['src']=href
                        if title: el.attrib['title']=title
                        el.attrib['alt']=s.unescape(text)
                    node,start,end,found=el,mstart,e2,True; break
        elif pi in (8,9,11,12): pass   # autolink, automail, html, entity: need '<' or '&'
        elif pi==10:  # linebreak
            i=data.find('  \n',startIndex)
            if i>=0: found=True; start=i; end=i+3; node=E('br')
        elif pi==13:
            m=ns_find(data,startIndex)
            if m: found=True; start,end=m; node=data[start:end]
        elif pi in (14,15):
            c='*' if pi==14 else '_'
            pos=startIndex
            while True:
                i=data.find(c,pos)
                if i<0: break
                pos=i+1
                r=s.em_handle(data,i,c)
                if r:
                    node,start,end=r; found=True; break
        if not found: return data,False,0
        if node is None: return data,True,end
        if not isinstance(node,str):
            if not isinstance(node.text,A):
                for child in [node]+list(node.children):
                    if child.text: child.text=s.handle_inline(child.text, pi+1)
                    if child.tail: child.tail=s.handle_inline(child.tail, pi)
        ph=s.stash_node(node)
        return data[:start]+ph+data[end:], True, 0
    # emphasis builders
    def em_handle(s, data, i, c):
        P=em_patterns(c)
        for idx,(steps,builder,tags) in enumerate(P):
            r=seq_match(data,i,c,steps)
            if r:
                end,groups=r
                return s.build(groups,builder,tags,idx,c), i, end
        return None
    def build(s, groups, builder, tags, idx, c):
        if builder=='single':
            el=E(tags); s.sub(groups[0], el, None, idx, c); return el
        t1,t2=tags.split(',')
        el1=E(t1); el2=E(t2)
        if builder=='double':
            s.sub(groups[0], el2, None, idx, c); el1.children.append(el2)
            if len(groups)==2: s.sub(groups[1], el1, el2, idx, c)
            return el1
        s.sub(groups[0], el1, None, idx, c); el1.children.append(el2); s.sub(groups[1], el2, None, idx, c)
        return el1
    def sub(s, data, parent, last, idx, c):
        P=em_patterns(c); offset=0; pos=0; n=len(data)
        while pos<n:
            if data[pos]==c:
                matched=False
                for index,(steps,builder,tags) in enumerate(P):
                    if index<=idx: continue
                    r=seq_match(data,pos,c,steps)
                    if r:
                        end,groups=r
                        text=data[offset:pos]
                        if text:
                            if last is not None: last.tail=text
                            else: parent.text=text
                        el=s.build(groups,builder,tags,index,c)
                        parent.children.append(el); last=el
                        offset=pos=end; matched=True
                        # NOTE: the original loop does not break here: it keeps trying later patterns at the new pos
                if not matched: pos+=1
            else: pos+=1
        text=data[offset:]
        if text:
            if last is not None: last.tail=text
            else: parent.text=text
    def handle_inline(s, data, pi=0):
        if not isinstance(data,A):
            startIndex=0
            while pi<16:
                data,matched,startIndex=s.apply(pi,data,startIndex)
                if not matched: pi+=1
        return data
    def process_placeholders(s, data, parent, isText=True):
        result=[]
        def link(text):
            if text:
                if result:
                    result[-1].tail = (result[-1].tail+text) if result[-1].tail else text
                elif not isText:
                    parent.tail = (parent.tail+text) if parent.tail else text
                else:
                    parent.text = (parent.text+text) if parent.text else text
        start=0
        while data:
            index=data.find(PREFIX,start)
            if index!=-1:
                id,phEnd=s.find_ph(data,index)
                if s.in_stash(id):
                    node=s.stash[int(id)]
                    if index>0: link(data[start:index])
                    if not isinstance(node,str):
                        for child in [node]+list(node.children):
                            if child.tail and child.tail.strip(): s.process_element_text(node,child,False)
                            if child.text and child.text.strip(): s.process_element_text(child,child)
                    else:
                        link(node); start=phEnd; continue
                    start=phEnd; result.append(node)
                else:
                    end=index+len(PREFIX); link(data[start:end]); start=end
            else:
                text=data[start:]
                if isinstance(data,A): text=A(text)
                link(text); data=''
        return result
    def process_element_text(s, node, subnode, isText=True):
        if isText: text=subnode.text; subnode.text=None
        else: text=subnode.tail; subnode.tail=None
        res=s.process_placeholders(text, subnode, isText)
        if not isText and node is not subnode: pos=node.children.index(subnode)+1
        else: pos=0
        for nc in reversed(res): node.children.insert(pos,nc)
    def run(s, tree):
        s.stash=[]
        stack=[tree]
        while stack:
            cur=stack.pop()
            queue=[]; i=0
            while i<len(cur.children):          # live iteration
                child=cur.children[i]
                if child.text and not isinstance(child.text,A):
                    text=child.text; child.text=None
                    lst=s.process_placeholders(s.handle_inline(text), child)
                    stack+=lst; queue.append((child,lst))
                if child.tail:
                    tail=s.handle_inline(child.tail)
                    dumby=E('d'); child.tail=None
                    tr=s.process_placeholders(tail,dumby,False)
                    if dumby.tail: child.tail=dumby.tail
                    pos=cur.children.index(child)+1
                    for nc in reversed(tr): cur.children.insert(pos,nc)
                if len(child.children): stack.append(child)
                i+=1
            for element,lst in queue:
                for k,obj in enumerate(lst): element.children.insert(k,obj)
        return tree
