import re, random, sys, itertools
sys.path.insert(0,'/repo')
from markdown import inlinepatterns as ip, blockprocessors as bp
R=random.Random(int(sys.argv[1]) if len(sys.argv)>1 else 0); N=int(sys.argv[2]) if len(sys.argv)>2 else 200000

# ---------- BACKTICK ----------
BT=re.compile(ip.BACKTICK_RE, re.DOTALL|re.UNICODE)
def bt_find(s, start=0):
    n=len(s)
    for i in range(start, n+1):
        if i>0 and s[i-1]=='\\': continue
        # alt1
        k=0
        while i+k<n and s[i+k]=='\\': k+=1
        if k>=2 and k%2==0 and i+k<n and s[i+k]=='`':
            return ('bs', i, i+k, s[i:i+k])
        # alt2
        t=0
        while i+t<n and s[i+t]=='`': t+=1
        for m in range(t,0,-1):
            j=i+m+1
            while j+m<=n:
                if s[j-1]!='`' and s[j:j+m]=='`'*m and not (j+m<n and s[j+m]=='`'):
                    return ('code', i, j+m, s[i+m:j])
                j+=1
    return None
def bt_re(s, start=0):
    m=BT.search(s,start)
    if not m: return None
    if m.group(3) is not None: return ('code', m.start(), m.end(), m.group(3))
    return ('bs', m.start(), m.end(), m.group(1))
# ---------- HASH HEADER ----------
HH=bp.HashHeaderProcessor.RE
def hh_find(s):
    # (?:^|\n)(#{1,6})((?:\\.|[^\\])*?)#*(?:\n|$)   no flags: ^ only at 0, $ at end or before final \n ; '.' no newline
    n=len(s)
    starts=[0]+[i for i in range(n) if s[i]=='\n']   # match start positions: 0 (^) or at a '\n'
    for st in sorted(set(starts)):
        for variant in (('^',st),('nl',st)):
            kind,p=variant
            if kind=='^' and p!=0: continue
            if kind=='nl' and not (p<n and s[p]=='\n'): continue
            q = p if kind=='^' else p+1
            h=0
            while q+h<n and s[q+h]=='#' and h<6: h+=1
            if h==0: continue
            for lv in range(h,0,-1):   # greedy #{1,6} with backtracking
                r=q+lv
                # lazy header: sequence of units (\\. | [^\\]); try to end as early as possible
                pos=r
                while True:
                    # try to finish here: #* then (\n | $)
                    e=pos
                    while e<n and s[e]=='#': e+=1
                    # greedy #* with backtracking: any e' in [pos,e]; need s[e']=='\n' or e' at $ (end, or before final \n)
                    ok=None
                    for e2 in range(e,pos-1,-1):
                        if e2<n and s[e2]=='\n': ok=e2+1; break
                        if e2==n: ok=e2; break
                        if e2==n-1 and s[e2]=='\n': ok=e2; break  # $ before final newline (covered by first) 
                    if ok is not None:
                        return (st, ok, lv, s[r:pos])
                    # extend header by one unit
                    if pos>=n: break
                    if s[pos]=='\\':
                        if pos+1<n and s[pos+1]!='\n': pos+=2
                        else: break   # '\\' followed by newline/end: \\. fails ('.' no newline), [^\\] fails
                    else:
                        pos+=1      # [^\\] matches any char incl newline
            # if ^ variant failed at 0, continue to other starts
    return None
def hh_re(s):
    m=HH.search(s)
    if not m: return None
    return (m.start(), m.end(), len(m.group('level')), m.group('header'))
# ---------- HR ----------
HR=bp.HRProcessor.SEARCH_RE
def hr_line(line):
    i=0
    while i<len(line) and line[i]==' ' and i<3: i+=1
    if i>=len(line): return False
    ch=line[i]
    if ch not in '-_*': return False
    p=i; cnt=0
    while True:
        q=p
        while q<len(line) and line[q]==ch: q+=1
        if q==p: break
        cnt+=q-p
        sp=0
        while q<len(line) and line[q]==' ' and sp<2: q+=1; sp+=1
        p=q
    return cnt>=3 and line[p:].strip(' ')==''
def hr_find(s):
    pos=0
    for line in s.split('\n'):
        if hr_line(line): return pos
        pos+=len(line)+1
    return None
def hr_re(s):
    m=HR.search(s); return m.start() if m else None

alph_bt=['`','``','\\','\\\\','a',' ','\n','*']
alph_hh=['#','##','\\','a',' ','\n','#\n','\\#']
alph_hr=['-','*','_',' ','  ','\n','a','---','* ']
def rnd(al,k): return ''.join(R.choice(al) for _ in range(R.randint(0,k)))
bad={'bt':0,'hh':0,'hr':0}
for i in range(N):
    s=rnd(alph_bt,9)
    if bt_find(s)!=bt_re(s):
        bad['bt']+=1
        if bad['bt']<4: print('BT',repr(s),bt_find(s),bt_re(s))
    s=rnd(alph_hh,8)
    if hh_find(s)!=hh_re(s):
        bad['hh']+=1
        if bad['hh']<6: print('HH',repr(s),hh_find(s),hh_re(s))
    s=rnd(alph_hr,9)
    if hr_find(s)!=hr_re(s):
        bad['hr']+=1
        if bad['hr']<6: print('HR',repr(s),hr_find(s),hr_re(s))
print(bad)
