"""Regex-free, value-passing mirror of `markdown.extensions.meta.MetaPreprocessor.run` (the source of the Lean model
`MdVerif/Model/Ext/Meta.lean`; same function names, same case analysis).

    META_RE      = ^[ ]{0,3}(?P<key>[A-Za-z0-9_-]+):\\s*(?P<value>.*)
    META_MORE_RE = ^[ ]{4,}(?P<value>.*)
    BEGIN_RE     = ^-{3}(\\s.*)?$          `---`, then nothing, or a white-space character and the rest of the line
    END_RE       = ^(-{3}|\\.{3})(\\s.*)?$  likewise after `---` or `...`
  (`$` = the end of the string or just before a line feed that ends the string; `.` stops at a line feed; so after the
  white-space character — which may itself be a line feed — the first line feed, if any, must be the last character.)
  Before the repair of F-C16-3 the two patterns had no `$`: with `.match` the optional group could be empty, and ANY line
  starting with `---` (resp. `---`/`...`) matched: `----`, `...and so on`; and `END_RE` was honoured on every line popped,
  also when no opening deliminator and no keyword had been seen (`began`: a first line `... and so on` was dropped).

`run(lines) -> (remaining lines, meta)`; `meta` is the list of `(key, [values])` in insertion order of the keys, i.e.
`list(md.Meta.items())`.  Nothing is mutated.  `.` of `re` stops at `\\n` (a line handed over by the pipeline never
contains one, but `run` is total on any list of strings); `\\s` is `str.isspace`.

diff against the real preprocessor: `python mirror_meta.py SEED N` (PYTHONPATH=<repo>).
"""
from __future__ import annotations


def is_key_char(c):
    return ('a' <= c <= 'z') or ('A' <= c <= 'Z') or ('0' <= c <= '9') or c == '_' or c == '-'


def count_prefix(ch, lim, s):
    """number of leading `ch`, at most `lim`"""
    n = 0
    while n < len(s) and n < lim and s[n] == ch: n += 1
    return n


def span_len(p, s):
    n = 0
    while n < len(s) and p(s[n]): n += 1
    return n


def lstrip(s):
    return s[span_len(lambda c: c.isspace(), s):]


def rstrip(s):
    return lstrip(s[::-1])[::-1]


def strip(s):
    return rstrip(lstrip(s))


def is_blank(s):
    return all(c.isspace() for c in s)


def to_eol(s):
    """what `.*` matches at the start of `s`"""
    return s[:span_len(lambda c: c != '\n', s)]


def lower_ascii(s):
    return ''.join(chr(ord(c) + 32) if 'A' <= c <= 'Z' else c for c in s)


def meta_match(line):
    """META_RE.match(line) -> (key, value) | None"""
    r = line[count_prefix(' ', 3, line):]
    k = span_len(is_key_char, r)
    if k == 0: return None
    rest = r[k:]
    if rest[:1] != ':': return None
    return (r[:k], to_eol(lstrip(rest[1:])))


def more_match(line):
    """META_MORE_RE.match(line) -> value | None"""
    n = span_len(lambda c: c == ' ', line)
    if n < 4: return None
    return to_eol(line[n:])


def dots_dollar(s):
    """does `.*$` match at the start of `s`: the first line feed, if any, is the last character"""
    if s == '': return True
    if s[0] == '\n': return len(s) == 1
    return dots_dollar(s[1:])


def tail_ok(rest):
    """`(\\s.*)?$` at the start of `rest`"""
    return rest == '' or (rest[0].isspace() and dots_dollar(rest[1:]))


def begin_match(line):
    return line[:3] == '---' and tail_ok(line[3:])


def end_match(line):
    return (line[:3] == '---' or line[:3] == '...') and tail_ok(line[3:])


def add_value(key, v, meta):
    """`meta[key].append(v)` / `meta[key] = [v]` on an association list in insertion order"""
    if not meta: return [(key, [v])]
    (k, vs) = meta[0]
    if k == key: return [(k, vs + [v])] + meta[1:]
    return [(k, vs)] + add_value(key, v, meta[1:])


def loop(lines, began, key, meta):
    if not lines: return ([], meta)
    line, rest = lines[0], lines[1:]
    if is_blank(line) or (end_match(line) and (began or key is not None)): return (rest, meta)
    m1 = meta_match(line)
    if m1 is not None:
        key2 = strip(lower_ascii(m1[0]))
        return loop(rest, began, key2, add_value(key2, strip(m1[1]), meta))
    m2 = more_match(line)
    if m2 is not None and key is not None:
        return loop(rest, began, key, add_value(key, strip(m2), meta))
    return (lines, meta)


def run(lines):
    if lines and begin_match(lines[0]): return loop(lines[1:], True, None, [])
    return loop(lines, False, None, [])


# ------------------------------------------------------------------ generator + diff
KEYS = ['a', 'A', 'Title', 'title', 'k_1', 'x-y', '9', '_', '-', 'aB', 'author', 'Author', 'K', '--', '---', 'a.b', 'é', 'a b', '']
VALS = ['', 'v', ' v ', 'two words', ' \t x', 'x \t', 'é ü', '\xa0n\xa0', '\u2003em', 'a: b', '---', '...', ':', 'v\x0b', '\x1cv',
        '*e*', '  ', '\t', 'http://x/y', 'k: v: w']
OTHER = ['', '', ' ', '   ', '\t', '---', '...', '--- ', '... x', '....', '----', '--', '..', '-- -', '---x', '...x', ' ---', ' ...',
         '---\n', '...\n', '---\nx', '--- \n', '--- x\n', '--- x\ny', '--- x\n\n', '---\n\n', '...\ty\n', '---\xa0x', '---\x0b', '...\x1c\n', '---x\n', '---\n\nx',
         '---and', '...and so on', '---: v', '---x: v', '--- : v',
         '--- yaml', 'text', 'plain text', '# h', '> q', '- item', '    code', '        deep', '\tx', ' \tx', '   \tk: v', 'a:b',
         'a :b', ':', ': v', ' : v', 'é: v', 'a b: v', 'a.b: v', '\xa0', '\xa0a: b', '\u2003', 'a:\xa0b', 'a:\u2003 b\u2003', 'a:\tb',
         '    ', '     ', '    \t', '    a: b', '     a: b', 'k:', 'k: ', ' k:', '  k:v', '   k: v', '-: v', '---: v', '...: v',
         'a\nb: c', 'a: b\nc', 'a:\n  b', '    x\ny', '\n', 'a:\x0bv', 'a: \x1f', '\x85', 'a:\x85b']


def gen_line(rng):
    r = rng.random()
    if r < 0.30:
        return ' ' * rng.choice([0, 0, 0, 1, 2, 3, 3, 4, 5]) + rng.choice(KEYS) + rng.choice([':', ':', ':', ': ', ':  ', ':\t', ' :', '']) + rng.choice(VALS)
    if r < 0.45:
        return ' ' * rng.choice([4, 4, 5, 8, 3, 2, 6]) + rng.choice(VALS + KEYS)
    if r < 0.60:
        return rng.choice(['', '', '---', '---', '...', '...', ' ', '--- ', '... ', '---\t', '....', '----'])
    if r < 0.90:
        return rng.choice(OTHER)
    return ''.join(rng.choice(' \t-.:aA_-9é\xa0\n:') for _ in range(rng.randint(0, 8)))


def gen_lines(rng):
    r = rng.random()
    n = rng.choice([0, 1, 1, 2, 3, 4, 5, 6, 8, 12])
    if r < 0.5:
        return [gen_line(rng) for _ in range(n)]
    # structured: optional begin, header, end/blank, body
    ls = []
    if rng.random() < 0.4: ls.append(rng.choice(['---', '---', '--- ', '----', '--- x', '...', '']))
    for _ in range(rng.randint(0, 5)):
        ls.append(' ' * rng.choice([0, 0, 1, 2, 3]) + rng.choice(KEYS[:13]) + rng.choice([':', ': ', ':  ', ':\t']) + rng.choice(VALS))
        for _ in range(rng.choice([0, 0, 0, 1, 2])):
            ls.append(' ' * rng.choice([4, 4, 5, 9]) + rng.choice(VALS))
    if rng.random() < 0.8: ls.append(rng.choice(['', '', '---', '...', ' ', '... ', '--- #', 'body']))
    for _ in range(rng.randint(0, 4)): ls.append(gen_line(rng))
    return ls


def real_run(lines):
    from markdown.extensions.meta import MetaPreprocessor

    class _M:
        Meta = None
    m = _M()
    out = MetaPreprocessor(m).run(list(lines))
    return (out, [(k, list(v)) for k, v in m.Meta.items()])


def main():
    import sys, random, collections
    R = random.Random(int(sys.argv[1])); N = int(sys.argv[2])
    bad = 0; seen = set(); dist = collections.Counter()
    for _ in range(N):
        ls = gen_lines(R)
        t = tuple(ls)
        if t in seen: continue
        seen.add(t)
        real = real_run(ls)
        mine = run(ls)
        mine = (list(mine[0]), [(k, list(v)) for k, v in mine[1]])
        dist['keys=%d' % min(len(real[1]), 3)] += 1
        if any(len(v) > 1 for _, v in real[1]): dist['multi'] += 1
        if len(real[0]) < len(ls): dist['consumed'] += 1
        if real[0] and real[1]: dist['meta+body'] += 1
        if ls and ls[0][:3] == '---' and real[1]: dist['yaml'] += 1
        if any('\n' in l for l in ls): dist['nl-in-line'] += 1
        if mine != real:
            bad += 1
            if bad <= 10: print('LINES', ls, '\n  REAL', real, '\n  MINE', mine)
    print('bad', bad, 'of', len(seen), 'distinct', dict(dist))


if __name__ == '__main__':
    main()
