"""What a `Markdown` instance keeps BETWEEN `convert` calls when `reset()` is not called (C11, concrete model
`lean/MdVerif/Model/InstanceX.lean`).

Experiments on the real implementation: sequences `convert(a); convert(b)` with / without `reset()` in between, for
the core and for every extension the end-to-end model `PipelineX.convertX` knows.  Run

    VERIF_REPO=/tmp/lw/<you>/repo PYTHONPATH=$VERIF_REPO /venv/bin/python harness/mirror/mirror_instance.py

It prints, per experiment, the outputs of the second conversion without and with `reset()` and a snapshot of the
instance attributes that differ from those of a new instance.  The findings (what `InstanceX.MdSt` carries):

  md.references                 dict, persists; a reference defined in document 1 resolves in document 2; a later
                                definition of the same label overrides (dict assignment)
  md.htmlStash                  rawHtmlBlocks/html_counter persist: the counter keeps growing, the placeholders of
                                document 2 start at len(blocks of document 1); RawHtmlPostprocessor builds replacements
                                for ALL blocks, old ones included (they do not occur in the new text)
  md.parser.state               empty after every conversion that returns (balanced)
  InlineProcessor.stashed_nodes re-initialised by every `run` (not instance state across conversions)
  footnotes.footnotes           OrderedDict, persists: the footnotes of document 1 are rendered again in the div of
                                document 2 (position kept on redefinition)
  footnotes.used_refs/found_refs persist: the first reference to `[^1]` in document 2 gets `fnref2:1`, and the
                                duplicate back-links of the `li` count the references of both documents
  footnotes.unique_prefix       only incremented by reset(); read only with UNIQUE_IDS (not default)
  abbr.abbrs                    dict, persists: an abbreviation of document 1 is applied in document 2
  md.toc / md.toc_tokens        overwritten by every non-blank conversion (side outputs; a blank document returns
                                before any stage runs and leaves them as they were)
  md.Meta (meta extension)      overwritten by every non-blank conversion (MetaPreprocessor.run), {} after reset(); a blank
                                document leaves it
  toc used ids                  collected per run from the tree (no carried state)
  fenced_code                   `codehilite_conf`, `use_attr_list`, `checked_for_deps` set on the first run from the
                                registered extensions (constant afterwards)
  tables, admonition, def_list, sane_lists, nl2br, wikilinks, attr_list: no conversion-time instance state
"""
from __future__ import annotations
import os, sys

sys.path.insert(0, os.environ.get('VERIF_REPO', '/repo'))
import markdown  # noqa: E402


def snapshot(md):
    s = {'references': dict(md.references), 'html_counter': md.htmlStash.html_counter,
         'rawHtmlBlocks': list(md.htmlStash.rawHtmlBlocks), 'parser.state': list(md.parser.state)}
    for e in md.registeredExtensions:
        n = type(e).__name__
        if n == 'FootnoteExtension':
            s['fn.footnotes'] = list(e.footnotes.items()); s['fn.used_refs'] = sorted(e.used_refs)
            s['fn.found_refs'] = dict(e.found_refs); s['fn.unique_prefix'] = e.unique_prefix
        elif n == 'AbbrExtension':
            s['abbr.abbrs'] = dict(e.abbrs)
        elif n == 'TocExtension':
            s['toc'] = md.toc; s['toc_tokens'] = md.toc_tokens
        elif n == 'MetaExtension':
            s['Meta'] = dict(md.Meta)
    return s


def seq(exts, docs, reset_between, **kw):
    md = markdown.Markdown(extensions=exts, **kw)
    outs = []
    for i, d in enumerate(docs):
        if i and reset_between: md.reset()
        try:
            outs.append(md.convert(d))
        except Exception as e:  # noqa: BLE001
            outs.append('RAISED ' + type(e).__name__)
    return outs, snapshot(md)


EXPERIMENTS = [
    ('core: reference defined in doc 1, used in doc 2', [], ['[a]: /u "T"\n\n[x][a]', '[y][a] [a]']),
    ('core: redefinition in doc 2 overrides', [], ['[a]: /one', '[a]: /two\n\n[a]', '[a]']),
    ('core: entity goes to the html stash; counter grows', [], ['a &amp; b', 'c &lt; d &copy;', 'e &gt;']),
    ('core: blank doc 2 leaves everything', [], ['[a]: /u', '  \n', '[a]']),
    ('fenced_code: placeholders continue', ['fenced_code'], ['```\na\n```', '```\nb\n```\n\n&amp;']),
    ('footnotes: doc 1 footnotes rendered in doc 2', ['footnotes'], ['x[^1]\n\n[^1]: one', 'y[^2]\n\n[^2]: two', 'z[^1] [^2]']),
    ('footnotes: ref ids / duplicates accumulate', ['footnotes'], ['x[^1][^1]\n\n[^1]: one', 'y[^1]', 'z[^1]']),
    ('footnotes: redefinition keeps position', ['footnotes'], ['[^a]: A\n[^b]: B\n\nx[^a][^b]', '[^a]: A2\n\ny[^b][^a]']),
    ('abbr: doc 1 abbreviation applied in doc 2', ['abbr'], ['*[HTML]: Hyper Text\n\nHTML', 'HTML again', "*[HTML]: ''\n\nHTML gone", 'HTML']),
    ('toc: ids per run, md.toc overwritten', ['toc'], ['# A\n\n[TOC]', '# A\n\n# B\n\n[TOC]', ' ']),
    ('footnotes+abbr+refs in one', ['footnotes', 'abbr'], ['[r]: /u\n*[X]: T\n[^n]: N X [l][r]\n\nX[^n]', 'X [l][r] [^n]']),
    ('meta: Meta overwritten per conversion, kept by a blank document', ['meta'], ['Title: A\n\nbody', 'plain', 'K: v\n\nx', ' ']),
    ('error then convert', ['footnotes'], ['&#1114112; [a]: /u\n\n[a]: /v', '[q][a]']),
]


def main():
    for title, exts, docs in EXPERIMENTS:
        print('==', title, exts)
        for rb in (False, True):
            outs, snap = seq(exts, docs, rb)
            print('  reset between' if rb else '  NO reset')
            for d, o in zip(docs, outs):
                print('    %r\n      -> %r' % (d, o))
            print('    state after:', snap)


if __name__ == '__main__':
    main()
