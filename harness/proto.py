"""Python side of the line protocol of the Lean model driver (see lean/Driver/Proto.lean, TreeCodec.lean)."""
from __future__ import annotations
import os, subprocess, threading

VERIF = os.path.dirname(os.path.dirname(os.path.abspath(__file__)))
DRIVER = os.path.join(VERIF, 'lean', '.lake', 'build', 'bin', 'mdmodel')


def enc_str(s: str) -> str:
    return ','.join(str(ord(c)) for c in s)


def dec_str(f: str) -> str:
    return '' if f == '' else ''.join(chr(int(t)) for t in f.split(','))


def enc_list(l) -> str:
    l = list(l)
    return '-' if not l else ';'.join(enc_str(s) for s in l)


def dec_list(f: str):
    return [] if f == '-' else [dec_str(x) for x in f.split(';')]


def enc_opt(s) -> str:
    return 'N' if s is None else 'S' + enc_str(s)


def dec_opt(f: str):
    return None if f == 'N' else dec_str(f[1:])


def enc_bool(b) -> str:
    return '1' if b else '0'


def lean_ok(s: str) -> bool:
    """can this Python string be a Lean `List Char` (no lone surrogates)?"""
    return not any(0xD800 <= ord(c) <= 0xDFFF for c in s)


# ------------------------------------------------------------------ trees
class T:
    """plain tree value: tag kinds 'n' (name), 'c' comment, 'p' PI, '0' None, 'q' QName"""
    __slots__ = ('kind', 'tag', 'text', 'text_atomic', 'tail', 'tail_atomic', 'attrs', 'children')

    def __init__(self, kind='n', tag='', text=None, text_atomic=False, tail=None, tail_atomic=False, attrs=(), children=()):
        self.kind, self.tag, self.text, self.text_atomic = kind, tag, text, text_atomic
        self.tail, self.tail_atomic, self.attrs, self.children = tail, tail_atomic, list(attrs), list(children)

    def key(self, keep_none=True):
        """canonical comparable value; attrs sorted; None vs '' kept unless keep_none is False"""
        tx = self.text if keep_none else (self.text or None)
        tl = self.tail if keep_none else (self.tail or None)
        return (self.kind, self.tag, tx, bool(self.text_atomic) if tx else False, tl,
                bool(self.tail_atomic) if tl else False, tuple(sorted(self.attrs)),
                tuple(c.key(keep_none) for c in self.children))


def from_etree(e) -> T:
    import xml.etree.ElementTree as etree
    from markdown.util import AtomicString
    tag = e.tag
    if tag is etree.Comment: kind, t = 'c', ''
    elif tag is etree.ProcessingInstruction: kind, t = 'p', ''
    elif tag is None: kind, t = '0', ''
    elif isinstance(tag, etree.QName): kind, t = 'q', tag.text
    else: kind, t = 'n', tag
    return T(kind, t, e.text, isinstance(e.text, AtomicString), e.tail, isinstance(e.tail, AtomicString),
             list(e.attrib.items()), [from_etree(c) for c in e])


def to_etree(t: T):
    import xml.etree.ElementTree as etree
    from markdown.util import AtomicString
    tag = {'c': etree.Comment, 'p': etree.ProcessingInstruction, '0': None}.get(t.kind, None)
    if t.kind == 'n': tag = t.tag
    elif t.kind == 'q': tag = etree.QName(t.tag)
    e = etree.Element(tag) if tag is not None else etree.Element('x')
    if tag is None: e.tag = None
    for k, v in t.attrs: e.set(k, v)
    e.text = AtomicString(t.text) if (t.text is not None and t.text_atomic) else t.text
    e.tail = AtomicString(t.tail) if (t.tail is not None and t.tail_atomic) else t.tail
    for c in t.children: e.append(to_etree(c))
    return e


def enc_tree(t: T) -> str:
    toks = []

    def go(n):
        tag = {'n': 'n' + enc_str(n.tag), 'c': 'c', 'p': 'p', '0': '0', 'q': 'q' + enc_str(n.tag)}[n.kind]
        attrs = '-' if not n.attrs else ';'.join(enc_str(k) + '=' + enc_str(v) for k, v in n.attrs)
        toks.extend([tag, enc_opt(n.text), enc_bool(n.text_atomic), enc_opt(n.tail), enc_bool(n.tail_atomic), attrs,
                     str(len(n.children))])
        for c in n.children: go(c)
    go(t)
    return ' '.join(toks)


def dec_tree(f: str) -> T:
    toks = f.split(' ')
    pos = 0

    def go():
        nonlocal pos
        tag, text, ta, tail, tla, attrs, cnt = toks[pos:pos + 7]
        pos += 7
        kind = tag[0]
        t = dec_str(tag[1:]) if kind in 'nq' else ''
        at = [] if attrs == '-' else [tuple(dec_str(x) for x in kv.split('=')) for kv in attrs.split(';')]
        kids = [go() for _ in range(int(cnt))]
        return T(kind, t, dec_opt(text), ta == '1', dec_opt(tail), tla == '1', at, kids)
    return go()


# ------------------------------------------------------------------ driver process
class Driver:
    """one mdmodel process; `ask(op, *args)` sends a request and returns the answer line"""

    def __init__(self, path=None):
        self.path = path or DRIVER
        self.p = subprocess.Popen([self.path], stdin=subprocess.PIPE, stdout=subprocess.PIPE, text=True,
                                  encoding='ascii', bufsize=1 << 16)
        self.lock = threading.Lock()

    def ask(self, op, *args):
        return self.ask_many([(op,) + tuple(args)])[0]

    def ask_many(self, reqs):
        """send a batch, read the same number of answers"""
        out = []
        with self.lock:
            # a writer thread feeds the requests while this thread reads the answers: no pipe deadlock
            data = ''.join('\t'.join(r) + '\n' for r in reqs)

            def feed():
                try:
                    self.p.stdin.write(data); self.p.stdin.flush()
                except Exception:
                    pass
            th = threading.Thread(target=feed, daemon=True); th.start()
            for r in reqs:
                line = self.p.stdout.readline()
                if not line:
                    raise RuntimeError('model driver died (request: %r)' % (r[:1],))
                out.append(line.rstrip('\n'))
            th.join()
        return out

    def close(self):
        try:
            self.p.stdin.close(); self.p.wait(timeout=10)
        except Exception:
            self.p.kill()
