#!/venv/bin/python
"""Regenerate MANIFEST.json from harness/props.py (claimed properties) — every property not claimed is listed under
not_applicable with its reason."""
import json, os, sys
HERE = os.path.dirname(os.path.abspath(__file__)); VERIF = os.path.dirname(HERE)
sys.path.insert(0, HERE)
import props

ids = [json.loads(l)['id'] for l in open(os.path.join(VERIF, 'properties.jsonl'))]
checks = []
for pid in ids:
    if pid not in props.P: continue
    s = props.P[pid]
    checks.append({
        'property_id': pid,
        'quick_cmd': './check %s --tier quick' % pid,
        'thorough_cmd': './check %s --tier thorough' % pid,
        'evidence_file': 'evidence/%s.json' % pid,
        'replay_cmd_template': './check %s --replay {path}' % pid,
        'engine': 'lean-model',
        'level_claimed': {'category': 'proof', 'text': props.LEVEL.get(pid, s.technique), 'design_ref': 'DESIGN.md section 5 (%s)' % pid},
        'level_note': (s.partial + ' ' if s.partial else '') + 'Trusted: Lean 4.33 kernel; axioms propext/Classical.choice/Quot.sound only; translator and correspondence harness; CPython stdlib as substrate. The theorems are about the Lean model; the model is tied to the source by the translator (Generated/*.lean) and the correspondence run of this check.',
        'technique': s.technique,
    })
na = [{'property_id': pid, 'reason': props.NOT_CLAIMED.get(pid, 'no check built yet in this round; see DESIGN.md section 5')} for pid in ids if pid not in props.P]
m = {
    'version': 1,
    'setup_cmd': './setup.sh',
    'hooks': {'guard': 'PYTHON_MARKDOWN_VERIF', 'enable': 'no source hooks: every observation point is public API reached from the harness (DESIGN.md 2.6)',
              'baseline_off_cmd': 'cd /repo && /venv/bin/python -m pytest -q -p no:cacheprovider --timeout=900', 'source_commits': [], 'add_only': True},
    'engines': [{'name': 'lean-model', 'path': 'lean/', 'serves_properties': [c['property_id'] for c in checks],
                 'kind_free_text': 'Lean 4 formal model + theorems (lake build, #print axioms audit), compiled model driver mdmodel for the correspondence check, python harness for translation, correspondence and failing-input search'}],
    'checks': checks,
    'not_applicable': na,
    'notes': 'All checks share ./check <ID>; VERIF_SEED seeds every random choice; exit 2 = infrastructure failure. See DESIGN.md.',
}
json.dump(m, open(os.path.join(VERIF, 'MANIFEST.json'), 'w'), indent=1)
print('claimed:', [c['property_id'] for c in checks])
