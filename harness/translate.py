#!/venv/bin/python
"""Translator: /repo working tree  ->  lean/MdVerif/Generated/{Chars,Tables}.lean  (+ generated/model_map.json)

Everything is read from the *source text* of the repository with `ast` (nothing under /repo is imported by
this step), except the Unicode character classes and `HTML_EMPTY`, which come from the running CPython /
xml.etree (the substrate the implementation runs on).  The output files are replaced only when their content
changes, so that `lake` rebuilds exactly what depends on what changed.

If an expected definition is missing or has an unrecognised shape the translator does not guess: it records
`translator-mismatch:<what>` in the returned report (and in model_map.json) and emits a neutral value, so that the
proofs that depend on it fail and the check goes on to the failing-input search.
"""
from __future__ import annotations
import ast, hashlib, json, os, re, sys

VERIF = os.path.dirname(os.path.dirname(os.path.abspath(__file__)))
REPO = os.environ.get('VERIF_REPO', '/repo')
OUT_DIR = os.path.join(VERIF, 'lean', 'MdVerif', 'Generated')
MAP_OUT = os.path.join(VERIF, 'generated', 'model_map.json')


# --------------------------------------------------------------------------------------- helpers
def lean_str(s: str) -> str:
    out = ['"']
    for ch in s:
        o = ord(ch)
        if ch == '"': out.append('\\"')
        elif ch == '\\': out.append('\\\\')
        elif ch == '\n': out.append('\\n')
        elif ch == '\t': out.append('\\t')
        elif ch == '\r': out.append('\\r')
        elif o < 32 or o == 127: out.append('\\x%02x' % o)
        else: out.append(ch)
    out.append('"')
    return ''.join(out)


def lean_char(ch: str) -> str:
    o = ord(ch)
    if ch == "'": return "'\\''"
    if ch == '\\': return "'\\\\'"
    if ch == '\n': return "'\\n'"
    if ch == '\t': return "'\\t'"
    if ch == '\r': return "'\\r'"
    if o < 32 or o == 127: return "'\\x%02x'" % o
    return "'%s'" % ch


def lean_list(items, per_line=8, indent='  '):
    items = list(items)
    if not items: return '[]'
    lines = []
    for i in range(0, len(items), per_line):
        lines.append(indent + ', '.join(items[i:i + per_line]))
    return '[\n' + ',\n'.join(lines) + ']'


def lean_big_def(name, ty, items, doc=None, chunk=64, per_line=6):
    """a long list literal, split into chunks so that the elaborator's recursion depth is not exceeded"""
    items = list(items)
    L = []
    names = []
    for i in range(0, max(len(items), 1), chunk):
        nm = '%s_%d' % (name, i // chunk); names.append(nm)
        L.append('def %s : List (%s) := %s' % (nm, ty, lean_list(items[i:i + chunk], per_line)))
    if doc: L.append('/-- %s -/' % doc)
    L.append('def %s : List (%s) := %s' % (name, ty, ' ++ '.join(names)))
    return '\n'.join(L)


def write_if_changed(path, content):
    os.makedirs(os.path.dirname(path), exist_ok=True)
    try:
        with open(path, encoding='utf-8') as f:
            if f.read() == content: return False
    except FileNotFoundError:
        pass
    tmp = path + '.tmp%d' % os.getpid()
    with open(tmp, 'w', encoding='utf-8') as f: f.write(content)
    os.replace(tmp, path)
    return True


def ranges(l):
    r = []; s = p = None
    for c in l:
        if s is None: s = p = c
        elif c == p + 1: p = c
        else: r.append((s, p)); s = p = c
    if s is not None: r.append((s, p))
    return r


class Mismatch(Exception):
    pass


class Src:
    """parsed modules of the repository, by relative path"""
    def __init__(self, repo):
        self.repo = repo; self.cache = {}
    def tree(self, rel):
        if rel not in self.cache:
            with open(os.path.join(self.repo, rel), encoding='utf-8') as f:
                self.cache[rel] = ast.parse(f.read(), rel)
        return self.cache[rel]


def const_eval(node, env):
    """evaluate the tiny constant language used for the placeholder constants"""
    if isinstance(node, ast.Constant): return node.value
    if isinstance(node, ast.Name):
        if node.id in env: return env[node.id]
        raise Mismatch('name ' + node.id)
    if isinstance(node, ast.Attribute) and isinstance(node.value, ast.Name) and node.value.id == 'util':
        if node.attr in env: return env[node.attr]
        raise Mismatch('util.' + node.attr)
    if isinstance(node, ast.BinOp) and isinstance(node.op, ast.Add):
        return const_eval(node.left, env) + const_eval(node.right, env)
    if isinstance(node, ast.BinOp) and isinstance(node.op, ast.Mod):
        return const_eval(node.left, env) % const_eval(node.right, env)
    if isinstance(node, ast.List):
        return [const_eval(e, env) for e in node.elts]
    if isinstance(node, ast.UnaryOp) and isinstance(node.op, ast.USub):
        return -const_eval(node.operand, env)
    if isinstance(node, ast.JoinedStr):
        return ''.join(const_eval(v.value if isinstance(v, ast.FormattedValue) else v, env) for v in node.values)
    raise Mismatch('expr ' + ast.dump(node)[:60])


def module_consts(tree, env=None):
    env = dict(env or {})
    for st in tree.body:
        tgt = val = None
        if isinstance(st, ast.Assign) and len(st.targets) == 1 and isinstance(st.targets[0], ast.Name):
            tgt, val = st.targets[0].id, st.value
        elif isinstance(st, ast.AnnAssign) and isinstance(st.target, ast.Name) and st.value is not None:
            tgt, val = st.target.id, st.value
        if tgt is None: continue
        try: env[tgt] = const_eval(val, env)
        except Mismatch: pass
    return env


def norm_hash(node) -> str:
    return hashlib.sha256(ast.dump(node, annotate_fields=False, include_attributes=False).encode()).hexdigest()[:16]


def find_def(tree, qual):
    parts = qual.split('.')
    body = tree.body
    node = None
    for p in parts:
        node = None
        for st in body:
            if isinstance(st, (ast.FunctionDef, ast.ClassDef)) and st.name == p:
                node = st; break
        if node is None: return None
        body = node.body
    return node


def registrations(tree):
    """every `<expr>.register(<item>, '<name>', <prio>)` call: (scope, registry expr, name, priority|None)"""
    res = []
    class V(ast.NodeVisitor):
        def __init__(s): s.scope = []
        def visit_FunctionDef(s, n): s.scope.append(n.name); s.generic_visit(n); s.scope.pop()
        def visit_ClassDef(s, n): s.scope.append(n.name); s.generic_visit(n); s.scope.pop()
        def visit_Call(s, n):
            if isinstance(n.func, ast.Attribute) and n.func.attr == 'register' and len(n.args) == 3:
                name = n.args[1]; pr = n.args[2]
                nm = name.value if isinstance(name, ast.Constant) and isinstance(name.value, str) else None
                try: p = const_eval(pr, {})
                except Mismatch: p = None
                if not isinstance(p, (int, float)): p = None
                reg = ast.unparse(n.func.value)
                item = ast.unparse(n.args[0])
                res.append(('.'.join(s.scope), reg, nm, p, item))
            s.generic_visit(n)
    V().visit(tree)
    return res


# --------------------------------------------------------------------------------------- Chars
def gen_chars():
    ws = [c for c in range(0x110000) if chr(c).isspace()]
    sur = lambda c: 0xD800 <= c <= 0xDFFF
    ws_re = [c for c in range(0x110000) if not sur(c) and re.match(r'\s', chr(c))]
    assert ws == ws_re, 'str.isspace and \\s differ'
    dec = [c for c in range(0x110000) if chr(c).isdecimal()]
    dec_re = [c for c in range(0x110000) if not sur(c) and re.match(r'\d', chr(c))]
    assert dec == dec_re
    for a, b in ranges(dec):
        assert all(int(chr(c)) == (c - a) % 10 for c in range(a, b + 1)), 'decimal ranges are not 0..9 blocks'
    w = [c for c in range(0x110000) if chr(c).isalnum() or c == 95]
    w_re = [c for c in range(0x110000) if not sur(c) and re.match(r'\w', chr(c))]
    assert w == w_re
    low = [(c, chr(c).lower()) for c in range(128, 0x110000) if not sur(c) and chr(c).lower() != chr(c)]
    L = ['/- GENERATED by harness/translate.py from the running CPython (%s). Do not edit. -/' % sys.version.split()[0],
         'namespace MdVerif.Generated.Chars', '',
         lean_big_def('spaceNonAscii', 'Nat', [str(c) for c in ws if c >= 128], 'non-ASCII code points with `str.isspace()` (= `\\s`)', per_line=12), '',
         lean_big_def('decimalNonAscii', 'Nat × Nat', ['(%d, %d)' % r for r in ranges([c for c in dec if c >= 128])],
                      'non-ASCII ranges of `str.isdecimal()` (= `\\d`); every range starts at a zero digit'), '',
         lean_big_def('wordNonAscii', 'Nat × Nat', ['(%d, %d)' % r for r in ranges([c for c in w if c >= 128])],
                      'non-ASCII ranges of `str.isalnum()` (with `_`: `\\w`)'), '',
         lean_big_def('lowerNonAscii', 'Nat × List Nat', ['(%d, [%s])' % (c, ', '.join(str(ord(x)) for x in s)) for c, s in low],
                      'non-ASCII characters changed by `str.lower()` (context-free part; U+03A3 final sigma is outside the domain)'), '',
         'end MdVerif.Generated.Chars', '']
    return '\n'.join(L)


# --------------------------------------------------------------------------------------- Tables
CORE_BUILDERS = [
    ('markdown/preprocessors.py', 'build_preprocessors', 'preprocessors'),
    ('markdown/blockprocessors.py', 'build_block_parser', 'blockprocessors'),
    ('markdown/inlinepatterns.py', 'build_inlinepatterns', 'inlinePatterns'),
    ('markdown/treeprocessors.py', 'build_treeprocessors', 'treeprocessors'),
    ('markdown/postprocessors.py', 'build_postprocessors', 'postprocessors'),
]
EXT_FILES = ['abbr', 'admonition', 'attr_list', 'codehilite', 'def_list', 'extra', 'fenced_code', 'footnotes',
             'legacy_attrs', 'legacy_em', 'md_in_html', 'meta', 'nl2br', 'sane_lists', 'smarty', 'tables', 'toc',
             'wikilinks']

# functions mirrored by Lean definitions: (python file, qualified name, lean module)
MODEL_MAP = [
    ('markdown/util.py', 'Registry', 'Model/Registry'),
    ('markdown/util.py', 'HtmlStash', 'Model/Post'),
    ('markdown/util.py', 'code_escape', 'Model/Block'),
    ('markdown/util.py', 'parseBoolValue', 'Model/Config'),
    ('markdown/serializers.py', '_escape_cdata', 'Model/Serializer'),
    ('markdown/serializers.py', '_escape_attrib', 'Model/Serializer'),
    ('markdown/serializers.py', '_escape_attrib_html', 'Model/Serializer'),
    ('markdown/serializers.py', '_serialize_html', 'Model/Serializer'),
    ('markdown/preprocessors.py', 'NormalizeWhitespace.run', 'Model/Normalize'),
    ('markdown/preprocessors.py', 'HtmlBlockPreprocessor.run', 'Model/Extract'),
    ('markdown/core.py', 'Markdown.convert', 'Model/Pipeline'),
    ('markdown/core.py', 'Markdown.reset', 'Model/Instance'),
    ('markdown/core.py', 'Markdown.build_extension', 'Model/Config'),
    ('markdown/core.py', 'Markdown.convertFile', 'Model/Codec'),
    ('markdown/blockparser.py', 'BlockParser.parseBlocks', 'Model/Block'),
    ('markdown/blockparser.py', 'BlockParser.parseChunk', 'Model/Block'),
    ('markdown/blockparser.py', 'BlockParser.parseDocument', 'Model/Block'),
    ('markdown/blockparser.py', 'State', 'Model/Block'),
] + [('markdown/blockprocessors.py', c, 'Model/Block') for c in
     ['BlockProcessor', 'ListIndentProcessor', 'CodeBlockProcessor', 'BlockQuoteProcessor', 'OListProcessor',
      'UListProcessor', 'HashHeaderProcessor', 'SetextHeaderProcessor', 'HRProcessor', 'EmptyBlockProcessor',
      'ReferenceProcessor', 'ParagraphProcessor']] + [
    ('markdown/treeprocessors.py', 'InlineProcessor', 'Model/Inline'),
    ('markdown/treeprocessors.py', 'PrettifyTreeprocessor', 'Model/TreeProc'),
    ('markdown/treeprocessors.py', 'UnescapeTreeprocessor', 'Model/TreeProc'),
] + [('markdown/inlinepatterns.py', c, 'Model/Inline') for c in
     ['Pattern', 'InlineProcessor', 'SimpleTextInlineProcessor', 'EscapeInlineProcessor', 'SubstituteTagInlineProcessor',
      'BacktickInlineProcessor', 'HtmlInlineProcessor', 'AsteriskProcessor', 'UnderscoreProcessor', 'LinkInlineProcessor',
      'ImageInlineProcessor', 'ReferenceInlineProcessor', 'ShortReferenceInlineProcessor', 'ImageReferenceInlineProcessor',
      'ShortImageReferenceInlineProcessor', 'AutolinkInlineProcessor', 'AutomailInlineProcessor']] + [
    ('markdown/postprocessors.py', 'RawHtmlPostprocessor', 'Model/Post'),
    ('markdown/postprocessors.py', 'AndSubstitutePostprocessor', 'Model/Post'),
    ('markdown/htmlparser.py', 'HTMLExtractor', 'Model/Extract'),
    ('markdown/extensions/toc.py', 'unique', 'Model/Toc'),
    ('markdown/extensions/toc.py', 'nest_toc_tokens', 'Model/Toc'),
    ('markdown/extensions/tables.py', 'TableProcessor', 'Model/Tables'),
    ('markdown/extensions/footnotes.py', 'FootnoteExtension', 'Model/Footnotes'),
    ('markdown/extensions/__init__.py', 'Extension', 'Model/Config'),
    ('markdown/__main__.py', 'parse_options', 'Model/Cli'),
]


def normalize_steps(src, report):
    """shape of NormalizeWhitespace.run as a list of recognised step names"""
    fn = find_def(src.tree('markdown/preprocessors.py'), 'NormalizeWhitespace.run')
    if fn is None:
        report.append('translator-mismatch:NormalizeWhitespace.run missing'); return []
    steps = []
    def calls(expr):
        """flatten a method-call chain / binop on `source` into step names, innermost first"""
        if isinstance(expr, ast.Name) and expr.id == 'source': return []
        if isinstance(expr, ast.BinOp) and isinstance(expr.op, ast.Add) and isinstance(expr.right, ast.Constant):
            inner = calls(expr.left)
            if expr.right.value == '\n\n': return inner + ['append2nl']
            raise Mismatch('append ' + repr(expr.right.value))
        if (isinstance(expr, ast.Call) and ast.unparse(expr.func) == 're.sub' and len(expr.args) == 3
                and ast.unparse(expr.args[2]) == 'source'):
            pat, rep = expr.args[0], expr.args[1]
            if isinstance(pat, ast.Constant) and isinstance(rep, ast.Constant):
                if (pat.value, rep.value) == (r'(?<=\n) +\n', '\n'): return ['wsLine']
                raise Mismatch('re.sub%r' % ((pat.value, rep.value),))
        if isinstance(expr, ast.Call) and isinstance(expr.func, ast.Attribute):
            m = expr.func.attr
            a = [ast.unparse(x) for x in expr.args]
            if m == 'join' and ast.unparse(expr.func.value) == "'\\n'" and a == ['lines']: return ['joinLines']
            inner = calls(expr.func.value)
            if m == 'replace':
                key = (a[0], a[1])
                table = {("util.STX", "''"): 'stripStx', ("util.ETX", "''"): 'stripEtx',
                         ("'\\r\\n'", "'\\n'"): 'crlf', ("'\\r'", "'\\n'"): 'cr'}
                if key in table: return inner + [table[key]]
                raise Mismatch('replace%r' % (key,))
            if m == 'expandtabs' and a == ['self.md.tab_length']: return inner + ['expandtabs']
            if m == 'join' and ast.unparse(expr.func.value) == "'\\n'" and a == ['lines']: return ['joinLines']
            if m == 'split' and a == ["'\\n'"]: return inner + ['splitLines']
            raise Mismatch('call ' + m)
        raise Mismatch('stmt ' + ast.unparse(expr)[:50])
    try:
        for st in fn.body:
            if isinstance(st, ast.Expr) and isinstance(st.value, ast.Constant): continue
            if isinstance(st, ast.Assign) and ast.unparse(st.targets[0]) == 'source': steps += calls(st.value)
            elif isinstance(st, ast.Return): steps += calls(st.value)
            else: raise Mismatch('stmt ' + ast.unparse(st)[:50])
    except Mismatch as e:
        report.append('translator-mismatch:NormalizeWhitespace.run ' + str(e)); return []
    return steps


def regex_table(src):
    """module- and class-level regular expression texts: (file, name, text, flags-source)"""
    out = []
    files = ['markdown/inlinepatterns.py', 'markdown/blockprocessors.py', 'markdown/treeprocessors.py',
             'markdown/postprocessors.py', 'markdown/serializers.py', 'markdown/util.py', 'markdown/htmlparser.py',
             'markdown/preprocessors.py'] + ['markdown/extensions/%s.py' % e for e in EXT_FILES]
    for rel in files:
        tree = src.tree(rel)
        env = {'NOIMG': r'(?<!\!)'}
        def scan(body, prefix):
            for st in body:
                if isinstance(st, ast.ClassDef): scan(st.body, prefix + st.name + '.')
                tgt = val = None
                if isinstance(st, ast.Assign) and len(st.targets) == 1 and isinstance(st.targets[0], ast.Name):
                    tgt, val = st.targets[0].id, st.value
                elif isinstance(st, ast.AnnAssign) and isinstance(st.target, ast.Name) and st.value is not None:
                    tgt, val = st.target.id, st.value
                if tgt is None: continue
                flags = ''
                if isinstance(val, ast.Call) and ast.unparse(val.func) == 're.compile' and val.args:
                    flags = ', '.join(ast.unparse(a) for a in val.args[1:]) + ''.join(', %s=%s' % (k.arg, ast.unparse(k.value)) for k in val.keywords)
                    val = val.args[0]
                    is_re = True
                else:
                    is_re = tgt.endswith('_RE') or tgt == 'RE' or tgt.endswith('_REGEX')
                try: v = const_eval(val, env)
                except Mismatch: continue
                if isinstance(v, str):
                    env[tgt] = v
                    if is_re: out.append((rel, prefix + tgt, v, flags))
        scan(tree.body, '')
    return out


def ext_config_defaults(src, report):
    """for each bundled extension: class name, makeExtension target, config keys with the python type of the default"""
    res = []
    for e in EXT_FILES:
        rel = 'markdown/extensions/%s.py' % e
        tree = src.tree(rel)
        mk = find_def(tree, 'makeExtension')
        target = None
        if mk is not None:
            for n in ast.walk(mk):
                if isinstance(n, ast.Return) and isinstance(n.value, ast.Call) and isinstance(n.value.func, ast.Name):
                    target = n.value.func.id
        if target is None:
            report.append('translator-mismatch:makeExtension of ' + e); continue
        cls = find_def(tree, target)
        keys = []
        if cls is not None:
            for n in ast.walk(cls):
                if (isinstance(n, ast.Assign) and ast.unparse(n.targets[0]) in ('self.config', 'config')
                        and isinstance(n.value, ast.Dict)):
                    for k, v in zip(n.value.keys, n.value.values):
                        if not (isinstance(k, ast.Constant) and isinstance(v, ast.List) and v.elts): continue
                        d = v.elts[0]
                        if isinstance(d, ast.Constant):
                            ty = 'none' if d.value is None else type(d.value).__name__
                        else: ty = 'other'
                        keys.append((k.value, ty))
        res.append((e, target, keys))
    return res


def entry_points(src, report):
    """[project.entry-points."markdown.extensions"] of pyproject.toml"""
    eps = []
    try:
        import tomllib
        with open(os.path.join(src.repo, 'pyproject.toml'), 'rb') as f:
            data = tomllib.load(f)
        for k, v in data['project']['entry-points']['markdown.extensions'].items():
            eps.append((k, v))
    except Exception as e:
        report.append('translator-mismatch:pyproject entry points ' + repr(e))
    return eps


def gen_tables(src, report):
    util_env = module_consts(src.tree('markdown/util.py'))
    need = ['STX', 'ETX', 'INLINE_PLACEHOLDER_PREFIX', 'INLINE_PLACEHOLDER', 'AMP_SUBSTITUTE', 'HTML_PLACEHOLDER',
            'TAG_PLACEHOLDER', 'BLOCK_LEVEL_ELEMENTS']
    for n in need:
        if n not in util_env:
            report.append('translator-mismatch:util.' + n); util_env[n] = [] if n == 'BLOCK_LEVEL_ELEMENTS' else ''
    fn_env = module_consts(src.tree('markdown/extensions/footnotes.py'), util_env)
    for n in ['FN_BACKLINK_TEXT', 'NBSP_PLACEHOLDER']:
        if n not in fn_env:
            report.append('translator-mismatch:footnotes.' + n); fn_env[n] = ''
    # ESCAPED_CHARS and block_level_elements of Markdown.__init__
    init = find_def(src.tree('markdown/core.py'), 'Markdown.__init__')
    esc = None; ble_from_util = False
    if init is not None:
        for n in ast.walk(init):
            tgt = val = None
            if isinstance(n, ast.Assign): tgt, val = ast.unparse(n.targets[0]), n.value
            elif isinstance(n, ast.AnnAssign) and n.value is not None: tgt, val = ast.unparse(n.target), n.value
            if tgt == 'self.ESCAPED_CHARS':
                try: esc = const_eval(val, {})
                except Mismatch: pass
            if tgt == 'self.block_level_elements' and ast.unparse(val) == 'BLOCK_LEVEL_ELEMENTS.copy()':
                ble_from_util = True
    if esc is None or not all(isinstance(c, str) and len(c) == 1 for c in esc):
        report.append('translator-mismatch:Markdown.ESCAPED_CHARS'); esc = []
    if not ble_from_util:
        report.append('translator-mismatch:Markdown.block_level_elements')
    # ESCAPED_CHARS extended by extensions
    ext_esc = []
    for e in EXT_FILES:
        for n in ast.walk(src.tree('markdown/extensions/%s.py' % e)):
            if isinstance(n, ast.Call) and ast.unparse(n.func) in ('md.ESCAPED_CHARS.append', 'md.ESCAPED_CHARS.extend'):
                try:
                    v = const_eval(n.args[0], {})
                    ext_esc.append((e, v if isinstance(v, list) else [v]))
                except Mismatch:
                    report.append('translator-mismatch:ESCAPED_CHARS in ' + e)
    from xml.etree.ElementTree import HTML_EMPTY
    # registries
    regs = []
    for rel, fn, regname in CORE_BUILDERS:
        f = find_def(src.tree(rel), fn)
        if f is None:
            report.append('translator-mismatch:' + fn); continue
        for scope, reg, nm, p, item in registrations(f):
            if nm is None or p is None or int(p) != p:
                report.append('translator-mismatch:%s registration %r' % (fn, nm)); continue
            regs.append(('core', regname, nm, int(p), item))
    for e in EXT_FILES:
        for scope, reg, nm, p, item in registrations(src.tree('markdown/extensions/%s.py' % e)):
            regname = reg.split('.')[-1]
            if nm is None: continue           # smarty registers computed names: not modelled
            if p is None or int(p) != p: continue
            regs.append((e, regname, nm, int(p), item))
    steps = normalize_steps(src, report)
    rex = regex_table(src)
    exts = ext_config_defaults(src, report)
    eps = entry_points(src, report)
    # extra.extensions
    extra = []
    for st in src.tree('markdown/extensions/extra.py').body:
        if isinstance(st, ast.Assign) and ast.unparse(st.targets[0]) == 'extensions':
            try: extra = const_eval(st.value, {})
            except Mismatch: report.append('translator-mismatch:extra.extensions')
    # output formats
    ofs = []
    cls = find_def(src.tree('markdown/core.py'), 'Markdown')
    for st in (cls.body if cls else []):
        if isinstance(st, ast.AnnAssign) and ast.unparse(st.target) == 'output_formats' and isinstance(st.value, ast.Dict):
            ofs = [(k.value, ast.unparse(v)) for k, v in zip(st.value.keys, st.value.values)]
    if not ofs: report.append('translator-mismatch:Markdown.output_formats')
    # convert(): order of pipeline stages, as the sequence of registries iterated / calls made
    conv = find_def(src.tree('markdown/core.py'), 'Markdown.convert')
    stages = []
    if conv is not None:
        class V(ast.NodeVisitor):
            def visit_For(s, n):
                it = ast.unparse(n.iter)
                if it.startswith('self.') and it.split('.')[1] in ('preprocessors', 'treeprocessors', 'postprocessors'):
                    stages.append('for:' + it.split('.')[1])
                s.generic_visit(n)
            def visit_Call(s, n):
                f = ast.unparse(n.func)
                if f in ('self.parser.parseDocument', 'self.serializer', 'source.strip', 'output.strip', 'source.split'):
                    stages.append('call:' + f)
                s.generic_visit(n)
        V().visit(conv)
    else:
        report.append('translator-mismatch:Markdown.convert')

    L = ['/- GENERATED by harness/translate.py from the working tree of the repository. Do not edit. -/',
         'namespace MdVerif.Generated', '']
    def sdef(name, val, doc=None):
        if doc: L.append('/-- %s -/' % doc)
        L.append('def %s : String := %s' % (name, lean_str(val)))
    sdef('stx', util_env['STX']); sdef('etx', util_env['ETX'])
    sdef('inlinePlaceholderPrefix', util_env['INLINE_PLACEHOLDER_PREFIX'])
    sdef('inlinePlaceholder', util_env['INLINE_PLACEHOLDER'], '`%s` marks the id')
    sdef('ampSubstitute', util_env['AMP_SUBSTITUTE'])
    sdef('htmlPlaceholder', util_env['HTML_PLACEHOLDER'])
    sdef('tagPlaceholder', util_env['TAG_PLACEHOLDER'])
    sdef('fnBacklinkText', fn_env['FN_BACKLINK_TEXT'])
    sdef('nbspPlaceholder', fn_env['NBSP_PLACEHOLDER'])
    L.append('')
    L.append('/-- `Markdown.ESCAPED_CHARS` as assigned in `Markdown.__init__` -/')
    L.append('def escapedChars : List Char := ' + lean_list([lean_char(c) for c in esc], 16))
    L.append('/-- characters appended to `ESCAPED_CHARS` by bundled extensions -/')
    L.append('def extEscapedChars : List (String × List Char) := ' +
             lean_list(['(%s, [%s])' % (lean_str(e), ', '.join(lean_char(c) for c in v)) for e, v in ext_esc], 4))
    L.append('/-- `util.BLOCK_LEVEL_ELEMENTS` (copied per instance by `Markdown.__init__`: %s) -/' % ble_from_util)
    L.append('def blockLevelElements : List String := ' + lean_list([lean_str(s) for s in util_env['BLOCK_LEVEL_ELEMENTS']], 8))
    L.append('def blockLevelFromUtil : Bool := ' + ('true' if ble_from_util else 'false'))
    L.append('/-- `xml.etree.ElementTree.HTML_EMPTY` of the running CPython -/')
    L.append('def htmlEmpty : List String := ' + lean_list([lean_str(s) for s in sorted(HTML_EMPTY)], 8))
    L.append('')
    L.append('/-- every constant-priority registration: (origin, registry, name, priority, item expression) -/')
    L.append('def registrations : List (String × String × String × Int × String) := ' +
             lean_list(['(%s, %s, %s, %d, %s)' % (lean_str(o), lean_str(r), lean_str(n), p, lean_str(it)) for o, r, n, p, it in regs], 1))
    L.append('')
    L.append('/-- recognised statement shape of `NormalizeWhitespace.run` -/')
    L.append('def normalizeSteps : List String := ' + lean_list([lean_str(s) for s in steps], 8))
    L.append('/-- stage order of `Markdown.convert` -/')
    L.append('def convertStages : List String := ' + lean_list([lean_str(s) for s in stages], 4))
    L.append('')
    L.append('/-- regular expression source texts: (file, name, text, flags) -/')
    L.append('def regexes : List (String × String × String × String) := ' +
             lean_list(['(%s, %s, %s, %s)' % tuple(lean_str(x) for x in r) for r in rex], 1))
    L.append('')
    L.append('/-- bundled extensions: (module, class returned by makeExtension, [(config key, python type of default)]) -/')
    L.append('def extensions : List (String × String × List (String × String)) := ' +
             lean_list(['(%s, %s, [%s])' % (lean_str(e), lean_str(c), ', '.join('(%s, %s)' % (lean_str(k), lean_str(t)) for k, t in ks))
                        for e, c, ks in exts], 1))
    L.append('/-- entry points of pyproject.toml: (short name, module:Class) -/')
    L.append('def entryPoints : List (String × String) := ' + lean_list(['(%s, %s)' % (lean_str(k), lean_str(v)) for k, v in eps], 2))
    L.append('def extraExtensions : List String := ' + lean_list([lean_str(s) for s in extra], 8))
    L.append('def outputFormats : List (String × String) := ' + lean_list(['(%s, %s)' % (lean_str(k), lean_str(v)) for k, v in ofs], 4))
    L.append('')
    L.append('end MdVerif.Generated'); L.append('')
    return '\n'.join(L), {'regexes': rex, 'registrations': regs, 'normalize_steps': steps, 'escaped': esc,
                          'ext_escaped': ext_esc, 'extensions': exts, 'entry_points': eps, 'extra': extra}


def model_map(src, report):
    m = []
    for rel, qual, lean in MODEL_MAP:
        try: node = find_def(src.tree(rel), qual)
        except (FileNotFoundError, SyntaxError): node = None
        if node is None:
            report.append('translator-mismatch:%s %s missing' % (rel, qual)); h = None
        else: h = norm_hash(node)
        m.append({'file': rel, 'name': qual, 'lean': lean, 'ast_hash': h})
    return m


def run(repo=None, write=True):
    """returns a dict: {'changed': [...], 'report': [...], 'tables': {...}, 'model_map': [...]}"""
    repo = repo or os.environ.get('VERIF_REPO', '/repo')
    src = Src(repo)
    report = []
    try:
        tables, info = gen_tables(src, report)
    except (SyntaxError, FileNotFoundError) as e:
        report.append('translator-mismatch:cannot parse repository: %r' % (e,))
        tables, info = None, {}
    mm = model_map(src, report) if tables is not None else []
    changed = []
    if write:
        if write_if_changed(os.path.join(OUT_DIR, 'Chars.lean'), gen_chars()): changed.append('Chars.lean')
        if tables is not None and write_if_changed(os.path.join(OUT_DIR, 'Tables.lean'), tables): changed.append('Tables.lean')
        os.makedirs(os.path.dirname(MAP_OUT), exist_ok=True)
        write_if_changed(MAP_OUT, json.dumps({'repo': repo, 'report': report, 'model_map': mm}, indent=1, sort_keys=True))
    return {'changed': changed, 'report': report, 'info': info, 'model_map': mm}


if __name__ == '__main__':
    r = run()
    print(json.dumps({'changed': r['changed'], 'report': r['report']}))
