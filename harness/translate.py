#!/venv/bin/python
"""Translator: /repo working tree  ->  lean/MdVerif/Generated/{Chars,Tables,Census}.lean  (+ generated/model_map.json)

Everything is read from the *source text* of the repository with `ast` (nothing under /repo is imported by
this step), except the Unicode character classes and `HTML_EMPTY`, which come from the running CPython /
xml.etree (the substrate the implementation runs on).  The output files are replaced only when their content
changes, so that `lake` rebuilds exactly what depends on what changed.

If an expected definition is missing or has an unrecognised shape the translator does not guess: it records
`translator-mismatch:<what>` in the returned report (and in model_map.json) and emits a neutral value, so that the
proofs that depend on it fail and the check goes on to the failing-input search.
"""
from __future__ import annotations
import ast, hashlib, json, os, re, sys

VERIF = os.path.dirname(os.path.dirname(os.path.abspath(__file__)))
REPO = os.environ.get('VERIF_REPO', '/repo')
OUT_DIR = os.path.join(VERIF, 'lean', 'MdVerif', 'Generated')
MAP_OUT = os.path.join(VERIF, 'generated', 'model_map.json')


# --------------------------------------------------------------------------------------- helpers
def lean_str(s: str) -> str:
    out = ['"']
    for ch in s:
        o = ord(ch)
        if ch == '"': out.append('\\"')
        elif ch == '\\': out.append('\\\\')
        elif ch == '\n': out.append('\\n')
        elif ch == '\t': out.append('\\t')
        elif ch == '\r': out.append('\\r')
        elif o < 32 or o == 127: out.append('\\x%02x' % o)
        else: out.append(ch)
    out.append('"')
    return ''.join(out)


def lean_char(ch: str) -> str:
    o = ord(ch)
    if ch == "'": return "'\\''"
    if ch == '\\': return "'\\\\'"
    if ch == '\n': return "'\\n'"
    if ch == '\t': return "'\\t'"
    if ch == '\r': return "'\\r'"
    if o < 32 or o == 127: return "'\\x%02x'" % o
    return "'%s'" % ch


def lean_chars(s: str) -> str:
    """a `List Char` literal (the kernel evaluates these directly; `String.toList` of a literal is slow under `decide`)"""
    return '[' + ', '.join(lean_char(c) for c in s) + ']'


def lean_list(items, per_line=8, indent='  '):
    items = list(items)
    if not items: return '[]'
    lines = []
    for i in range(0, len(items), per_line):
        lines.append(indent + ', '.join(items[i:i + per_line]))
    return '[\n' + ',\n'.join(lines) + ']'


def lean_big_def(name, ty, items, doc=None, chunk=64, per_line=6):
    """a long list literal, split into chunks so that the elaborator's recursion depth is not exceeded"""
    items = list(items)
    L = []
    names = []
    for i in range(0, max(len(items), 1), chunk):
        nm = '%s_%d' % (name, i // chunk); names.append(nm)
        L.append('def %s : List (%s) := %s' % (nm, ty, lean_list(items[i:i + chunk], per_line)))
    if doc: L.append('/-- %s -/' % doc)
    L.append('def %s : List (%s) := %s' % (name, ty, ' ++ '.join(names)))
    return '\n'.join(L)


def write_if_changed(path, content):
    os.makedirs(os.path.dirname(path), exist_ok=True)
    try:
        with open(path, encoding='utf-8') as f:
            if f.read() == content: return False
    except FileNotFoundError:
        pass
    tmp = path + '.tmp%d' % os.getpid()
    with open(tmp, 'w', encoding='utf-8') as f: f.write(content)
    os.replace(tmp, path)
    return True


def ranges(l):
    r = []; s = p = None
    for c in l:
        if s is None: s = p = c
        elif c == p + 1: p = c
        else: r.append((s, p)); s = p = c
    if s is not None: r.append((s, p))
    return r


class Mismatch(Exception):
    pass


class Src:
    """parsed modules of the repository, by relative path"""
    def __init__(self, repo):
        self.repo = repo; self.cache = {}
    def tree(self, rel):
        if rel not in self.cache:
            with open(os.path.join(self.repo, rel), encoding='utf-8') as f:
                self.cache[rel] = ast.parse(f.read(), rel)
        return self.cache[rel]


def const_eval(node, env):
    """evaluate the tiny constant language used for the placeholder constants"""
    if isinstance(node, ast.Constant): return node.value
    if isinstance(node, ast.Name):
        if node.id in env: return env[node.id]
        raise Mismatch('name ' + node.id)
    if isinstance(node, ast.Attribute) and isinstance(node.value, ast.Name) and node.value.id == 'util':
        if node.attr in env: return env[node.attr]
        raise Mismatch('util.' + node.attr)
    if isinstance(node, ast.BinOp) and isinstance(node.op, ast.Add):
        return const_eval(node.left, env) + const_eval(node.right, env)
    if isinstance(node, ast.BinOp) and isinstance(node.op, ast.Mod):
        return const_eval(node.left, env) % const_eval(node.right, env)
    if isinstance(node, ast.List):
        return [const_eval(e, env) for e in node.elts]
    if isinstance(node, ast.UnaryOp) and isinstance(node.op, ast.USub):
        return -const_eval(node.operand, env)
    if isinstance(node, ast.JoinedStr):
        return ''.join(const_eval(v.value if isinstance(v, ast.FormattedValue) else v, env) for v in node.values)
    raise Mismatch('expr ' + ast.dump(node)[:60])


def module_consts(tree, env=None):
    env = dict(env or {})
    for st in tree.body:
        tgt = val = None
        if isinstance(st, ast.Assign) and len(st.targets) == 1 and isinstance(st.targets[0], ast.Name):
            tgt, val = st.targets[0].id, st.value
        elif isinstance(st, ast.AnnAssign) and isinstance(st.target, ast.Name) and st.value is not None:
            tgt, val = st.target.id, st.value
        if tgt is None: continue
        try: env[tgt] = const_eval(val, env)
        except Mismatch: pass
    return env


def norm_hash(node) -> str:
    return hashlib.sha256(ast.dump(node, annotate_fields=False, include_attributes=False).encode()).hexdigest()[:16]


def find_def(tree, qual):
    parts = qual.split('.')
    body = tree.body
    node = None
    for p in parts:
        node = None
        for st in body:
            if isinstance(st, (ast.FunctionDef, ast.ClassDef)) and st.name == p:
                node = st; break
        if node is None: return None
        body = node.body
    return node


def registrations(tree):
    """every `<expr>.register(<item>, '<name>', <prio>)` call: (scope, registry expr, name, priority|None)"""
    res = []
    class V(ast.NodeVisitor):
        def __init__(s): s.scope = []
        def visit_FunctionDef(s, n): s.scope.append(n.name); s.generic_visit(n); s.scope.pop()
        def visit_ClassDef(s, n): s.scope.append(n.name); s.generic_visit(n); s.scope.pop()
        def visit_Call(s, n):
            if isinstance(n.func, ast.Attribute) and n.func.attr == 'register' and len(n.args) == 3:
                name = n.args[1]; pr = n.args[2]
                nm = name.value if isinstance(name, ast.Constant) and isinstance(name.value, str) else None
                try: p = const_eval(pr, {})
                except Mismatch: p = None
                if not isinstance(p, (int, float)): p = None
                reg = ast.unparse(n.func.value)
                item = ast.unparse(n.args[0])
                res.append(('.'.join(s.scope), reg, nm, p, item))
            s.generic_visit(n)
    V().visit(tree)
    return res


# --------------------------------------------------------------------------------------- Chars
def gen_chars():
    ws = [c for c in range(0x110000) if chr(c).isspace()]
    sur = lambda c: 0xD800 <= c <= 0xDFFF
    ws_re = [c for c in range(0x110000) if not sur(c) and re.match(r'\s', chr(c))]
    assert ws == ws_re, 'str.isspace and \\s differ'
    dec = [c for c in range(0x110000) if chr(c).isdecimal()]
    dec_re = [c for c in range(0x110000) if not sur(c) and re.match(r'\d', chr(c))]
    assert dec == dec_re
    for a, b in ranges(dec):
        assert all(int(chr(c)) == (c - a) % 10 for c in range(a, b + 1)), 'decimal ranges are not 0..9 blocks'
    w = [c for c in range(0x110000) if chr(c).isalnum() or c == 95]
    w_re = [c for c in range(0x110000) if not sur(c) and re.match(r'\w', chr(c))]
    assert w == w_re
    low = [(c, chr(c).lower()) for c in range(128, 0x110000) if not sur(c) and chr(c).lower() != chr(c)]
    L = ['/- GENERATED by harness/translate.py from the running CPython (%s). Do not edit. -/' % sys.version.split()[0],
         'namespace MdVerif.Generated.Chars', '',
         lean_big_def('spaceNonAscii', 'Nat', [str(c) for c in ws if c >= 128], 'non-ASCII code points with `str.isspace()` (= `\\s`)', per_line=12), '',
         lean_big_def('decimalNonAscii', 'Nat × Nat', ['(%d, %d)' % r for r in ranges([c for c in dec if c >= 128])],
                      'non-ASCII ranges of `str.isdecimal()` (= `\\d`); every range starts at a zero digit'), '',
         lean_big_def('wordNonAscii', 'Nat × Nat', ['(%d, %d)' % r for r in ranges([c for c in w if c >= 128])],
                      'non-ASCII ranges of `str.isalnum()` (with `_`: `\\w`)'), '',
         lean_big_def('lowerNonAscii', 'Nat × List Nat', ['(%d, [%s])' % (c, ', '.join(str(ord(x)) for x in s)) for c, s in low],
                      'non-ASCII characters changed by `str.lower()` (context-free part; U+03A3 final sigma is outside the domain)'), '',
         'end MdVerif.Generated.Chars', '']
    return '\n'.join(L)


# --------------------------------------------------------------------------------------- Tables
CORE_BUILDERS = [
    ('markdown/preprocessors.py', 'build_preprocessors', 'preprocessors'),
    ('markdown/blockprocessors.py', 'build_block_parser', 'blockprocessors'),
    ('markdown/inlinepatterns.py', 'build_inlinepatterns', 'inlinePatterns'),
    ('markdown/treeprocessors.py', 'build_treeprocessors', 'treeprocessors'),
    ('markdown/postprocessors.py', 'build_postprocessors', 'postprocessors'),
]
EXT_FILES = ['abbr', 'admonition', 'attr_list', 'codehilite', 'def_list', 'extra', 'fenced_code', 'footnotes',
             'legacy_attrs', 'legacy_em', 'md_in_html', 'meta', 'nl2br', 'sane_lists', 'smarty', 'tables', 'toc',
             'wikilinks']

# functions mirrored by Lean definitions: (python file, qualified name, lean module)
MODEL_MAP = [
    ('markdown/util.py', 'Registry', 'Model/Registry'),
    ('markdown/util.py', 'HtmlStash', 'Model/Post'),
    ('markdown/util.py', 'code_escape', 'Model/Block'),
    ('markdown/util.py', 'parseBoolValue', 'Model/Config'),
    ('markdown/serializers.py', '_escape_cdata', 'Model/Serializer'),
    ('markdown/serializers.py', '_escape_attrib', 'Model/Serializer'),
    ('markdown/serializers.py', '_escape_attrib_html', 'Model/Serializer'),
    ('markdown/serializers.py', '_serialize_html', 'Model/Serializer'),
    ('markdown/preprocessors.py', 'NormalizeWhitespace.run', 'Model/Normalize'),
    ('markdown/preprocessors.py', 'HtmlBlockPreprocessor.run', 'Model/Extract'),
    ('markdown/core.py', 'Markdown.convert', 'Model/Pipeline'),
    ('markdown/core.py', 'Markdown.reset', 'Model/Instance'),
    ('markdown/core.py', 'Markdown.build_extension', 'Model/Config'),
    ('markdown/core.py', 'Markdown.convertFile', 'Model/Codec'),
    ('markdown/blockparser.py', 'BlockParser.parseBlocks', 'Model/Block'),
    ('markdown/blockparser.py', 'BlockParser.parseChunk', 'Model/Block'),
    ('markdown/blockparser.py', 'BlockParser.parseDocument', 'Model/Block'),
    ('markdown/blockparser.py', 'State', 'Model/Block'),
] + [('markdown/blockprocessors.py', c, 'Model/Block') for c in
     ['BlockProcessor', 'ListIndentProcessor', 'CodeBlockProcessor', 'BlockQuoteProcessor', 'OListProcessor',
      'UListProcessor', 'HashHeaderProcessor', 'SetextHeaderProcessor', 'HRProcessor', 'EmptyBlockProcessor',
      'ReferenceProcessor', 'ParagraphProcessor']] + [
    ('markdown/treeprocessors.py', 'InlineProcessor', 'Model/Inline'),
    ('markdown/treeprocessors.py', 'PrettifyTreeprocessor', 'Model/TreeProc'),
    ('markdown/treeprocessors.py', 'UnescapeTreeprocessor', 'Model/TreeProc'),
] + [('markdown/inlinepatterns.py', c, 'Model/Inline') for c in
     ['Pattern', 'InlineProcessor', 'SimpleTextInlineProcessor', 'EscapeInlineProcessor', 'SubstituteTagInlineProcessor',
      'BacktickInlineProcessor', 'HtmlInlineProcessor', 'AsteriskProcessor', 'UnderscoreProcessor', 'LinkInlineProcessor',
      'ImageInlineProcessor', 'ReferenceInlineProcessor', 'ShortReferenceInlineProcessor', 'ImageReferenceInlineProcessor',
      'ShortImageReferenceInlineProcessor', 'AutolinkInlineProcessor', 'AutomailInlineProcessor']] + [
    ('markdown/postprocessors.py', 'RawHtmlPostprocessor', 'Model/Post'),
    ('markdown/postprocessors.py', 'AndSubstitutePostprocessor', 'Model/Post'),
    ('markdown/htmlparser.py', 'HTMLExtractor', 'Model/Extract'),
    ('markdown/extensions/toc.py', 'unique', 'Model/Toc'),
    ('markdown/extensions/toc.py', 'nest_toc_tokens', 'Model/Toc'),
    ('markdown/extensions/tables.py', 'TableProcessor', 'Model/Tables'),
    ('markdown/extensions/footnotes.py', 'FootnoteExtension', 'Model/Footnotes'),
    ('markdown/extensions/__init__.py', 'Extension', 'Model/Config'),
    ('markdown/__main__.py', 'parse_options', 'Model/Cli'),
    ('markdown/core.py', 'Markdown.registerExtensions', 'Model/Config'),
    ('markdown/core.py', 'markdownFromFile', 'Model/Codec'),
    ('markdown/util.py', 'get_installed_extensions', 'Model/Config'),
    ('markdown/extensions/codehilite.py', 'CodeHiliteExtension.__init__', 'Model/Config'),
    ('markdown/extensions/extra.py', 'ExtraExtension', 'Model/Config'),
]


def normalize_steps(src, report):
    """shape of NormalizeWhitespace.run as a list of recognised step names"""
    fn = find_def(src.tree('markdown/preprocessors.py'), 'NormalizeWhitespace.run')
    if fn is None:
        report.append('translator-mismatch:NormalizeWhitespace.run missing'); return []
    steps = []
    def calls(expr):
        """flatten a method-call chain / binop on `source` into step names, innermost first"""
        if isinstance(expr, ast.Name) and expr.id == 'source': return []
        if isinstance(expr, ast.BinOp) and isinstance(expr.op, ast.Add) and isinstance(expr.right, ast.Constant):
            inner = calls(expr.left)
            if expr.right.value == '\n\n': return inner + ['append2nl']
            raise Mismatch('append ' + repr(expr.right.value))
        if (isinstance(expr, ast.Call) and ast.unparse(expr.func) == 're.sub' and len(expr.args) == 3
                and ast.unparse(expr.args[2]) == 'source'):
            pat, rep = expr.args[0], expr.args[1]
            if isinstance(pat, ast.Constant) and isinstance(rep, ast.Constant):
                if (pat.value, rep.value) == (r'(?<![^\n]) +\n', '\n'): return ['wsLine']   # since the repair of F-C09-1 (was `(?<=\\n) +\\n`)
                raise Mismatch('re.sub%r' % ((pat.value, rep.value),))
        if isinstance(expr, ast.Call) and isinstance(expr.func, ast.Attribute):
            m = expr.func.attr
            a = [ast.unparse(x) for x in expr.args]
            if m == 'join' and ast.unparse(expr.func.value) == "'\\n'" and a == ['lines']: return ['joinLines']
            inner = calls(expr.func.value)
            if m == 'replace':
                key = (a[0], a[1])
                table = {("util.STX", "''"): 'stripStx', ("util.ETX", "''"): 'stripEtx',
                         ("'\\r\\n'", "'\\n'"): 'crlf', ("'\\r'", "'\\n'"): 'cr'}
                if key in table: return inner + [table[key]]
                raise Mismatch('replace%r' % (key,))
            if m == 'expandtabs' and a == ['self.md.tab_length']: return inner + ['expandtabs']
            if m == 'join' and ast.unparse(expr.func.value) == "'\\n'" and a == ['lines']: return ['joinLines']
            if m == 'split' and a == ["'\\n'"]: return inner + ['splitLines']
            raise Mismatch('call ' + m)
        raise Mismatch('stmt ' + ast.unparse(expr)[:50])
    try:
        for st in fn.body:
            if isinstance(st, ast.Expr) and isinstance(st.value, ast.Constant): continue
            if isinstance(st, ast.Assign) and ast.unparse(st.targets[0]) == 'source': steps += calls(st.value)
            elif isinstance(st, ast.Return): steps += calls(st.value)
            else: raise Mismatch('stmt ' + ast.unparse(st)[:50])
    except Mismatch as e:
        report.append('translator-mismatch:NormalizeWhitespace.run ' + str(e)); return []
    return steps


def regex_table(src):
    """module- and class-level regular expression texts: (file, name, text, flags-source)"""
    out = []
    files = ['markdown/inlinepatterns.py', 'markdown/blockprocessors.py', 'markdown/treeprocessors.py',
             'markdown/postprocessors.py', 'markdown/serializers.py', 'markdown/util.py', 'markdown/htmlparser.py',
             'markdown/preprocessors.py'] + ['markdown/extensions/%s.py' % e for e in EXT_FILES]
    for rel in files:
        tree = src.tree(rel)
        env = {'NOIMG': r'(?<!\!)'}
        def scan(body, prefix):
            for st in body:
                if isinstance(st, ast.ClassDef): scan(st.body, prefix + st.name + '.')
                tgt = val = None
                if isinstance(st, ast.Assign) and len(st.targets) == 1 and isinstance(st.targets[0], ast.Name):
                    tgt, val = st.targets[0].id, st.value
                elif isinstance(st, ast.AnnAssign) and isinstance(st.target, ast.Name) and st.value is not None:
                    tgt, val = st.target.id, st.value
                if tgt is None: continue
                flags = ''
                if isinstance(val, ast.Call) and ast.unparse(val.func) == 're.compile' and val.args:
                    flags = ', '.join(ast.unparse(a) for a in val.args[1:]) + ''.join(', %s=%s' % (k.arg, ast.unparse(k.value)) for k in val.keywords)
                    val = val.args[0]
                    is_re = True
                else:
                    is_re = tgt.endswith('_RE') or tgt == 'RE' or tgt.endswith('_REGEX')
                try: v = const_eval(val, env)
                except Mismatch: continue
                if isinstance(v, str):
                    env[tgt] = v
                    if is_re: out.append((rel, prefix + tgt, v, flags))
        scan(tree.body, '')
    return out


def ext_config_defaults(src, report):
    """for each bundled extension: class name, makeExtension target, config keys with the python type of the default"""
    res = []
    for e in EXT_FILES:
        rel = 'markdown/extensions/%s.py' % e
        tree = src.tree(rel)
        mk = find_def(tree, 'makeExtension')
        target = None
        if mk is not None:
            for n in ast.walk(mk):
                if isinstance(n, ast.Return) and isinstance(n.value, ast.Call) and isinstance(n.value.func, ast.Name):
                    target = n.value.func.id
        if target is None:
            report.append('translator-mismatch:makeExtension of ' + e); continue
        cls = find_def(tree, target)
        keys = []
        if cls is not None:
            for n in ast.walk(cls):
                if (isinstance(n, ast.Assign) and ast.unparse(n.targets[0]) in ('self.config', 'config')
                        and isinstance(n.value, ast.Dict)):
                    for k, v in zip(n.value.keys, n.value.values):
                        if not (isinstance(k, ast.Constant) and isinstance(v, ast.List) and v.elts): continue
                        d = v.elts[0]
                        if isinstance(d, ast.Constant):
                            ty = 'none' if d.value is None else type(d.value).__name__
                        else: ty = 'other'
                        keys.append((k.value, ty))
        res.append((e, target, keys))
    return res


CODEHILITE_INIT_LOOP = (
    "for key, value in kwargs.items():\n"
    "    if key in self.config:\n"
    "        self.setConfig(key, value)\n"
    "    else:\n"
    "        if isinstance(value, str):\n"
    "            try:\n"
    "                value = parseBoolValue(value, preserve_none=True)\n"
    "            except ValueError:\n"
    "                pass\n"
    "        self.config[key] = [value, '']")


def extension_modules(src, report):
    """every module of the `markdown.extensions` package (directory listing of the working tree):
    (dotted module path, class returned by `makeExtension` or '', [(attribute name, 'module:Class')]: the module-level
    names bound to an `Extension` subclass — classes defined there and classes imported with `from .[mod] import X`)
    and, per Extension subclass, ('module:Class', init kind, [(key, kind, literal, description)]).

    init kind: 'base' (no `__init__`, or one that ends in `super().__init__(**kwargs)`: `Extension.__init__`, i.e.
    `setConfigs(kwargs)`), 'holder' (`self.config = kwargs`: extra), 'passthrough' (the codehilite loop, recognised
    verbatim).  Default kinds: none | bool | str | int | truthy | falsy (the last two: any other object, with the
    truth value of the literal; the literal is its source text)."""
    mods, classes = [], []
    d = os.path.join(src.repo, 'markdown', 'extensions')
    try: files = sorted(f for f in os.listdir(d) if f.endswith('.py'))
    except OSError as e:
        report.append('translator-mismatch:markdown/extensions listing %r' % (e,)); files = []
    for f in files:
        rel = 'markdown/extensions/' + f
        dotted = 'markdown.extensions' if f == '__init__.py' else 'markdown.extensions.' + f[:-3]
        try: tree = src.tree(rel)
        except SyntaxError:
            report.append('translator-mismatch:cannot parse ' + rel); continue
        mk = None
        for st in tree.body:
            if isinstance(st, ast.FunctionDef) and st.name == 'makeExtension':
                rets = [n for n in ast.walk(st) if isinstance(n, ast.Return)]
                if (len(rets) == 1 and isinstance(rets[0].value, ast.Call) and isinstance(rets[0].value.func, ast.Name)
                        and ast.unparse(rets[0].value) == rets[0].value.func.id + '(**kwargs)'):
                    mk = rets[0].value.func.id
                else:
                    report.append('translator-mismatch:makeExtension of ' + dotted)
        # Extension subclasses defined at module level (closed under subclassing inside the module)
        ext_classes = ['Extension'] if f == '__init__.py' else []
        known = {'Extension'}
        for st in tree.body:
            if isinstance(st, ast.ClassDef) and any(isinstance(b, ast.Name) and b.id in known for b in st.bases):
                known.add(st.name); ext_classes.append(st.name)
        mods.append((dotted, mk or '', ext_classes, tree))
        for cname in ext_classes:
            cls = find_def(tree, cname)
            init = find_def(tree, cname + '.__init__')
            kind = 'base'
            if init is not None:
                body = [st for st in init.body if not (isinstance(st, ast.Expr) and isinstance(st.value, ast.Constant))]
                texts = [ast.unparse(st) for st in body]
                calls_super = [t for t in texts if t in ('super().__init__(**kwargs)', 'self.setConfigs(kwargs)')]
                if texts == ['self.config = kwargs']: kind = 'holder'
                elif texts and texts[-1] == CODEHILITE_INIT_LOOP and not calls_super: kind = 'passthrough'
                elif len(calls_super) == 1 and all(
                        t in calls_super or t.startswith('self.config = {') or
                        (t.startswith('self.') and 'kwargs' not in t and 'config' not in t) for t in texts): kind = 'base'
                else:
                    report.append('translator-mismatch:%s:%s.__init__' % (dotted, cname)); kind = 'unknown'
                if ast.unparse(init.args) != 'self, **kwargs':
                    report.append('translator-mismatch:%s:%s.__init__ signature' % (dotted, cname)); kind = 'unknown'
            keys = []
            for n in (ast.walk(cls) if kind != 'holder' else []):
                if (isinstance(n, (ast.Assign, ast.AnnAssign)) and n.value is not None
                        and ast.unparse(n.targets[0] if isinstance(n, ast.Assign) else n.target) in ('self.config', 'config')
                        and isinstance(n.value, ast.Dict)):
                    for k, v in zip(n.value.keys, n.value.values):
                        if not (isinstance(k, ast.Constant) and isinstance(k.value, str) and isinstance(v, ast.List)
                                and len(v.elts) == 2 and isinstance(v.elts[1], ast.Constant)
                                and isinstance(v.elts[1].value, str)):
                            report.append('translator-mismatch:config entry of %s:%s' % (dotted, cname)); continue
                        dflt = v.elts[0]
                        if isinstance(dflt, ast.Constant) and dflt.value is None: ty, lit = 'none', ''
                        elif isinstance(dflt, ast.Constant) and isinstance(dflt.value, bool): ty, lit = 'bool', str(dflt.value)
                        elif isinstance(dflt, ast.Constant) and isinstance(dflt.value, str): ty, lit = 'str', dflt.value
                        elif isinstance(dflt, ast.Constant) and isinstance(dflt.value, int): ty, lit = 'int', str(dflt.value)
                        elif isinstance(dflt, (ast.Dict, ast.List, ast.Tuple, ast.Set)):
                            ty, lit = ('truthy' if (dflt.keys if isinstance(dflt, ast.Dict) else dflt.elts) else 'falsy'), ast.unparse(dflt)
                        elif isinstance(dflt, ast.Name): ty, lit = 'truthy', dflt.id      # a function / class object
                        else:
                            report.append('translator-mismatch:config default of %s:%s %s' % (dotted, cname, k.value)); continue
                        keys.append((k.value, ty, lit, v.elts[1].value))
            classes.append((dotted + ':' + cname, kind, keys))
    # second pass: names imported from sibling modules of the package
    own = {m: set(cs) for m, _, cs, _ in mods}
    out = []
    for dotted, mk, cs, tree in mods:
        attrs = []
        for st in tree.body:
            if isinstance(st, ast.ClassDef) and st.name in cs:
                attrs = [a for a in attrs if a[0] != st.name] + [(st.name, dotted + ':' + st.name)]
            elif (isinstance(st, ast.ImportFrom) and dotted != 'markdown.extensions' and
                  (st.level == 1 or (st.level == 0 and (st.module or '').split('.')[:2] == ['markdown', 'extensions']))):
                frm = 'markdown.extensions' + ('.' + st.module if st.module else '') if st.level == 1 else st.module
                for al in st.names:
                    if al.name in own.get(frm, ()):
                        nm = al.asname or al.name
                        attrs = [a for a in attrs if a[0] != nm] + [(nm, frm + ':' + al.name)]
        out.append((dotted, mk, attrs))
    return out, classes


def parse_bool_spellings(src, report):
    """the spelling lists of `util.parseBoolValue`, read off its `elif` chain:
    `preserve_none and value.lower() == X -> None`, `value.lower() in T -> True`, `value.lower() in F -> False`"""
    fn = find_def(src.tree('markdown/util.py'), 'parseBoolValue')
    none_sp, true_sp, false_sp = [], [], []
    ok = fn is not None and ast.unparse(fn.args) == 'value: str | None, fail_on_errors: bool=True, preserve_none: bool=False'
    try:
        body = [st for st in fn.body if not (isinstance(st, ast.Expr) and isinstance(st.value, ast.Constant))]
        top = body[0]
        ok = ok and len(body) == 1 and ast.unparse(top.test) == 'not isinstance(value, str)'
        ok = ok and ast.unparse(top.body[0]) == 'if preserve_none and value is None:\n    return value' \
            and ast.unparse(top.body[1]) == 'return bool(value)' and len(top.body) == 2
        b1 = top.orelse[0]; b2 = b1.orelse[0]; b3 = b2.orelse[0]; b4 = b3.orelse[0]
        t1 = b1.test
        ok = ok and isinstance(t1, ast.BoolOp) and isinstance(t1.op, ast.And) and ast.unparse(t1.values[0]) == 'preserve_none' \
            and ast.unparse(t1.values[1].left) == 'value.lower()' and isinstance(t1.values[1].ops[0], ast.Eq) \
            and ast.unparse(b1.body[0]) == 'return None'
        none_sp = [const_eval(t1.values[1].comparators[0], {})]
        for b, ret, dst in ((b2, 'return True', true_sp), (b3, 'return False', false_sp)):
            ok = ok and ast.unparse(b.test.left) == 'value.lower()' and isinstance(b.test.ops[0], ast.In) \
                and isinstance(b.test.comparators[0], ast.Tuple) and ast.unparse(b.body[0]) == ret and len(b.body) == 1
            dst.extend(const_eval(e, {}) for e in b.test.comparators[0].elts)
        ok = ok and ast.unparse(b4.test) == 'fail_on_errors' and isinstance(b4.body[0], ast.Raise) \
            and ast.unparse(b4.body[0].exc.func) == 'ValueError' and not b4.orelse
        ok = ok and all(isinstance(x, str) for x in none_sp + true_sp + false_sp)
    except (AttributeError, IndexError, Mismatch, TypeError):
        ok = False
    if not ok:
        report.append('translator-mismatch:parseBoolValue shape'); return [], [], []
    return none_sp, true_sp, false_sp


def cli_tables(src, report):
    """`parse_options` of markdown/__main__.py: the `parser.add_option(...)` calls as
    (short flag without '-', long flag without '--', dest, action, const as decimal text or ''), the declared defaults as
    (dest, kind, literal) with kind none | str | bool | int, and the `opts = {...}` dictionary as (keyword, source expression).
    `logging` level names are evaluated with the running CPython's `logging` (the substrate)."""
    import logging
    env = {'DEBUG': logging.DEBUG, 'WARNING': logging.WARNING, 'CRITICAL': logging.CRITICAL}
    fn = find_def(src.tree('markdown/__main__.py'), 'parse_options')
    rows, defaults, kwargs = [], [], []
    if fn is None:
        report.append('translator-mismatch:parse_options missing'); return rows, defaults, kwargs
    def lit(v):
        if v is None: return ('none', '')
        if isinstance(v, bool): return ('bool', str(v))
        if isinstance(v, int): return ('int', str(v))
        if isinstance(v, str): return ('str', v)
        raise Mismatch('default ' + repr(v))
    for n in ast.walk(fn):
        if isinstance(n, ast.Call) and ast.unparse(n.func) == 'parser.add_option':
            try:
                flags = [const_eval(a, {}) for a in n.args]
                kw = {k.arg: k.value for k in n.keywords}
                short = [f[1:] for f in flags if not f.startswith('--')]
                long_ = [f[2:] for f in flags if f.startswith('--')]
                if len(short) > 1 or len(long_) != 1 or any(len(x) != 1 for x in short): raise Mismatch('flags %r' % flags)
                if set(kw) - {'dest', 'default', 'help', 'metavar', 'action', 'const'}: raise Mismatch('keywords %r' % sorted(kw))
                dest = const_eval(kw['dest'], {})
                action = const_eval(kw['action'], {}) if 'action' in kw else 'store'
                const = str(const_eval(kw['const'], env)) if 'const' in kw else ''
                rows.append((short[0] if short else '', long_[0], dest, action, const))
                if 'default' in kw:
                    d = (dest,) + lit(const_eval(kw['default'], env))
                    if d not in defaults: defaults.append(d)
            except (Mismatch, KeyError) as e:
                report.append('translator-mismatch:parse_options add_option %s' % e)
        if isinstance(n, ast.Assign) and ast.unparse(n.targets[0]) == 'opts' and isinstance(n.value, ast.Dict):
            for k, v in zip(n.value.keys, n.value.values):
                kwargs.append((const_eval(k, {}), ast.unparse(v)))
    # the statements between parse_args and the dictionary, recognised verbatim
    body = [ast.unparse(st) for st in fn.body]
    expect = ['options, args = parser.parse_args(args, values)',
              'if len(args) == 0:\n    input_file = None\nelse:\n    input_file = args[0]',
              'if not options.extensions:\n    options.extensions = []',
              'extension_configs = {}']
    for e in expect:
        if e not in body: report.append('translator-mismatch:parse_options statement %r' % e[:40])
    if not any(b.startswith('if options.configfile:\n    with codecs.open(options.configfile, mode=\'r\', encoding=options.encoding) as fp:') for b in body):
        report.append('translator-mismatch:parse_options config file block')
    if body[-1] != 'return (opts, options.verbose)': report.append('translator-mismatch:parse_options return')
    ctor = [ast.unparse(n) for n in ast.walk(fn) if isinstance(n, ast.Call) and ast.unparse(n.func) == 'optparse.OptionParser']
    if ctor != ['optparse.OptionParser(usage=usage, description=desc, version=ver)']:
        report.append('translator-mismatch:parse_options OptionParser(...)')
    return rows, defaults, kwargs


def entry_points(src, report):
    """[project.entry-points."markdown.extensions"] of pyproject.toml"""
    eps = []
    try:
        import tomllib
        with open(os.path.join(src.repo, 'pyproject.toml'), 'rb') as f:
            data = tomllib.load(f)
        for k, v in data['project']['entry-points']['markdown.extensions'].items():
            eps.append((k, v))
    except Exception as e:
        report.append('translator-mismatch:pyproject entry points ' + repr(e))
    return eps


def gen_tables(src, report):
    util_env = module_consts(src.tree('markdown/util.py'))
    need = ['STX', 'ETX', 'INLINE_PLACEHOLDER_PREFIX', 'INLINE_PLACEHOLDER', 'AMP_SUBSTITUTE', 'HTML_PLACEHOLDER',
            'TAG_PLACEHOLDER', 'BLOCK_LEVEL_ELEMENTS']
    for n in need:
        if n not in util_env:
            report.append('translator-mismatch:util.' + n); util_env[n] = [] if n == 'BLOCK_LEVEL_ELEMENTS' else ''
    fn_env = module_consts(src.tree('markdown/extensions/footnotes.py'), util_env)
    for n in ['FN_BACKLINK_TEXT', 'NBSP_PLACEHOLDER']:
        if n not in fn_env:
            report.append('translator-mismatch:footnotes.' + n); fn_env[n] = ''
    # ESCAPED_CHARS and block_level_elements of Markdown.__init__
    init = find_def(src.tree('markdown/core.py'), 'Markdown.__init__')
    esc = None; ble_from_util = False
    if init is not None:
        for n in ast.walk(init):
            tgt = val = None
            if isinstance(n, ast.Assign): tgt, val = ast.unparse(n.targets[0]), n.value
            elif isinstance(n, ast.AnnAssign) and n.value is not None: tgt, val = ast.unparse(n.target), n.value
            if tgt == 'self.ESCAPED_CHARS':
                try: esc = const_eval(val, {})
                except Mismatch: pass
            if tgt == 'self.block_level_elements' and ast.unparse(val) == 'BLOCK_LEVEL_ELEMENTS.copy()':
                ble_from_util = True
    if esc is None or not all(isinstance(c, str) and len(c) == 1 for c in esc):
        report.append('translator-mismatch:Markdown.ESCAPED_CHARS'); esc = []
    if not ble_from_util:
        report.append('translator-mismatch:Markdown.block_level_elements')
    # ESCAPED_CHARS extended by extensions
    ext_esc = []
    for e in EXT_FILES:
        for n in ast.walk(src.tree('markdown/extensions/%s.py' % e)):
            if isinstance(n, ast.Call) and ast.unparse(n.func) in ('md.ESCAPED_CHARS.append', 'md.ESCAPED_CHARS.extend'):
                try:
                    v = const_eval(n.args[0], {})
                    ext_esc.append((e, v if isinstance(v, list) else [v]))
                except Mismatch:
                    report.append('translator-mismatch:ESCAPED_CHARS in ' + e)
    from xml.etree.ElementTree import HTML_EMPTY
    # registries
    regs = []
    for rel, fn, regname in CORE_BUILDERS:
        f = find_def(src.tree(rel), fn)
        if f is None:
            report.append('translator-mismatch:' + fn); continue
        for scope, reg, nm, p, item in registrations(f):
            if nm is None or p is None or int(p) != p:
                report.append('translator-mismatch:%s registration %r' % (fn, nm)); continue
            regs.append(('core', regname, nm, int(p), item))
    for e in EXT_FILES:
        for scope, reg, nm, p, item in registrations(src.tree('markdown/extensions/%s.py' % e)):
            regname = reg.split('.')[-1]
            if nm is None: continue           # smarty registers computed names: not modelled
            if p is None or int(p) != p: continue
            regs.append((e, regname, nm, int(p), item))
    steps = normalize_steps(src, report)
    rex = regex_table(src)
    exts = ext_config_defaults(src, report)
    eps = entry_points(src, report)
    ext_mods, ext_classes = extension_modules(src, report)
    pb_none, pb_true, pb_false = parse_bool_spellings(src, report)
    cli_rows, cli_defaults, cli_kwargs = cli_tables(src, report)
    # extra.extensions
    extra = []
    for st in src.tree('markdown/extensions/extra.py').body:
        if isinstance(st, ast.Assign) and ast.unparse(st.targets[0]) == 'extensions':
            try: extra = const_eval(st.value, {})
            except Mismatch: report.append('translator-mismatch:extra.extensions')
    # output formats
    ofs = []
    cls = find_def(src.tree('markdown/core.py'), 'Markdown')
    for st in (cls.body if cls else []):
        if isinstance(st, ast.AnnAssign) and ast.unparse(st.target) == 'output_formats' and isinstance(st.value, ast.Dict):
            ofs = [(k.value, ast.unparse(v)) for k, v in zip(st.value.keys, st.value.values)]
    if not ofs: report.append('translator-mismatch:Markdown.output_formats')
    # convert(): order of pipeline stages, as the sequence of registries iterated / calls made
    conv = find_def(src.tree('markdown/core.py'), 'Markdown.convert')
    stages = []
    if conv is not None:
        class V(ast.NodeVisitor):
            def visit_For(s, n):
                it = ast.unparse(n.iter)
                if it.startswith('self.') and it.split('.')[1] in ('preprocessors', 'treeprocessors', 'postprocessors'):
                    stages.append('for:' + it.split('.')[1])
                s.generic_visit(n)
            def visit_Call(s, n):
                f = ast.unparse(n.func)
                if f in ('self.parser.parseDocument', 'self.serializer', 'source.strip', 'output.strip', 'source.split'):
                    stages.append('call:' + f)
                s.generic_visit(n)
        V().visit(conv)
    else:
        report.append('translator-mismatch:Markdown.convert')

    L = ['/- GENERATED by harness/translate.py from the working tree of the repository. Do not edit. -/',
         'namespace MdVerif.Generated', '']
    def sdef(name, val, doc=None):
        if doc: L.append('/-- %s -/' % doc)
        L.append('def %s : String := %s' % (name, lean_str(val)))
    sdef('stx', util_env['STX']); sdef('etx', util_env['ETX'])
    sdef('inlinePlaceholderPrefix', util_env['INLINE_PLACEHOLDER_PREFIX'])
    sdef('inlinePlaceholder', util_env['INLINE_PLACEHOLDER'], '`%s` marks the id')
    sdef('ampSubstitute', util_env['AMP_SUBSTITUTE'])
    sdef('htmlPlaceholder', util_env['HTML_PLACEHOLDER'])
    sdef('tagPlaceholder', util_env['TAG_PLACEHOLDER'])
    sdef('fnBacklinkText', fn_env['FN_BACKLINK_TEXT'])
    sdef('nbspPlaceholder', fn_env['NBSP_PLACEHOLDER'])
    L.append('')
    L.append('/-- `Markdown.ESCAPED_CHARS` as assigned in `Markdown.__init__` -/')
    L.append('def escapedChars : List Char := ' + lean_list([lean_char(c) for c in esc], 16))
    L.append('/-- characters appended to `ESCAPED_CHARS` by bundled extensions -/')
    L.append('def extEscapedChars : List (String × List Char) := ' +
             lean_list(['(%s, [%s])' % (lean_str(e), ', '.join(lean_char(c) for c in v)) for e, v in ext_esc], 4))
    L.append('/-- `util.BLOCK_LEVEL_ELEMENTS` (copied per instance by `Markdown.__init__`: %s) -/' % ble_from_util)
    L.append('def blockLevelElements : List String := ' + lean_list([lean_str(s) for s in util_env['BLOCK_LEVEL_ELEMENTS']], 8))
    L.append('def blockLevelFromUtil : Bool := ' + ('true' if ble_from_util else 'false'))
    L.append('/-- `xml.etree.ElementTree.HTML_EMPTY` of the running CPython -/')
    L.append('def htmlEmpty : List String := ' + lean_list([lean_str(s) for s in sorted(HTML_EMPTY)], 8))
    L.append('')
    L.append('/-- every constant-priority registration: (origin, registry, name, priority, item expression) -/')
    L.append('def registrations : List (String × String × String × Int × String) := ' +
             lean_list(['(%s, %s, %s, %d, %s)' % (lean_str(o), lean_str(r), lean_str(n), p, lean_str(it)) for o, r, n, p, it in regs], 1))
    L.append('')
    L.append('/-- recognised statement shape of `NormalizeWhitespace.run` -/')
    L.append('def normalizeSteps : List String := ' + lean_list([lean_str(s) for s in steps], 8))
    L.append('/-- stage order of `Markdown.convert` -/')
    L.append('def convertStages : List String := ' + lean_list([lean_str(s) for s in stages], 4))
    L.append('')
    L.append('/-- regular expression source texts: (file, name, text, flags) -/')
    L.append('def regexes : List (String × String × String × String) := ' +
             lean_list(['(%s, %s, %s, %s)' % tuple(lean_str(x) for x in r) for r in rex], 1))
    L.append('')
    L.append('/-- bundled extensions: (module, class returned by makeExtension, [(config key, python type of default)]) -/')
    L.append('def extensions : List (String × String × List (String × String)) := ' +
             lean_list(['(%s, %s, [%s])' % (lean_str(e), lean_str(c), ', '.join('(%s, %s)' % (lean_str(k), lean_str(t)) for k, t in ks))
                        for e, c, ks in exts], 1))
    L.append('/-- entry points of pyproject.toml: (short name, module:Class) -/')
    L.append('def entryPoints : List (String × String) := ' + lean_list(['(%s, %s)' % (lean_str(k), lean_str(v)) for k, v in eps], 2))
    C = lean_chars
    L.append('/-- the tables below are `List Char` literals: the kernel evaluates them under `decide` without `String.toList` -/')
    L.append('abbrev Chars := List Char')
    L.append('/-- entry points of pyproject.toml: (short name, module:Class) -/')
    L.append('def entryPointsC : List (Chars × Chars) := ' + lean_list(['(%s, %s)' % (C(k), C(v)) for k, v in eps], 1))
    L.append('/-- modules of the `markdown.extensions` package: (dotted path, name called by `makeExtension` or "", module-level names bound to an `Extension` subclass with the class (`module:Class`) they denote) -/')
    L.append('def extensionModules : List (Chars × Chars × List (Chars × Chars)) := ' +
             lean_list(['(%s, %s, [%s])' % (C(m), C(k), ', '.join('(%s, %s)' % (C(a), C(c)) for a, c in cs)) for m, k, cs in ext_mods], 1))
    L.append('/-- `Extension` subclasses: (module:Class, kind of `__init__` (base | holder | passthrough), [(config key, kind of default (none | bool | str | int | truthy | falsy), literal, description)]) -/')
    L.append('def extensionClasses : List (Chars × Chars × List (Chars × Chars × Chars × String)) := ' +
             lean_list(['(%s, %s, [%s])' % (C(c), C(k), ', '.join('(%s, %s, %s, %s)' % (C(e[0]), C(e[1]), C(e[2]), lean_str(e[3])) for e in ks))
                        for c, k, ks in ext_classes], 1))
    L.append('/-- spelling lists of `util.parseBoolValue` (compared with `value.lower()`): -> None (when `preserve_none`), -> True, -> False -/')
    L.append('def parseBoolNone : List Chars := ' + lean_list([C(x) for x in pb_none], 4))
    L.append('def parseBoolTrue : List Chars := ' + lean_list([C(x) for x in pb_true], 4))
    L.append('def parseBoolFalse : List Chars := ' + lean_list([C(x) for x in pb_false], 4))
    L.append('/-- `parser.add_option` calls of `__main__.parse_options`: (short flag, long flag, dest, action, const) -/')
    L.append('def cliOptions : List (Chars × Chars × Chars × Chars × Chars) := ' +
             lean_list(['(%s, %s, %s, %s, %s)' % tuple(C(x) for x in r) for r in cli_rows], 1))
    L.append('/-- declared defaults of the options: (dest, kind, literal); a dest without an entry defaults to None -/')
    L.append('def cliDefaults : List (Chars × Chars × Chars) := ' + lean_list(['(%s, %s, %s)' % tuple(C(x) for x in r) for r in cli_defaults], 1))
    L.append('/-- the keyword dictionary `parse_options` returns: (keyword of `markdownFromFile`/`Markdown`, source expression) -/')
    L.append('def cliKwargs : List (Chars × Chars) := ' + lean_list(['(%s, %s)' % (C(k), C(v)) for k, v in cli_kwargs], 1))
    L.append('/-- `extensions` of markdown/extensions/extra.py -/')
    L.append('def extraExtensionsC : List Chars := ' + lean_list([C(x) for x in extra], 2))
    L.append('def extraExtensions : List String := ' + lean_list([lean_str(s) for s in extra], 8))
    L.append('def outputFormats : List (String × String) := ' + lean_list(['(%s, %s)' % (lean_str(k), lean_str(v)) for k, v in ofs], 4))
    L.append('')
    L.append('end MdVerif.Generated'); L.append('')
    return '\n'.join(L), {'regexes': rex, 'registrations': regs, 'normalize_steps': steps, 'escaped': esc,
                          'ext_escaped': ext_esc, 'extensions': exts, 'entry_points': eps, 'extra': extra,
                          'extension_modules': ext_mods, 'extension_classes': ext_classes,
                          'parse_bool': [pb_none, pb_true, pb_false],
                          'cli': [cli_rows, cli_defaults, cli_kwargs]}


# --------------------------------------------------------------------------------------- Census
# Structural census of mutable state (C11 hypothesis H1, C12 hypothesis "shared state is read-only or memo").
# Everything is syntactic: the census lists *where the source text writes*; `Props/C11Census.lean` decides, by
# `decide` over these lists, that every write falls into a justified category.

MUTATORS = {'append', 'extend', 'insert', 'pop', 'remove', 'clear', 'update', 'add', 'discard', 'setdefault', 'sort',
            'reverse', 'popitem'}
# attribute (or parameter) name -> class of the object it holds, where this is evident from the constructors
CENSUS_RESOLVE = {'md': 'Markdown', 'parser': 'BlockParser', 'htmlStash': 'HtmlStash', 'state': 'State'}
HARMLESS_DECORATORS = {'overload', 'wraps', 'property', 'staticmethod', 'classmethod', 'abstractmethod', 'deprecated',
                       'util.deprecated'}
MEMO_DECORATORS = {'lru_cache', 'cache', 'cached_property', 'functools.lru_cache', 'functools.cache',
                   'functools.cached_property'}
DYNAMIC_WRITERS = {'setattr', 'delattr', 'globals', 'vars', 'locals', 'exec', 'eval'}


def census_files(repo):
    out = []
    for d, _, fs in os.walk(os.path.join(repo, 'markdown')):
        for f in fs:
            if f.endswith('.py'): out.append(os.path.relpath(os.path.join(d, f), repo))
    return sorted(out)


def _chain(expr):
    """`root.a.b[k].c` -> ('root', ['a', 'b', 'c']); subscripts are dropped (writing an item mutates the container).
    None when the expression is not rooted at a name (a call result, a literal, …)."""
    attrs = []
    while True:
        if isinstance(expr, ast.Subscript): expr = expr.value
        elif isinstance(expr, ast.Starred): expr = expr.value
        elif isinstance(expr, ast.Attribute): attrs.append(expr.attr); expr = expr.value
        elif isinstance(expr, ast.Name): return expr.id, attrs[::-1]
        elif (isinstance(expr, ast.Call) and isinstance(expr.func, ast.Name) and expr.func.id == 'type'):
            return '<type()>', attrs[::-1]
        else: return None


def _module_names(tree):
    names = set()
    def tgt(t):
        if isinstance(t, ast.Name): names.add(t.id)
        elif isinstance(t, (ast.Tuple, ast.List)):
            for e in t.elts: tgt(e)
        elif isinstance(t, ast.Starred): tgt(t.value)
    def body(b):
        for st in b:
            if isinstance(st, (ast.FunctionDef, ast.AsyncFunctionDef, ast.ClassDef)): names.add(st.name)
            elif isinstance(st, ast.Assign):
                for t in st.targets: tgt(t)
            elif isinstance(st, (ast.AnnAssign, ast.AugAssign)): tgt(st.target)
            elif isinstance(st, (ast.Import, ast.ImportFrom)):
                for a in st.names: names.add((a.asname or a.name).split('.')[0])
            elif isinstance(st, (ast.If, ast.For, ast.While, ast.With, ast.Try)):
                if isinstance(st, ast.For): tgt(st.target)
                for f in ('body', 'orelse', 'finalbody'): body(getattr(st, f, []))
                for h in getattr(st, 'handlers', []): body(h.body)
    body(tree.body)
    return names


def _local_names(fn):
    """names bound in the function itself (parameters, assignments, loop variables, imports, …), minus `global` ones"""
    names = set(); glob = set()
    a = fn.args
    for x in a.posonlyargs + a.args + a.kwonlyargs: names.add(x.arg)
    if a.vararg: names.add(a.vararg.arg)
    if a.kwarg: names.add(a.kwarg.arg)
    def walk(n):
        for c in ast.iter_child_nodes(n):
            if isinstance(c, (ast.FunctionDef, ast.AsyncFunctionDef, ast.ClassDef)):
                names.add(c.name); continue
            if isinstance(c, ast.Lambda): continue
            if isinstance(c, ast.Global): glob.update(c.names)
            if isinstance(c, ast.Name) and isinstance(c.ctx, (ast.Store, ast.Del)): names.add(c.id)
            if isinstance(c, (ast.Import, ast.ImportFrom)):
                for al in c.names: names.add((al.asname or al.name).split('.')[0])
            if isinstance(c, ast.ExceptHandler) and c.name: names.add(c.name)
            walk(c)
    walk(fn)
    return names - glob, glob


IMMUTABLE_CALLS = {'re.compile', 'frozenset', 'tuple', 'str', 'int', 'float', 'bool', 'bytes', 'property', 'staticmethod',
                   'classmethod', 'object'}
MUTABLE_CALLS = {'list', 'dict', 'set', 'bytearray', 'OrderedDict', 'defaultdict', 'deque', 'Counter', 'ChainMap',
                 'collections.OrderedDict', 'collections.defaultdict', 'collections.deque', 'collections.Counter'}


def _mutability(v):
    """of the initialiser of a name bound in a class body: 'mutable' | 'immutable' | 'unknown'"""
    if isinstance(v, (ast.List, ast.Dict, ast.Set, ast.ListComp, ast.DictComp, ast.SetComp)): return 'mutable'
    if isinstance(v, (ast.Constant, ast.JoinedStr, ast.Lambda, ast.GeneratorExp)): return 'immutable'
    if isinstance(v, ast.Tuple):
        return 'immutable' if all(_mutability(e) == 'immutable' for e in v.elts) else 'unknown'
    if isinstance(v, ast.UnaryOp): return _mutability(v.operand)
    if isinstance(v, ast.BinOp):
        l, r = _mutability(v.left), _mutability(v.right)
        if 'mutable' in (l, r): return 'mutable'       # `[…] + BASE`
        return 'immutable' if l == r == 'immutable' else 'unknown'
    if isinstance(v, ast.Call):
        f = ast.unparse(v.func)
        if f in MUTABLE_CALLS or f.endswith('.copy'): return 'mutable'
        if f in IMMUTABLE_CALLS: return 'immutable'
        return 'unknown'
    return 'unknown'


def _import_map(tree, rel):
    """names imported into a module from inside the package: {'names': name -> (module path, original name),
    'modules': name -> module path}; module paths are relative to the repository, without `.py`"""
    pkg = rel.split('/')[:-1]                       # directory of the module
    names, modules = {}, {}
    for st in ast.walk(tree):
        if isinstance(st, ast.ImportFrom):
            if st.level:
                base = pkg[:len(pkg) - (st.level - 1)]
            elif st.module and st.module.split('.')[0] == 'markdown':
                base = []
            else: continue
            mod = base + (st.module.split('.') if st.module else [])
            for a in st.names:
                nm = a.asname or a.name
                names[nm] = ('/'.join(mod), a.name)              # `from ..blockprocessors import ListIndentProcessor`
                modules[nm] = '/'.join(mod + [a.name])          # `from .. import util`
        elif isinstance(st, ast.Import):
            for a in st.names:
                if a.name.split('.')[0] == 'markdown':
                    modules[a.asname or a.name] = '/'.join(a.name.split('.'))
    return {'names': names, 'modules': modules}


def _flat_stmt(st):
    if isinstance(st, ast.For) and not st.orelse:
        return 'for %s in %s: %s' % (ast.unparse(st.target), ast.unparse(st.iter), '; '.join(_flat_stmt(b) for b in st.body))
    if isinstance(st, ast.If) and not st.orelse:
        return 'if %s: %s' % (ast.unparse(st.test), '; '.join(_flat_stmt(b) for b in st.body))
    if isinstance(st, (ast.For, ast.If, ast.While, ast.With, ast.Try)):
        raise Mismatch('statement shape ' + type(st).__name__)
    return ast.unparse(st)


class _FnWrites:
    """the writes of one function body (nested functions included, each with its own local names)"""

    def __init__(self, rel, cls, qual, method, fn, modnames, report, outer_locals=frozenset(), outer_params=frozenset()):
        self.rel, self.cls, self.qual, self.method, self.report = rel, cls, qual, method, report
        self.modnames = modnames
        loc, self.glob = _local_names(fn)
        self.locals = set(loc) | set(outer_locals)
        a = fn.args
        self.params = set(x.arg for x in a.posonlyargs + a.args + a.kwonlyargs) | set(outer_params)
        self.inst = []      # (owner, attr, kind)
        self.inst_ln = []   # (owner, attr, kind, line, written as `self.<attr>…` directly)
        self.shared = []    # target text
        self.fn = fn
        self.aliases = self._aliases(fn)
        self._walk(fn)

    # one-level aliases: a local name assigned exactly once, from an attribute chain rooted at `self`, at a
    # resolvable parameter or at a module-level name
    def _aliases(self, fn):
        cnt = {}; val = {}
        def walk(n):
            for c in ast.iter_child_nodes(n):
                if isinstance(c, (ast.FunctionDef, ast.AsyncFunctionDef, ast.ClassDef, ast.Lambda)): continue
                if isinstance(c, ast.Name) and isinstance(c.ctx, (ast.Store, ast.Del)):
                    cnt[c.id] = cnt.get(c.id, 0) + 1
                if isinstance(c, ast.Assign) and len(c.targets) == 1 and isinstance(c.targets[0], ast.Name):
                    val[c.targets[0].id] = c.value
                if isinstance(c, ast.AnnAssign) and isinstance(c.target, ast.Name) and c.value is not None:
                    val[c.target.id] = c.value
                walk(c)
        walk(fn)
        al = {}
        for nm, v in val.items():
            if cnt.get(nm) != 1 or nm in self.params: continue
            ch = _chain(v)
            if ch is None: continue
            root, attrs = ch
            if not attrs and root != 'self' and not self._is_shared_root(root): continue
            if root == 'self' or (root in CENSUS_RESOLVE and root in self.params) or self._is_shared_root(root):
                al[nm] = (root, attrs)
        return al

    def _is_shared_root(self, root):
        if root in ('cls', '<type()>'): return True
        return root in self.modnames and root not in self.locals

    def _resolve(self, root, attrs):
        """-> ('inst', owner, attr) | ('shared', text) | None"""
        if root in self.aliases and root not in ('self',):
            r0, a0 = self.aliases[root]
            root, attrs = r0, a0 + attrs
        if root == 'self' and self.cls is not None:
            if attrs[:1] == ['__class__']: return ('shared', 'self.' + '.'.join(attrs))
            owner = self.cls
        elif root in CENSUS_RESOLVE and root in self.params:
            owner = CENSUS_RESOLVE[root]
        elif self._is_shared_root(root):
            return ('shared', '.'.join([root] + attrs))
        else:
            return None
        if not attrs: return ('inst', owner, '<self>')
        for a in attrs[:-1]:
            owner = CENSUS_RESOLVE.get(a, '?')
            if owner == '?': return ('inst', '?', '.'.join([root] + attrs))
        return ('inst', owner, attrs[-1])

    def _write(self, expr, kind, node):
        if isinstance(expr, (ast.Tuple, ast.List)):
            for e in expr.elts: self._write(e, kind, node)
            return
        if isinstance(expr, ast.Starred): return self._write(expr.value, kind, node)
        if isinstance(expr, ast.IfExp):
            self._write(expr.body, kind, node); self._write(expr.orelse, kind, node)
            return
        if isinstance(expr, ast.Name) and not kind.startswith('call:'):
            if expr.id in self.glob: self.shared.append('global ' + expr.id)
            return
        if not isinstance(expr, (ast.Attribute, ast.Subscript, ast.Name)):
            if not kind.startswith('call:'):    # `f(x).append(…)`, `[…].sort()`: a temporary, not a named object
                self.report.append('translator-mismatch:census:target %s in %s %s' % (type(expr).__name__, self.rel, self.qual))
            return
        if isinstance(expr, ast.Subscript): kind = {'assign': 'setitem', 'augassign': 'setitem', 'del': 'delitem'}.get(kind, kind)
        ch = _chain(expr)
        if ch is None: return
        root, attrs = ch
        if isinstance(expr, ast.Subscript) or kind.startswith('call:'):
            pass            # the object named by the whole chain is mutated
        elif not attrs:
            return
        r = self._resolve(root, attrs)
        if r is None: return
        if r[0] == 'inst':
            self.inst.append((r[1], r[2], kind))
            self.inst_ln.append((r[1], r[2], kind, getattr(node, 'lineno', 0), root == 'self' and root not in self.aliases))
        else: self.shared.append(r[1] + {'setitem': '[]', 'delitem': '[]'}.get(kind, '') +
                                 ('.%s()' % kind[5:] if kind.startswith('call:') else ''))

    def _walk(self, n):
        for c in ast.iter_child_nodes(n):
            if isinstance(c, (ast.FunctionDef, ast.AsyncFunctionDef)):
                sub = _FnWrites(self.rel, self.cls, self.qual + '.<locals>.' + c.name, self.method, c, self.modnames,
                                self.report, self.locals, self.params)
                self.inst += sub.inst; self.shared += sub.shared; self.inst_ln += sub.inst_ln
                continue
            if isinstance(c, ast.ClassDef):
                self.report.append('translator-mismatch:census:class %s inside function %s %s' % (c.name, self.rel, self.qual))
                continue
            if isinstance(c, ast.Assign):
                for t in c.targets: self._write(t, 'assign', c)
            elif isinstance(c, ast.AnnAssign):
                if c.value is not None: self._write(c.target, 'assign', c)
            elif isinstance(c, ast.AugAssign): self._write(c.target, 'augassign', c)
            elif isinstance(c, ast.Delete):
                for t in c.targets: self._write(t, 'del', c)
            elif isinstance(c, (ast.For, ast.AsyncFor)): self._write(c.target, 'assign', c)
            elif isinstance(c, (ast.With, ast.AsyncWith)):
                for it in c.items:
                    if it.optional_vars is not None: self._write(it.optional_vars, 'assign', c)
            elif isinstance(c, ast.NamedExpr): self._write(c.target, 'assign', c)
            elif isinstance(c, ast.Call):
                f = c.func
                if isinstance(f, ast.Attribute) and f.attr in MUTATORS:
                    self._write(f.value, 'call:' + f.attr, c)
                elif isinstance(f, ast.Name) and f.id in DYNAMIC_WRITERS and f.id not in self.locals:
                    self.report.append('translator-mismatch:census:%s() in %s %s' % (f.id, self.rel, self.qual))
            elif isinstance(c, ast.Attribute) and c.attr == '__dict__':
                self.report.append('translator-mismatch:census:__dict__ in %s %s' % (self.rel, self.qual))
            elif isinstance(c, ast.Nonlocal):
                self.report.append('translator-mismatch:census:nonlocal in %s %s' % (self.rel, self.qual))
            self._walk(c)


def gen_census(src, report):
    files = census_files(src.repo)
    classes = {}            # (file, class) -> {'bases', 'body_names', 'self_assigned', 'methods'}
    inst_sites = []         # (owner, attr, kind, file, Class.method, method)
    shared = []             # (file, function, target)
    memo = []               # (file, function, decorator)
    for rel in files:
        tree = src.tree(rel)
        modnames = _module_names(tree)
        def decorators(fn, qual):
            for d in fn.decorator_list:
                f = d.func if isinstance(d, ast.Call) else d
                name = ast.unparse(f)
                if name in MEMO_DECORATORS: memo.append((rel, qual, ast.unparse(d)))
                elif name in HARMLESS_DECORATORS or name.endswith('.setter') or name.endswith('.getter'): pass
                else: report.append('translator-mismatch:census:decorator %s on %s %s' % (name, rel, qual))
        def do_function(fn, cls, qual):
            decorators(fn, qual)
            w = _FnWrites(rel, cls, qual, fn.name, fn, modnames, report)
            for d in ast.walk(fn):
                if d is not fn and isinstance(d, (ast.FunctionDef, ast.AsyncFunctionDef)): decorators(d, qual + '.<locals>.' + d.name)
            for t in w.shared: shared.append((rel, qual, t))
            return w
        def do_class(cd, prefix):
            qn = prefix + cd.name
            info = {'bases': [ast.unparse(b) for b in cd.bases], 'body_names': set(), 'body_init': {}, 'self_assigned': set(),
                    'self_plain': {}, 'methods': {}}
            classes[(rel, qn)] = info
            for d in cd.decorator_list:
                name = ast.unparse(d.func if isinstance(d, ast.Call) else d)
                if name not in HARMLESS_DECORATORS:
                    report.append('translator-mismatch:census:class decorator %s on %s %s' % (name, rel, qn))
            for st in cd.body:
                if isinstance(st, ast.Assign):
                    for t in st.targets:
                        if isinstance(t, ast.Name):
                            info['body_names'].add(t.id); info['body_init'][t.id] = _mutability(st.value)
                        elif isinstance(t, (ast.Tuple, ast.List)):
                            for e in t.elts:
                                if isinstance(e, ast.Name): info['body_names'].add(e.id); info['body_init'][e.id] = 'unknown'
                elif isinstance(st, ast.AnnAssign) and isinstance(st.target, ast.Name) and st.value is not None:
                    info['body_names'].add(st.target.id); info['body_init'][st.target.id] = _mutability(st.value)
                elif isinstance(st, (ast.FunctionDef, ast.AsyncFunctionDef)):
                    w = do_function(st, qn, qn + '.' + st.name)
                    info['methods'][st.name] = (st, w)
                    for n in ast.walk(st):
                        tg = []
                        if isinstance(n, ast.Assign): tg = n.targets
                        elif isinstance(n, (ast.AnnAssign, ast.AugAssign)): tg = [n.target]
                        plain = isinstance(n, ast.Assign) or (isinstance(n, ast.AnnAssign) and n.value is not None)
                        for t in tg:
                            for e in (t.elts if isinstance(t, (ast.Tuple, ast.List)) else [t]):
                                if isinstance(e, ast.Attribute) and isinstance(e.value, ast.Name) and e.value.id == 'self':
                                    info['self_assigned'].add(e.attr)
                                    if plain:       # `self.X = …` (not `self.X += …`): (method, line)
                                        info['self_plain'].setdefault(e.attr, []).append((st.name, n.lineno))
                    if st.name != '__init__':
                        for owner, attr, kind in w.inst:
                            inst_sites.append((owner, attr, kind, rel, qn + '.' + st.name, st.name))
                elif isinstance(st, ast.ClassDef): do_class(st, qn + '.')
        def do_body(body):
            for st in body:
                if isinstance(st, (ast.FunctionDef, ast.AsyncFunctionDef)):
                    w = do_function(st, None, st.name)
                    for owner, attr, kind in w.inst:
                        inst_sites.append((owner, attr, kind, rel, st.name, st.name))
                elif isinstance(st, ast.ClassDef): do_class(st, '')
                elif isinstance(st, (ast.If, ast.Try, ast.With, ast.For, ast.While)):
                    for f in ('body', 'orelse', 'finalbody'): do_body(getattr(st, f, []))
                    for h in getattr(st, 'handlers', []): do_body(h.body)
        do_body(tree.body)

    # the class hierarchy of the package: base-class expressions resolved through the imports of the defining module
    imports = {rel: _import_map(src.tree(rel), rel) for rel in files}
    def resolve_base(rel, expr):
        """-> key (file, class) of a class of the package, or None (a class from outside the package)"""
        expr = expr.split('[')[0]
        parts = expr.split('.')
        imp = imports[rel]
        if len(parts) == 1:
            if (rel, parts[0]) in classes: return (rel, parts[0])
            if parts[0] in imp['names']:
                mod, orig = imp['names'][parts[0]]
                for cand in (mod + '.py', mod + '/__init__.py'):
                    if (cand, orig) in classes: return (cand, orig)
            return None
        if parts[0] in imp['modules']:
            mod = imp['modules'][parts[0]]
            for cand in (mod + '.py', mod + '/__init__.py'):
                if (cand, '.'.join(parts[1:])) in classes: return (cand, '.'.join(parts[1:]))
            return None
        if (rel, expr) in classes: return (rel, expr)       # nested class `Outer.Inner`
        return None
    hierarchy = []          # (class, file, base class, file of the base class | 'external')
    parents = {}
    for key in sorted(classes):
        parents[key] = []
        for b in classes[key]['bases']:
            k = resolve_base(key[0], b)
            if k is not None: parents[key].append(k)
            hierarchy.append((key[1], key[0], b, k[0] if k is not None else 'external'))
    def lineage(key, seen=()):
        out = [key]
        for k in parents[key]:
            if k not in seen and k != key: out += [x for x in lineage(k, seen + (key,)) if x not in out]
        return out
    descendants = {key: [k for k in classes if k != key and key in lineage(k)] for key in classes}

    # class-level state mutated in place THROUGH `self`, in any method, `__init__` included:
    # `self.X += …`, `self.X.append(…)`, `self.X[k] = …` where `X` is bound in the class body of the class, of a base
    # class or of a subclass in the package (to something that is not evidently immutable), unless the object is
    # instance-owned: `self.X = …` occurs in `__init__` of the class or of a base class, or earlier in the same method.
    class_mutable = []      # (class, file, name, 'mutable' | 'unknown')
    for key, info in sorted(classes.items()):
        for nm, mk in sorted(info['body_init'].items()):
            if mk != 'immutable': class_mutable.append((key[1], key[0], nm, mk))
    for key, info in sorted(classes.items()):
        lin = lineage(key)
        def binder(attr):
            for k in lin + sorted(descendants[key]):
                if attr in classes[k]['body_init']: return k, classes[k]['body_init'][attr]
            return None, None
        for mname, (st, w) in sorted(info['methods'].items()):
            for owner, attr, kind, line, direct in w.inst_ln:
                if owner != key[1] or kind in ('assign', 'del'): continue
                bk, mut = binder(attr)
                if bk is None or mut == 'immutable': continue
                owned = any(m == '__init__' for k in lin for (m, ln) in classes[k]['self_plain'].get(attr, []))
                owned = owned or any(m == mname and ln < line for (m, ln) in info['self_plain'].get(attr, []))
                if owned: continue
                shared.append((key[0], key[1] + '.' + mname, '%s.%s via self (%s)' % (bk[1], attr, kind)))

    # reset(): what the methods named `reset` write, one call deep (`self.m()`, `super().reset()` inside the package)
    def reset_writes(key, mname, depth):
        info = classes[key]
        if mname not in info['methods']: return []
        st, w = info['methods'][mname]
        res = []
        for n in ast.walk(st):
            if isinstance(n, (ast.Assign, ast.AnnAssign)):
                tg = n.targets if isinstance(n, ast.Assign) else [n.target]
                val = n.value
                for t in tg:
                    ch = _chain(t) if isinstance(t, ast.Attribute) else None
                    if ch and ch[0] == 'self' and val is not None:
                        r = w._resolve(*ch)
                        if r and r[0] == 'inst':
                            dep = any(isinstance(x, ast.Attribute) and x.attr == ch[1][-1] for x in ast.walk(val))
                            res.append((r[1], r[2], 'assign-self-dependent' if dep else 'assign'))
        for owner, attr, kind in w.inst:
            if kind != 'assign': res.append((owner, attr, kind))
        if depth > 0:
            for n in ast.walk(st):
                if not (isinstance(n, ast.Call) and isinstance(n.func, ast.Attribute)): continue
                f = n.func
                if isinstance(f.value, ast.Name) and f.value.id == 'self' and f.attr in info['methods'] and f.attr != mname:
                    res += reset_writes(key, f.attr, depth - 1)
                if (isinstance(f.value, ast.Call) and isinstance(f.value.func, ast.Name) and f.value.func.id == 'super'
                        and f.attr == mname):
                    for k in lineage(key)[1:2]:
                        res += [(key[1] if o == k[1] else o, a, kd) for o, a, kd in reset_writes(k, mname, depth - 1)]
        return res
    reset_w = []            # (resetting class, owner, attr)           re-initialising writes only
    reset_other = []        # (resetting class, owner, attr, kind)     every other write in a `reset`
    for key, info in sorted(classes.items()):
        if 'reset' in info['methods']:
            for owner, attr, kind in reset_writes(key, 'reset', 1):
                if kind in ('assign', 'call:clear'): reset_w.append((key[1], owner, attr))
                else: reset_other.append((key[1], owner, attr, kind))
    reset_calls = []
    mr = find_def(src.tree('markdown/core.py'), 'Markdown.reset')
    if mr is None: report.append('translator-mismatch:census:Markdown.reset missing')
    else:
        for st in mr.body:
            if isinstance(st, ast.Expr) and isinstance(st.value, ast.Constant): continue
            if isinstance(st, ast.Return) and ast.unparse(st) == 'return self': continue
            try: reset_calls.append(_flat_stmt(st))
            except Mismatch as e: report.append('translator-mismatch:census:Markdown.reset ' + str(e))
    reg_ext = []
    for key, info in sorted(classes.items()):
        em = info['methods'].get('extendMarkdown')
        if em is None: continue
        for n in ast.walk(em[0]):
            if (isinstance(n, ast.Call) and isinstance(n.func, ast.Attribute) and n.func.attr == 'registerExtension'
                    and ast.unparse(n.func.value) == 'md' and len(n.args) == 1 and ast.unparse(n.args[0]) == 'self'):
                reg_ext.append(key[1])
    # every class of the package with the file that defines it, where instances of package classes are constructed, and
    # which function / method names are called anywhere (so that the Lean side can check "created afresh per run" and
    # "never called inside the package")
    class_list = sorted((q, r) for (r, q) in classes)
    cnames = set(q.split('.')[-1] for (r, q) in classes)
    constructions = set(); called = set()
    for rel in files:
        def visit(n, qual):
            for c in ast.iter_child_nodes(n):
                if isinstance(c, (ast.FunctionDef, ast.AsyncFunctionDef, ast.ClassDef)):
                    q2 = c.name if qual == '<module>' else qual + '.' + c.name
                    visit(c, q2); continue
                if isinstance(c, ast.Call):
                    f = c.func
                    nm = f.id if isinstance(f, ast.Name) else f.attr if isinstance(f, ast.Attribute) else None
                    if nm is not None:
                        called.add(nm)
                        if nm in cnames: constructions.add((nm, rel, qual))
                visit(c, qual)
        visit(src.tree(rel), '<module>')
    constructions = sorted(constructions); called = sorted(called)

    inst = sorted(set((o, a, m) for o, a, k, r, q, m in inst_sites))
    inst_sites_s = sorted(set((o, a, k, r, q) for o, a, k, r, q, m in inst_sites))
    shared = sorted(set(shared)); memo = sorted(set(memo))
    reset_w = sorted(set(reset_w)); reset_other = sorted(set(reset_other)); reg_ext = sorted(set(reg_ext))
    digest = hashlib.sha256(repr((inst_sites_s, shared, memo, reset_w, reset_other, reset_calls, reg_ext, constructions,
                                  called, sorted(hierarchy), class_mutable)).encode()).hexdigest()[:16]

    t = lambda *xs: '(' + ', '.join(lean_str(x) for x in xs) + ')'
    L = ['/- GENERATED by harness/translate.py from the working tree of the repository. Do not edit.',
         '   Structural census of mutable state: where the source text of `markdown/**/*.py` writes.  -/',
         'namespace MdVerif.Generated.Census', '',
         'def censusHash : String := ' + lean_str(digest), '',
         '/-- (owner class, attribute, method): every write to instance state outside `__init__` — assignment, augmented\n'
         '    assignment, `del`, item assignment, mutating method call — on `self.<attr>`, on resolvable chains\n'
         '    (`self.md.x`, `self.parser.md.htmlStash.x`, parameters `md`/`parser`) and on one-level aliases.  Chains that\n'
         '    cannot be resolved have owner `?` and the chain as attribute.  `<self>`: the object itself is mutated. -/',
         lean_big_def('instanceWrites', 'String × String × String', [t(*x) for x in inst], per_line=1), '',
         '/-- the same with the kind of write and the place: (owner, attribute, kind, file, Class.method) -/',
         lean_big_def('instanceWriteSites', 'String × String × String × String × String', [t(*x) for x in inst_sites_s], per_line=1), '',
         '/-- (class with the `reset` method, owner class, attribute): re-initialising writes (`self.x = <expr without x>`,\n'
         '    `.clear()`) of the methods named `reset`, one call deep -/',
         'def resetWrites : List (String × String × String) := ' + lean_list([t(*x) for x in reset_w], 1), '',
         '/-- every other write of a method named `reset`: (class, owner, attribute, kind) -/',
         'def resetOther : List (String × String × String × String) := ' + lean_list([t(*x) for x in reset_other], 1), '',
         '/-- the statements of `Markdown.reset` (without docstring and `return self`) -/',
         'def resetCalls : List String := ' + lean_list([lean_str(x) for x in reset_calls], 1), '',
         '/-- the classes whose `extendMarkdown` calls `md.registerExtension(self)` -/',
         'def registerExtensionCalls : List String := ' + lean_list([lean_str(x) for x in reg_ext], 4), '',
         '/-- (file, function, target): writes *inside function bodies* to module-level or class-level state — `global`\n'
         '    assignments, `Class.attr = …` / `module.attr = …` / `cls.attr = …`, item assignment or mutating calls on\n'
         '    module-level names, in-place mutation through `self` (`self.X += …`, `self.X.append(…)`, `self.X[k] = …`, in any\n'
         '    method, `__init__` included) of a name `X` bound in a class body of the class, a base class or a subclass\n'
         '    and not instance-owned (`self.X = …` in an `__init__` of the class or its bases, or earlier in the method) -/',
         'def sharedWrites : List (String × String × String) := ' + lean_list([t(*x) for x in shared], 1), '',
         '/-- (file, function, decorator): memoising decorators -/',
         'def memoDecorators : List (String × String × String) := ' + lean_list([t(*x) for x in memo], 1), '',
         '/-- (class, file, base class as written, file that defines the base class | `external`) -/',
         lean_big_def('classHierarchy', 'String × String × String × String', [t(*x) for x in sorted(hierarchy)], per_line=1), '',
         '/-- (class, file, name, `mutable` | `unknown`): names bound in a class body to something not evidently immutable -/',
         lean_big_def('classLevelMutable', 'String × String × String × String', [t(*x) for x in class_mutable], per_line=1), '',
         '/-- (class, file) of every class of the package -/',
         lean_big_def('classes', 'String × String', [t(*x) for x in class_list], per_line=2), '',
         '/-- (class, file, function): every place where a class of the package is instantiated (`<module>`: at import) -/',
         lean_big_def('constructions', 'String × String × String', [t(*x) for x in constructions], per_line=1), '',
         '/-- every name that is called (`name(…)` or `….name(…)`) anywhere in the package -/',
         lean_big_def('calledNames', 'String', [lean_str(x) for x in called], per_line=8), '',
         'end MdVerif.Generated.Census', '']
    return '\n'.join(L), {'instance_writes': inst, 'shared_writes': shared, 'memo': memo, 'reset_writes': reset_w,
                          'reset_other': reset_other, 'reset_calls': reset_calls, 'register_extension': reg_ext,
                          'constructions': constructions, 'hash': digest}


# emitted when the census cannot be computed: an unresolved write, so that `Props/C11Census.lean` fails
CENSUS_STUB = """/- GENERATED by harness/translate.py: the census could not be computed. -/
namespace MdVerif.Generated.Census
def censusHash : String := "unavailable"
def instanceWrites : List (String × String × String) := [("?", "census unavailable", "?")]
def instanceWriteSites : List (String × String × String × String × String) := []
def resetWrites : List (String × String × String) := []
def resetOther : List (String × String × String × String) := []
def resetCalls : List String := []
def registerExtensionCalls : List String := []
def sharedWrites : List (String × String × String) := [("?", "?", "census unavailable")]
def memoDecorators : List (String × String × String) := []
def classes : List (String × String) := []
def classHierarchy : List (String × String × String × String) := []
def classLevelMutable : List (String × String × String × String) := []
def constructions : List (String × String × String) := []
def calledNames : List String := []
end MdVerif.Generated.Census
"""


def model_map(src, report):
    m = []
    for rel, qual, lean in MODEL_MAP:
        try: node = find_def(src.tree(rel), qual)
        except (FileNotFoundError, SyntaxError): node = None
        if node is None:
            report.append('translator-mismatch:%s %s missing' % (rel, qual)); h = None
        else: h = norm_hash(node)
        m.append({'file': rel, 'name': qual, 'lean': lean, 'ast_hash': h})
    return m


def run(repo=None, write=True):
    """returns a dict: {'changed': [...], 'report': [...], 'tables': {...}, 'model_map': [...]}"""
    repo = repo or os.environ.get('VERIF_REPO', '/repo')
    src = Src(repo)
    report = []
    try:
        tables, info = gen_tables(src, report)
    except (SyntaxError, FileNotFoundError) as e:
        report.append('translator-mismatch:cannot parse repository: %r' % (e,))
        tables, info = None, {}
    mm = model_map(src, report) if tables is not None else []
    try:
        census, cinfo = gen_census(src, report)
        info['census'] = cinfo
    except (SyntaxError, FileNotFoundError) as e:
        report.append('translator-mismatch:census:cannot parse repository: %r' % (e,))
        census = CENSUS_STUB
    changed = []
    if write:
        if write_if_changed(os.path.join(OUT_DIR, 'Chars.lean'), gen_chars()): changed.append('Chars.lean')
        if tables is not None and write_if_changed(os.path.join(OUT_DIR, 'Tables.lean'), tables): changed.append('Tables.lean')
        if census is not None and write_if_changed(os.path.join(OUT_DIR, 'Census.lean'), census): changed.append('Census.lean')
        os.makedirs(os.path.dirname(MAP_OUT), exist_ok=True)
        write_if_changed(MAP_OUT, json.dumps({'repo': repo, 'report': report, 'model_map': mm}, indent=1, sort_keys=True))
    return {'changed': changed, 'report': report, 'info': info, 'model_map': mm}


if __name__ == '__main__':
    r = run()
    print(json.dumps({'changed': r['changed'], 'report': r['report']}))
