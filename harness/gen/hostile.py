"""Hostile code bodies for C03 (and reusable elsewhere): every Markdown control character, backslashes, complete HTML
tags / comments / PIs / declarations / entities, bare `<` `&`, quotes, Markdown-looking phrases, numeric character
references WITH `;`.  Never generated on purpose (known regions, see oracle/c03.py): a numeric reference without `;`
(F-C03-1), `</>` (F-C03-2); tab, CR, STX/ETX (input normalisation, property C09, not C03).
`exotic` sprinkles the characters that `str.splitlines()` -- but NOT the converter, which splits at "\n" only -- treats as line ends
(VT, FF, FS, GS, RS, NEL, U+2028, U+2029) and other Unicode white space (NBSP, EM SPACE, IDEOGRAPHIC SPACE) into a body: in code they are
ordinary characters."""

CHARS = list('*_`\\[](){}#+-.!>|~=:"\'/;<&^$%@?,') + list('abxyz019') + [' '] * 6
PHRASES = ['*x*', '**b**', '_u_', '__s__', '***', '[a](b)', '![i](s "t")', '[r][id]', '[id]: /u "T"', '# h', '## h ##', '- li', '* li', '1. o',
           '> q', '---', '===', '* * *', '<b>', '</b>', '<div>', '</div>', '<div class="c" id=i>', '<p>', '</p>', '<!-- c -->', '<!--', '-->',
           '<?pi x?>', '<?', '?>', '<!DOCTYPE x>', '<![CDATA[z]]>', '<br/>', '<br />', '<hr>', '<script>', '</script>', '<style>', '<pre>',
           '<a href="u">', "<a title='t'>", '<span>', '</span>', '<x-y>', '<http://a.b/c>', '<m@e.x>', '&amp;', '&lt;', '&gt;', '&quot;',
           '&copy;', '&#169;', '&#xA9;', '&#38;', '&#x26;', '&', '&a', '&amp', '& ', '<', '< ', '<3', '>', '\\', '\\\\', '\\*', '\\`', '\\<',
           '\\\\\\', '  ', '   ', '`', '``', '```', '~~~', '` `', 'klzzwxh:0001', 'wzxhzdk:0', '{: #i .c}', '| a | b |', 'é', 'ß', '٣',
           'http://x.y', 'a@b.c', '&nbsp;', '&ſ;', '&1;', '</x>', '</ x>', '<a\\>', '</div', '<div', '<a href="', "='", '">', '"', "'"]


def line(rng, lo=1, hi=7):
    toks = []
    for _ in range(rng.randint(lo, hi)):
        toks.append(rng.choice(PHRASES) if rng.random() < 0.6 else rng.choice(CHARS))
    return ''.join(toks)


def clean(s):
    """remove the shapes that are never generated on purpose (adjacent tokens can form them: then the case is tagged)"""
    return s.replace('\t', ' ').replace('\r', '').replace('\x02', '').replace('\x03', '')


LINE_ENDS = ['\x0b', '\x0c', '\x1c', '\x1d', '\x1e', '\x85', '\u2028', '\u2029']      # str.splitlines() boundaries other than \n, \r
UNI_SPACE = ['\xa0', '\u2003', '\u3000']


def exotic(rng, body, k=None):
    """insert 1..3 exotic white-space characters into `body`: mostly BETWEEN two non-white characters of a line (so that no trimming
    rule is involved), sometimes anywhere (line start / end, next to a newline)"""
    for _ in range(k or rng.choice([1, 1, 2, 3])):
        ch = rng.choice(LINE_ENDS) if rng.random() < 0.8 else rng.choice(UNI_SPACE)
        inner = [i for i in range(1, len(body)) if not body[i - 1].isspace() and not body[i].isspace()]
        if inner and rng.random() < 0.7: i = rng.choice(inner)
        else: i = rng.randint(0, len(body))
        body = body[:i] + ch + body[i:]
    return body
