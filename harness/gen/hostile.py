"""Hostile code bodies for C03 (and reusable elsewhere): every Markdown control character, backslashes, complete HTML
tags / comments / PIs / declarations / entities, bare `<` `&`, quotes, Markdown-looking phrases, numeric character
references WITH `;`.  Never generated on purpose (known regions, see oracle/c03.py): a numeric reference without `;`
(F-C03-1), `</>` (F-C03-2); tab, CR, STX/ETX (input normalisation, property C09, not C03)."""

CHARS = list('*_`\\[](){}#+-.!>|~=:"\'/;<&^$%@?,') + list('abxyz019') + [' '] * 6
PHRASES = ['*x*', '**b**', '_u_', '__s__', '***', '[a](b)', '![i](s "t")', '[r][id]', '[id]: /u "T"', '# h', '## h ##', '- li', '* li', '1. o',
           '> q', '---', '===', '* * *', '<b>', '</b>', '<div>', '</div>', '<div class="c" id=i>', '<p>', '</p>', '<!-- c -->', '<!--', '-->',
           '<?pi x?>', '<?', '?>', '<!DOCTYPE x>', '<![CDATA[z]]>', '<br/>', '<br />', '<hr>', '<script>', '</script>', '<style>', '<pre>',
           '<a href="u">', "<a title='t'>", '<span>', '</span>', '<x-y>', '<http://a.b/c>', '<m@e.x>', '&amp;', '&lt;', '&gt;', '&quot;',
           '&copy;', '&#169;', '&#xA9;', '&#38;', '&#x26;', '&', '&a', '&amp', '& ', '<', '< ', '<3', '>', '\\', '\\\\', '\\*', '\\`', '\\<',
           '\\\\\\', '  ', '   ', '`', '``', '```', '~~~', '` `', 'klzzwxh:0001', 'wzxhzdk:0', '{: #i .c}', '| a | b |', 'é', 'ß', '٣',
           'http://x.y', 'a@b.c', '&nbsp;', '&ſ;', '&1;', '</x>', '</ x>', '<a\\>', '</div', '<div', '<a href="', "='", '">', '"', "'"]


def line(rng, lo=1, hi=7):
    toks = []
    for _ in range(rng.randint(lo, hi)):
        toks.append(rng.choice(PHRASES) if rng.random() < 0.6 else rng.choice(CHARS))
    return ''.join(toks)


def clean(s):
    """remove the shapes that are never generated on purpose (adjacent tokens can form them: then the case is tagged)"""
    return s.replace('\t', ' ').replace('\r', '').replace('\x02', '').replace('\x03', '')
