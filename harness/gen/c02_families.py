"""Input families for the totality search (C02): arbitrary code points, long runs of one markup character, deep nesting,
unterminated raw HTML.  All randomness from the rng passed in.  Sizes are chosen so that one conversion of the unchanged
implementation stays well below a second (the backtick pattern is cubic in the length of a tick run: 400 ticks = 0.2 s,
2000 ticks = 25 s; `[` x 3000 = 2.5 s), and so that list nesting stays far below the F-C02-3 region (> 60 levels; the
implementation gives up near 500 levels, whether the levels are indented items or markers repeated on one line
`- - - - x`; runs of list markers are therefore capped at 40, 52 with the interleaving and the prefix)."""
from . import common as G


# ---------------------------------------------------------------- arbitrary code points (no lone surrogates)
_RANGES = [(0x00, 0x1f, 3), (0x20, 0x7e, 8), (0x7f, 0xa0, 2), (0xa1, 0x24f, 3), (0x250, 0x2fff, 2), (0x3000, 0xd7ff, 2),
           (0xe000, 0xffff, 2), (0x10000, 0x1ffff, 2), (0x20000, 0x10ffff, 1)]
_SPECIAL = ['\x02', '\x03', '\r', '\n', '\t', '\x00', '\x0b', '\x0c', '\x1c', '\x1d', '\x1e', '\x85', ' ', ' ', '﻿',
            '​', '‍', '‮', '￾', '￿', '\U0010ffff', '\U0001F600', '́', '٠', 'İ', 'ſ', 'K']


def codepoints(rng, lo=1, hi=600):
    n = rng.randint(lo, rng.choice([8, 40, 150, hi]))
    tot = sum(w for _, _, w in _RANGES)
    out = []
    for _ in range(n):
        r = rng.random()
        if r < 0.08:
            out.append(rng.choice(_SPECIAL)); continue
        if r < 0.30:
            out.append(rng.choice('*_`[]()<>&\\#-+!.:|{}~^="\' \n\n')); continue
        x = rng.random() * tot
        for a, b, w in _RANGES:
            if x < w:
                out.append(chr(rng.randint(a, b))); break
            x -= w
    return ''.join(out)


# ---------------------------------------------------------------- long runs of one token
# (token, max repetitions).  The length actually used is drawn from [max/8, max].
RUNS = [('*', 2000), ('**', 600), ('`', 400), ('``', 150), ('[', 300), (']', 2000), ('![', 300), ('(', 2000), (')', 2000), ('<', 2000),
        ('>', 1000), ('&', 2000), ('\\', 2001), ('_ ', 1000), ('_', 2000), ('#', 2000), ('-', 2000), ('=', 2000), ('+', 1000),
        ('!', 2000), ('|', 1500), ('~', 1500), ('^', 1000), ('{', 1000), ('}', 1000), (':', 1000), ('"', 1000), ("'", 1000),
        (' ', 3000), ('\n', 2000), ('\t', 500), ('\r', 1000), ('a', 3000), ('.', 2000), ('1. ', 40), ('- ', 40), ('* ', 40), ('+ ', 40),
        ('[a][', 200), ('[a](', 300), ('[a]', 800), ('[^a]', 300), ('[[', 250), (']]', 1000), ('*a ', 500), ('*a**b', 300),
        ('_a*b', 400), ('`a', 300), ('\\`', 300), ('\\\\`', 200), ('&#', 1000), ('&a', 800), ('&#x', 600), ('&amp;', 500),
        ('<a ', 500), ('<span>', 300), ('<b>', 400), ('</b>', 400), ('<!', 300), ('<?', 500), ('<![CDATA[', 50), ('<!--', 300),
        ('-->', 400), ('<div>', 50), ('</div>', 200), ('<p>', 100), ('<br/>', 400), ('<x', 500), ('</', 800), ('<a href="', 150),
        ('{: #a }', 200), ('{#a}', 200), ('```', 150), ('~~~', 150), ('```\n', 150), ('"\'', 500), ('--', 800), ('...', 600),
        ('<<', 500), ('>>', 500), ('| a ', 300), ('*[a]: b\n', 120), ('[a]: b\n', 200), ('[^a]: b\n', 60), ('k: v\n', 300),
        ('!!! n\n', 150), (': d\n', 300), ('> ', 600), ('> - ', 20), ('>\n', 300), ('  \n', 500), ('a\n', 800), ('a\n\n', 500), ('# a\n', 400),
        ('a\n===\n', 200), ('***\n', 300), ('<http://a>', 150), ('<a@b.c>', 100), ('[TOC]\n', 100), ('\x02', 600), ('́', 800),
        ('\U0001F600', 500)]
PREFIX = ['', '', '', 'a', 'a ', '# ', '> ', '- ', '    ', '[', '`', '*', '<div>', '<div markdown="1">\n', '[^1]: ', '| ', 'a\n: ', '!!! n\n    ', '```\n', '&', '\\']
SUFFIX = ['', '', '', 'a', ' a', '\n', '\n\na', ']', '`', '*', ')', '</div>', '-->', '\n```', ';', ' "', '\n===', '\n|-|-|', '\\']


def long_run(rng):
    tok, mx = rng.choice(RUNS)
    k = rng.randint(max(1, mx // 8), mx)
    s = tok * k
    if rng.random() < 0.25:          # two runs interleaved with a different token (kept short: half each)
        tok2, mx2 = rng.choice(RUNS)
        k2 = rng.randint(1, max(1, mx2 // 4))
        s = (tok * (k // 2)) + tok2 * k2 + (tok * (k // 2)) if rng.random() < 0.5 else tok * (k // 2) + tok2 * k2
    return rng.choice(PREFIX) + s + rng.choice(SUFFIX), tok


# ---------------------------------------------------------------- deep nesting (lists: at most 25 levels — F-C02-3 starts far above 60)
def deep(rng):
    k = rng.randrange(15)
    w = rng.choice(['a', '*a*', '`a`', '[a](b)', '<b>x</b>', '&amp;', ''])
    if k == 0:
        d = rng.randint(5, 60); return '> ' * d + w, 'quote'
    if k == 1:
        d = rng.randint(100, 400); return '>' * d + ' ' + w, 'quote-glued'
    if k == 2:
        d = rng.randint(3, 25); sep = rng.choice(['\n', '\n\n'])
        m = rng.choice(['- ', '* ', '+ ', '1. ', '12. '])
        return sep.join('    ' * i + m + (w or 'x') for i in range(d)), 'list'
    if k == 3:
        d = rng.randint(3, 25)
        return '\n\n'.join('    ' * i + rng.choice(['- ', '1. ', '> ', '!!! note\n' + '    ' * (i + 1), ': ', '[^%d]: ' % i]) + 'x' for i in range(d)), 'mixed-indent'
    if k == 4:
        d = rng.randint(3, 20); return ''.join(rng.choice(['> ', '- ', '1. ', '* ', '# ']) for _ in range(d)) + w, 'one-line-openers'
    if k == 5:
        d = rng.randint(5, 50); close = rng.random() < 0.5
        return '<div>' * d + w + ('</div>' * d if close else ''), 'div'
    if k == 6:
        d = rng.randint(5, 50); attr = rng.choice(['markdown="1"', 'markdown="block"', 'markdown="span"', 'markdown'])
        return ('<div %s>\n' % attr) * d + (w or 'x') + '\n' + '</div>\n' * rng.choice([0, d // 2, d, d + 3]), 'div-markdown'
    if k == 7:
        return rng.choice(['<!-- ', '<!--', '<? ', '<!DOCTYPE ', '<![CDATA[', '<div ', '<div a="', "<a href='", '<script>', '<pre>', '<style>',
                           '<div markdown="1">', '<p markdown="1"><!--', '<textarea>', '<math>']) + \
            G.soup(rng, G.alphabet(html=True, amp=True, ext=True), 0, 30), 'unclosed'
    if k == 8:
        d = rng.randint(3, 40); return '*' * d + 'a' + '*' * rng.randint(0, d) + ' ' + '_' * d + 'b' + '_' * rng.randint(0, d), 'emphasis-runs'
    if k == 9:
        d = rng.randint(3, 80); return '[' * d + 'a' + ''.join(rng.choice([']', '](u)', '][r]', '][]', '](', '] ']) for _ in range(d)) + '\n\n[r]: /u', 'nested-brackets'
    if k == 10:
        d = rng.randint(3, 60); return '(' * d + '[a](' + '(' * d + 'u' + ')' * rng.randint(0, d + 1) + rng.choice(['', ' "t', ' "t"', " 't'"]) + ')' * rng.randint(0, d + 1), 'nested-parens'
    if k == 11:
        d = rng.randint(3, 15)
        return '\n\n'.join('    ' * i + '!!! note "t"' for i in range(d)) + '\n\n' + '    ' * d + (w or 'x'), 'admonition'
    if k == 12:
        d = rng.randint(2, 12)
        return '\n'.join('    ' * i + 'T%d\n' % i + '    ' * i + ':   d' for i in range(d)), 'def-list'
    if k == 13:
        # fenced code whose attribute braces are malformed (the preprocessor must skip them explicitly or it loops)
        f = rng.choice(['```', '~~~', '````'])
        attrs = ''.join(rng.choice(['{', '}', '}', '.a', '#i', ' ', ' ', 'k=v', 'k="v"', "k='", '=', '"', 'hl_lines="1 2"', 'x', ':']) for _ in range(rng.randint(1, 8)))
        n = rng.randint(1, 3)
        return '\n'.join(f + rng.choice(['', ' ', 'py ']) + '{' + attrs + '}' + '\n' + (w or 'x') + '\n' + f for _ in range(n)), 'fence-attrs'
    d = rng.randint(2, 30)
    return '\n\n'.join('[^%d]: %s' % (i, '    ' * 0 + 'n [^%d]' % ((i + 1) % d)) for i in range(d)) + '\n\n' + ' '.join('[^%d]' % i for i in range(d)), 'footnote-chain'


# ---------------------------------------------------------------- alternating container nesting (quotes between lists)
# The block-quote processor refuses to nest once the interpreter is within 100 frames of its recursion limit, so any
# nesting in which list levels are separated by quote levels is survived by the implementation whatever its depth (the
# remaining markers become paragraph text).  These are legitimate inputs: units of 2-4 markers with at least one quote,
# hence never more than 3 list levels in a row (pure list nesting deeper than 60 is F-C02-3 and is not generated).
def _alt_unit(rng):
    while True:
        u = [rng.choice('quo') for _ in range(rng.randint(2, 4))]
        if 'q' in u and ('u' in u or 'o' in u):
            return u


def nest(levels, rng, multi):
    """text of the nesting `levels` (outermost first; q quote, u bullet list, o ordered list) around the word x;
    multi: every level has a line of its own text before the nested container, otherwise all markers sit on one line"""
    lines = ['x']
    for lv in reversed(levels):
        if lv == 'q':
            m = rng.choice(['> ', '> ', '>'])
            body = [m + ln for ln in lines]
            lines = [m + 'a', m.rstrip()] + body if multi else body
        else:
            m = rng.choice(['- ', '* ', '+ ']) if lv == 'u' else rng.choice(['1. ', '7. ', '12. '])
            if multi:
                lines = [m + 'a', ''] + ['    ' + ln if ln else ln for ln in lines]
            else:
                lines = [m + lines[0]] + ['    ' + ln for ln in lines[1:]]
    return '\n'.join(lines)


def alternating(rng):
    u = _alt_unit(rng)
    multi = rng.random() < 0.3
    d = rng.randint(40, 150) if multi else rng.randint(100, 600)      # levels (a pair quote+list is two)
    off = rng.randrange(len(u))
    levels = [u[(i + off) % len(u)] for i in range(d)]
    if rng.random() < 0.2:      # an irregular order instead of a repeated unit (still at most 3 list levels in a row)
        levels = []; run = 0
        while len(levels) < d:
            c = rng.choice('quo')
            if c != 'q' and run >= 3: c = 'q'
            run = 0 if c == 'q' else run + 1
            levels.append(c)
    t = nest(levels, rng, multi)
    if rng.random() < 0.2:
        t = rng.choice(['a\n\n', '# h\n', '<div markdown="1">\n', '[^1]: ', '!!! note\n    ', ': ']) + t
    return t, 'alternating:' + ('multi-line' if multi else 'one-line')


# ---------------------------------------------------------------- headings that contain raw inline HTML fragments
HFRAG_TAG = ['<b>', '</b>', '<i>x</i>', '<span class="c">', '</span>', '<br>', '<br/>', '<img src="s" alt="a>b">', '<a href="u">', '</a>', '<kbd>k</kbd>', '<x-y z>',
             '<b', 'b>', '<', '>', '<<', '>>', '</', '/>', '<b c="', '">', "<i d='", '<!DOCTYPE x>', '<![CDATA[z]]>', ']]>', '<script>', '</script>', '<style>s</style>']
HFRAG_CMT = ['<!-- c -->', '<!--c-->', '<!-- a -- b -->', '<!-- <b> -->', '<!--', '-->', '-->', '<!--', '<!-->', '<!--->', '--!>', '<!', '<!-', '->', '--', '<!---->', '<!-- `', '` -->']
HFRAG_PI = ['<?php x ?>', '<? y ?>', '<?', '?>', '<?x', '?', '<?php echo "<!--"; ?>']
HFRAG_ENT = ['&amp;', '&lt;', '&gt;', '&#60;', '&#x3e;', '&#62', '&', '&#', '&nosuch;', '&lt;!--', '--&gt;']
HFRAG_MD = ['a', 'b c', 'Zz', 'é', '1', '*e*', '**s**', '_e_', '`c`', '`<!--`', '`-->`', '`<b>`', '[l](u)', '[l](u "-->")', '![i](s)', '[r][]', '\\<', '\\>', '\\-', '\\!', '{#id}', '{: .c }',
            '{: #i k="-->" }', '"q"', "'s'", '---', '...', '<<q>>', '[^1]', '#', '##', '[TOC]', 'ABBR', '[[w]]', '<http://a.b/-->', '<a@b.c>', '  ']
TOC_FRIENDS = ['toc', 'attr_list', 'smarty', 'md_in_html', 'extra', 'abbr', 'footnotes', 'wikilinks', 'legacy_attrs', 'nl2br']


def _hnested(rng):
    """a raw inline construct whose inside is again a sequence of fragments: a start tag with fragments where its attributes
    would be, a comment or PI around fragments — so that openers and closers of one kind occur inside constructs of another"""
    inner = rng.choice(['', ' ']).join(rng.choice(rng.choice([HFRAG_CMT, HFRAG_CMT, HFRAG_PI, HFRAG_ENT, HFRAG_TAG, ['a', 'b="c"', "d='e'", 'f=g', '/', '=']]))
                                       for _ in range(rng.randint(1, 3)))
    k = rng.randrange(6)
    if k <= 2: return '<' + rng.choice(['b', 'i', 'span', 'a', 'img', 'x-y', '/b']) + ' ' + inner + rng.choice(['>', '>', '/>', ' >'])
    if k == 3: return '<!--' + rng.choice(['', ' ']) + inner + rng.choice(['', ' ']) + '-->'
    if k == 4: return '<?' + rng.choice(['', 'php ']) + inner + '?>'
    return '<' + rng.choice(['b', 'span']) + ' t="' + inner.replace('"', '') + '">'


def _hfrags(rng, lo=1, hi=7):
    groups = [HFRAG_TAG, HFRAG_TAG, HFRAG_CMT, HFRAG_CMT, HFRAG_CMT, HFRAG_PI, HFRAG_ENT, HFRAG_MD, HFRAG_MD]
    return rng.choice(['', ' ', ' ', ' ']).join(_hnested(rng) if rng.random() < 0.2 else rng.choice(rng.choice(groups)) for _ in range(rng.randint(lo, hi)))


def heading_html(rng):
    """1-4 headings (ATX any level/closing, Setext) whose text is a sequence of inline HTML fragments — tags, comments,
    stray comment openers/closers, PIs, entities, in any order — mixed with inline Markdown; paragraphs, a TOC marker and
    containers around them"""
    out = []
    if rng.random() < 0.4: out.append(rng.choice(['[TOC]', '[TOC]', ' [TOC] ', '[toc]']))
    for _ in range(rng.randint(1, 4)):
        body = _hfrags(rng)
        k = rng.random()
        if k < 0.7:
            h = '#' * rng.randint(1, 6) + rng.choice([' ', ' ', '']) + body + rng.choice(['', '', ' #', ' ##', ' {#x}', ' {: .c #y }'])
        elif k < 0.9:
            h = (body.replace('\n', ' ') or 'a') + '\n' + rng.choice(['===', '---', '=', '-'])
        else:
            h = '#' * rng.randint(1, 6) + ' ' + body + '\n' + _hfrags(rng, 1, 3)      # heading glued to a following line
        w = rng.random()
        if w < 0.08: h = '> ' + h.replace('\n', '\n> ')
        elif w < 0.16: h = '- ' + h.replace('\n', '\n    ')
        elif w < 0.24: h = '<div markdown="1">\n' + h + '\n</div>'
        elif w < 0.28: h = '!!! note\n    ' + h.replace('\n', '\n    ')
        out.append(h)
        if rng.random() < 0.4: out.append(_hfrags(rng, 1, 5))
        if rng.random() < 0.1: out.append(rng.choice(['<div>\n' + _hfrags(rng) + '\n</div>', '<!--\n' + _hfrags(rng, 1, 3) + '\n-->', '[^1]: ' + _hfrags(rng, 1, 3), '*[ABBR]: t', '[r]: /u']))
    return rng.choice(['\n\n', '\n\n', '\n']).join(out), 'heading-html'


# ---------------------------------------------------------------- md_in_html containers with raw and Markdown blocks in any order
RAW_BLOCKS = ['<pre>raw</pre>', '<pre>raw</pre>', '<pre>\nraw *x*\n\n    more\n</pre>', '<pre><code>a &amp; b</code></pre>', '<p>raw</p>', '<p>a\nb *c*</p>', '<p>unclosed',
              '<table><tr><td>c</td></tr></table>', '<table>\n<tr>\n<td>*c*</td>\n</tr>\n</table>', '<hr>', '<hr />', '<div>raw</div>', '<div>\n\nx\n\n</div>', '<ul><li>x</li></ul>', '<ul>\n</ul>', '<ol></ol>', '<ul>', '<ol start="3">\n<li>x', '<dl></dl>',
              '<script>s < 1</script>', '<!-- c -->', '<h2>raw</h2>', '<textarea>\n    t\n</textarea>', '<br>', '<img src="s">', '<p>', '</p>', '</div>', '<pre>', '</pre>', '<?php x ?>']
MD_BLOCKS = ['para *e*', 'two\nlines', '# h', '## h ##', 'h\n===', 'h\n---', '- a\n- b', '* a\n\n    cont', '1. a\n2. b', '> q', '> q\n> r\n\n> s', '    code', '    code', '    code\n\n    more',
             '\tcode', '```\nfence\n```', '~~~ py\nf\n~~~', '```\nunclosed', '***', '---', '[r]: /u "t"', '| a | b |\n|---|---|\n| c | d |', 'Term\n: def', 'Term\n\n:   def\n\n        code',
             '!!! note\n    x', '!!! note', '[^1]: fn\n\n    more', '*[A]: b', 'a[^1] [r] A', '', ' ', '    ', '- a\n\n        code in item', 'a  \nb', '{: #i }', 'k: v']
SIBLING_PAIRS = [('<pre>raw</pre>', '    code'), ('<pre>raw</pre>', '    code\n\n    more'), ('<pre></pre>', '    code'), ('<pre>raw</pre>', '\tcode'),
                 ('<pre><code>a</code></pre>', '    code'), ('<blockquote>raw</blockquote>', '> q'), ('<blockquote></blockquote>', '> q\n> r'),
                 ('<dl></dl>', 'Term\n: def'), ('<dl><dt>t</dt></dl>', ': def'), ('<p>raw</p>', '    code'), ('<table></table>', '| a | b |\n|---|---|\n| c | d |'),
                 ('<div class="admonition note"></div>', '    x'), ('<div class="footnote"></div>', 'a[^1]\n\n[^1]: n')]
CONTAINERS = ['div', 'div', 'section', 'blockquote', 'article', 'aside', 'details', 'p', 'span', 'li', 'td', 'h1', 'pre', 'table']
MDATTR = ['markdown="1"', 'markdown="1"', 'markdown="block"', 'markdown="span"', 'markdown', "markdown='1'", 'markdown="0"', 'markdown=1', 'MARKDOWN="1"', 'markdown="1" id="i"', 'class="c" markdown="1"']


# further attributes of a container: names and values other processors look for (footnote/toc classes and ids) or that the
# serializer has to cope with (namespace-like and malformed names)
XATTR = ['class="footnote"', 'class="toc"', 'class="admonition note"', 'id="fn:1"', 'id="fnref:1"', 'id="i"', 'title="*t*"', 'a:b="c"', 'xmlns:x="y"', '{a', '{a}b="c"', '{}', '}',
         '1a="b"', 'a=', '=b', 'a="', "a='b", 'data-x', 'markdown="1"', 'markdown="span"', 'style="x:y"', 'hidden', 'a.b="c"', 'é="é"', '&amp;="1"', '/']


VOIDS = ['hr', 'hr', 'hr', 'br', 'img', 'input', 'div', 'p', 'span']


def md_void(rng):
    """a void or self-closing element carrying a markdown attribute and further attributes (valueless ones included), in the three
    spellings `<hr …>`, `<hr … />`, `<hr …/>`: the start-tag, start-end-tag and block/inline paths of the md_in_html extractor each
    rebuild the element from the attribute list"""
    tag = rng.choice(VOIDS)
    attrs = [rng.choice(MDATTR)] + [rng.choice(XATTR + ['hidden', 'noshade', 'disabled', 'data-x']) for _ in range(rng.randint(0, 2))]
    rng.shuffle(attrs)
    return '<%s %s%s' % (tag, ' '.join(attrs), rng.choice([' />', ' />', '/>', '>']))


def md_container(rng, depth=0):
    if depth == 0 and rng.random() < 0.12:
        return md_void(rng)
    tag = rng.choice(CONTAINERS); attr = rng.choice(MDATTR)
    if rng.random() < 0.3:
        extra = ' '.join(rng.choice(XATTR) for _ in range(rng.randint(1, 2)))
        attr = attr + ' ' + extra if rng.random() < 0.6 else extra + ' ' + attr
    items = []
    if rng.random() < 0.25:
        # a raw element followed directly by the Markdown construct whose processor inspects its previous sibling
        raw, md = rng.choice(SIBLING_PAIRS)
        items += [raw, md]
    for _ in range(rng.randint(1, 5)):
        r = rng.random()
        if r < 0.06: items.append(md_void(rng))
        elif r < 0.42: items.append(rng.choice(RAW_BLOCKS))
        elif r < 0.88 or depth >= 2: items.append(rng.choice(MD_BLOCKS))
        else: items.append(md_container(rng, depth + 1))
    body = ''
    for i, it in enumerate(items):
        body += it + (rng.choice(['\n', '\n\n', '\n\n', '\n\n\n']) if i < len(items) - 1 else '')
    op = '<%s %s>' % (tag, attr)
    close = rng.choice(['</%s>' % tag] * 8 + ['', '</%s>' % rng.choice(CONTAINERS)])
    glue1 = rng.choice(['\n', '\n', '\n\n', '', ' '])
    glue2 = rng.choice(['\n', '\n', '\n\n', '', ' '])
    return op + glue1 + body + glue2 + close


def md_in_html_doc(rng):
    parts = []
    for _ in range(rng.randint(1, 3)):
        r = rng.random()
        c = md_container(rng)
        if r < 0.1: c = ''.join(' ' * rng.randint(1, 4) + ln + '\n' for ln in c.split('\n')).rstrip('\n')
        elif r < 0.18: c = '- ' + c.replace('\n', '\n    ')
        elif r < 0.24: c = '> ' + c.replace('\n', '\n> ')
        parts.append(c)
        if rng.random() < 0.4: parts.append(rng.choice(MD_BLOCKS + RAW_BLOCKS))
    return rng.choice(['\n\n', '\n\n', '\n']).join(parts), 'md-in-html'


# ---------------------------------------------------------------- code-block options: fence info strings, brace attribute lists, codehilite headers
# every option name fenced_code / codehilite / the Pygments HTML formatter and lexers read, with values from a hostile pool
OPT_SAFE = ['hl_lines', 'hl_lines', 'hl_lines', 'hl_lines', 'hl_lines', 'linenums', 'linenums', 'guess_lang', 'use_pygments', 'css_class', 'cssclass', 'title', 'id', 'lang_prefix', 'linenos',
            'pygments_formatter', 'k', 'class', 'data-x', 'filename', 'lineanchors', 'linespans', 'cssstyles', 'prestyles', 'cssfile', 'tagsfile', 'tagurlformat']
OPT_RISKY = ['lang', 'style', 'pygments_style', 'noclasses', 'linenostart', 'linenostep', 'linenospecial', 'nowrap', 'full', 'nobackground', 'lineseparator', 'anchorlinenos',
             'wrapcode', 'debug_token_types', 'noclobber_cssfile', 'stripnl', 'stripall', 'ensurenl', 'tabsize', 'encoding', 'inencoding', 'outencoding', 'startinline', 'src', 'options']
OPT_VALUES = ['1', '2', '1 2', '1 3 2', '0', '00', '-1', '+1', '1.5', '1e3', '1,2', '1-3', '²', '①', '٣', '३', '１', '⁵', '½', 'Ⅷ', '1 ²', '① 2', '١ ٢', '1 x', 'x', '', ' ', '  1  ',
              '999999999999999999999', '9' * 300, '1 ' * 60, 'true', 'false', 'True', 'FALSE', 'yes', 'no', 'on', 'off', 'none', 'None', 'null', 'inline', 'table', 'default', 'monokai',
              'python', 'py3', 'text', 'nosuchlang', 'html', 'a=b', 'a="b"', "it's", '"', "'", '\\', '}', '{', '{}', 'é', '<b>', '&amp;', '*e*', 'a b', '#', '.', '\t1', '0x10', '1_0', 'nan', 'inf']
FENCE_LANG = ['', '', 'python', 'py', '.python', 'c++', 'c#', 'text', 'nosuchlang', 'html+django', '²', 'é', '-', '.', '#!']


# characters that are digits or numbers for SOME str predicate (isdigit / isdecimal / isnumeric) or for int() — the four disagree
NUMERICISH = ['²', '³', '①', '⑩', '⁵', '₂', '፩', '٣', '३', '１', '𝟏', '½', 'Ⅷ', '一', '〇', '৪', '０', '꘠']


def _optval(rng):
    if rng.random() < 0.35:
        return rng.choice(['%s', '1 %s', '%s 2', '1 %s 3', '%s%s', '-%s', '+%s', ' %s ']).replace('%s', rng.choice(NUMERICISH), 1).replace('%s', rng.choice(NUMERICISH))
    v = rng.choice(OPT_VALUES)
    if rng.random() < 0.15:
        v = ' '.join(rng.choice(OPT_VALUES[:30]) for _ in range(rng.randint(2, 4)))
    return v


def _optpair(rng):
    k = rng.choice(OPT_SAFE if rng.random() < 0.8 else OPT_RISKY)
    v = _optval(rng)
    q = rng.random()
    if q < 0.35: return '%s="%s"' % (k, v.replace('"', ''))
    if q < 0.55: return "%s='%s'" % (k, v.replace("'", ''))
    if q < 0.85: return '%s=%s' % (k, v.replace(' ', '') or '1')
    if q < 0.92: return k
    return rng.choice(['%s=', '%s= %s', '%s =%s', '=%s%s', '%s==%s']).replace('%s', k, 1).replace('%s', v)


def code_options(rng):
    """1-3 code blocks whose options come in every spelling the extensions parse"""
    out = []
    for _ in range(rng.randint(1, 3)):
        body = '\n'.join(rng.choice(['x = 1', 'def f(): pass', '<b>&amp;</b>', '', '    indented', '# c', '`', '~~~', '```', 'é']) for _ in range(rng.randint(1, 3)))
        f = rng.choice(['```', '```', '~~~', '````', '~~~~'])
        k = rng.randrange(10)
        if k <= 4:      # brace attribute list
            toks = []
            if rng.random() < 0.7: toks.append(rng.choice(['.python', '.py', '.text', '.c', '.nosuchlang', '.²', 'python', '#i', '.a .b']))
            toks += [_optpair(rng) for _ in range(rng.randint(1, 3))]
            if rng.random() < 0.3: rng.shuffle(toks)
            head = f + rng.choice(['', ' ', '  ']) + '{' + rng.choice(['', '', ':', ': ', ' ']) + ' '.join(toks) + rng.choice(['', ' ']) + '}' + rng.choice(['', '', ' ', ' x'])
            blk = head + '\n' + body + '\n' + f
        elif k <= 6:    # info string: language and hl_lines outside braces
            q = rng.choice(['"', '"', "'"])
            head = f + rng.choice(['', ' ']) + rng.choice(FENCE_LANG) + rng.choice(['', ' ']) + rng.choice(['hl_lines=', 'hl_lines=', 'hl_lines =', 'linenums=', 'HL_LINES=']) + q + _optval(rng).replace(q, '') + rng.choice([q, q, q, ''])
            blk = head + rng.choice(['', ' ', ' {.c}']) + '\n' + body + '\n' + f
        else:           # codehilite header in an indented code block: shebang / colons, optional path, language, hl_lines
            q = rng.choice(['"', "'"])
            head = rng.choice([':::', '::', '::::', '#!', '#!/usr/bin/', '#!/usr/bin/env ', ':::/']) + rng.choice(FENCE_LANG) + rng.choice(['', ' ', '  ']) + \
                rng.choice(['', 'hl_lines=' + q + _optval(rng).replace(q, '') + rng.choice([q, q, '']), _optpair(rng)])
            blk = '\n'.join('    ' + ln for ln in [head] + body.split('\n'))
        w = rng.random()
        if w < 0.08: blk = '- a\n\n' + '\n'.join('    ' + ln for ln in blk.split('\n'))
        elif w < 0.14: blk = '\n'.join('> ' + ln for ln in blk.split('\n'))
        elif w < 0.2: blk = '<div markdown="1">\n' + blk + '\n</div>'
        out.append(blk)
    return rng.choice(['\n\n', '\n\n', '\n', '\n\ntext\n\n']).join(out), 'code-options'
