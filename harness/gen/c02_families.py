"""Input families for the totality search (C02): arbitrary code points, long runs of one markup character, deep nesting,
unterminated raw HTML.  All randomness from the rng passed in.  Sizes are chosen so that one conversion of the unchanged
implementation stays well below a second (the backtick pattern is cubic in the length of a tick run: 400 ticks = 0.2 s,
2000 ticks = 25 s; `[` x 3000 = 2.5 s), and so that list nesting stays far below the F-C02-3 region (> 60 levels; the
implementation gives up near 500 levels, whether the levels are indented items or markers repeated on one line
`- - - - x`; runs of list markers are therefore capped at 40, 52 with the interleaving and the prefix)."""
from . import common as G


# ---------------------------------------------------------------- arbitrary code points (no lone surrogates)
_RANGES = [(0x00, 0x1f, 3), (0x20, 0x7e, 8), (0x7f, 0xa0, 2), (0xa1, 0x24f, 3), (0x250, 0x2fff, 2), (0x3000, 0xd7ff, 2),
           (0xe000, 0xffff, 2), (0x10000, 0x1ffff, 2), (0x20000, 0x10ffff, 1)]
_SPECIAL = ['\x02', '\x03', '\r', '\n', '\t', '\x00', '\x0b', '\x0c', '\x1c', '\x1d', '\x1e', '\x85', ' ', ' ', '﻿',
            '​', '‍', '‮', '￾', '￿', '\U0010ffff', '\U0001F600', '́', '٠', 'İ', 'ſ', 'K']


def codepoints(rng, lo=1, hi=600):
    n = rng.randint(lo, rng.choice([8, 40, 150, hi]))
    tot = sum(w for _, _, w in _RANGES)
    out = []
    for _ in range(n):
        r = rng.random()
        if r < 0.08:
            out.append(rng.choice(_SPECIAL)); continue
        if r < 0.30:
            out.append(rng.choice('*_`[]()<>&\\#-+!.:|{}~^="\' \n\n')); continue
        x = rng.random() * tot
        for a, b, w in _RANGES:
            if x < w:
                out.append(chr(rng.randint(a, b))); break
            x -= w
    return ''.join(out)


# ---------------------------------------------------------------- long runs of one token
# (token, max repetitions).  The length actually used is drawn from [max/8, max].
RUNS = [('*', 2000), ('**', 600), ('`', 400), ('``', 150), ('[', 300), (']', 2000), ('![', 300), ('(', 2000), (')', 2000), ('<', 2000),
        ('>', 1000), ('&', 2000), ('\\', 2001), ('_ ', 1000), ('_', 2000), ('#', 2000), ('-', 2000), ('=', 2000), ('+', 1000),
        ('!', 2000), ('|', 1500), ('~', 1500), ('^', 1000), ('{', 1000), ('}', 1000), (':', 1000), ('"', 1000), ("'", 1000),
        (' ', 3000), ('\n', 2000), ('\t', 500), ('\r', 1000), ('a', 3000), ('.', 2000), ('1. ', 40), ('- ', 40), ('* ', 40), ('+ ', 40),
        ('[a][', 200), ('[a](', 300), ('[a]', 800), ('[^a]', 300), ('[[', 250), (']]', 1000), ('*a ', 500), ('*a**b', 300),
        ('_a*b', 400), ('`a', 300), ('\\`', 300), ('\\\\`', 200), ('&#', 1000), ('&a', 800), ('&#x', 600), ('&amp;', 500),
        ('<a ', 500), ('<span>', 300), ('<b>', 400), ('</b>', 400), ('<!', 300), ('<?', 500), ('<![CDATA[', 50), ('<!--', 300),
        ('-->', 400), ('<div>', 50), ('</div>', 200), ('<p>', 100), ('<br/>', 400), ('<x', 500), ('</', 800), ('<a href="', 150),
        ('{: #a }', 200), ('{#a}', 200), ('```', 150), ('~~~', 150), ('```\n', 150), ('"\'', 500), ('--', 800), ('...', 600),
        ('<<', 500), ('>>', 500), ('| a ', 300), ('*[a]: b\n', 120), ('[a]: b\n', 200), ('[^a]: b\n', 60), ('k: v\n', 300),
        ('!!! n\n', 150), (': d\n', 300), ('> ', 600), ('> - ', 20), ('>\n', 300), ('  \n', 500), ('a\n', 800), ('a\n\n', 500), ('# a\n', 400),
        ('a\n===\n', 200), ('***\n', 300), ('<http://a>', 150), ('<a@b.c>', 100), ('[TOC]\n', 100), ('\x02', 600), ('́', 800),
        ('\U0001F600', 500)]
PREFIX = ['', '', '', 'a', 'a ', '# ', '> ', '- ', '    ', '[', '`', '*', '<div>', '<div markdown="1">\n', '[^1]: ', '| ', 'a\n: ', '!!! n\n    ', '```\n', '&', '\\']
SUFFIX = ['', '', '', 'a', ' a', '\n', '\n\na', ']', '`', '*', ')', '</div>', '-->', '\n```', ';', ' "', '\n===', '\n|-|-|', '\\']


def long_run(rng):
    tok, mx = rng.choice(RUNS)
    k = rng.randint(max(1, mx // 8), mx)
    s = tok * k
    if rng.random() < 0.25:          # two runs interleaved with a different token (kept short: half each)
        tok2, mx2 = rng.choice(RUNS)
        k2 = rng.randint(1, max(1, mx2 // 4))
        s = (tok * (k // 2)) + tok2 * k2 + (tok * (k // 2)) if rng.random() < 0.5 else tok * (k // 2) + tok2 * k2
    return rng.choice(PREFIX) + s + rng.choice(SUFFIX), tok


# ---------------------------------------------------------------- deep nesting (lists: at most 25 levels — F-C02-3 starts far above 60)
def deep(rng):
    k = rng.randrange(15)
    w = rng.choice(['a', '*a*', '`a`', '[a](b)', '<b>x</b>', '&amp;', ''])
    if k == 0:
        d = rng.randint(5, 60); return '> ' * d + w, 'quote'
    if k == 1:
        d = rng.randint(100, 400); return '>' * d + ' ' + w, 'quote-glued'
    if k == 2:
        d = rng.randint(3, 25); sep = rng.choice(['\n', '\n\n'])
        m = rng.choice(['- ', '* ', '+ ', '1. ', '12. '])
        return sep.join('    ' * i + m + (w or 'x') for i in range(d)), 'list'
    if k == 3:
        d = rng.randint(3, 25)
        return '\n\n'.join('    ' * i + rng.choice(['- ', '1. ', '> ', '!!! note\n' + '    ' * (i + 1), ': ', '[^%d]: ' % i]) + 'x' for i in range(d)), 'mixed-indent'
    if k == 4:
        d = rng.randint(3, 20); return ''.join(rng.choice(['> ', '- ', '1. ', '* ', '# ']) for _ in range(d)) + w, 'one-line-openers'
    if k == 5:
        d = rng.randint(5, 50); close = rng.random() < 0.5
        return '<div>' * d + w + ('</div>' * d if close else ''), 'div'
    if k == 6:
        d = rng.randint(5, 50); attr = rng.choice(['markdown="1"', 'markdown="block"', 'markdown="span"', 'markdown'])
        return ('<div %s>\n' % attr) * d + (w or 'x') + '\n' + '</div>\n' * rng.choice([0, d // 2, d, d + 3]), 'div-markdown'
    if k == 7:
        return rng.choice(['<!-- ', '<!--', '<? ', '<!DOCTYPE ', '<![CDATA[', '<div ', '<div a="', "<a href='", '<script>', '<pre>', '<style>',
                           '<div markdown="1">', '<p markdown="1"><!--', '<textarea>', '<math>']) + \
            G.soup(rng, G.alphabet(html=True, amp=True, ext=True), 0, 30), 'unclosed'
    if k == 8:
        d = rng.randint(3, 40); return '*' * d + 'a' + '*' * rng.randint(0, d) + ' ' + '_' * d + 'b' + '_' * rng.randint(0, d), 'emphasis-runs'
    if k == 9:
        d = rng.randint(3, 80); return '[' * d + 'a' + ''.join(rng.choice([']', '](u)', '][r]', '][]', '](', '] ']) for _ in range(d)) + '\n\n[r]: /u', 'nested-brackets'
    if k == 10:
        d = rng.randint(3, 60); return '(' * d + '[a](' + '(' * d + 'u' + ')' * rng.randint(0, d + 1) + rng.choice(['', ' "t', ' "t"', " 't'"]) + ')' * rng.randint(0, d + 1), 'nested-parens'
    if k == 11:
        d = rng.randint(3, 15)
        return '\n\n'.join('    ' * i + '!!! note "t"' for i in range(d)) + '\n\n' + '    ' * d + (w or 'x'), 'admonition'
    if k == 12:
        d = rng.randint(2, 12)
        return '\n'.join('    ' * i + 'T%d\n' % i + '    ' * i + ':   d' for i in range(d)), 'def-list'
    if k == 13:
        # fenced code whose attribute braces are malformed (the preprocessor must skip them explicitly or it loops)
        f = rng.choice(['```', '~~~', '````'])
        attrs = ''.join(rng.choice(['{', '}', '}', '.a', '#i', ' ', ' ', 'k=v', 'k="v"', "k='", '=', '"', 'hl_lines="1 2"', 'x', ':']) for _ in range(rng.randint(1, 8)))
        n = rng.randint(1, 3)
        return '\n'.join(f + rng.choice(['', ' ', 'py ']) + '{' + attrs + '}' + '\n' + (w or 'x') + '\n' + f for _ in range(n)), 'fence-attrs'
    d = rng.randint(2, 30)
    return '\n\n'.join('[^%d]: %s' % (i, '    ' * 0 + 'n [^%d]' % ((i + 1) % d)) for i in range(d)) + '\n\n' + ' '.join('[^%d]' % i for i in range(d)), 'footnote-chain'
