"""A CPU-time guard for single conversions (search oracles): the limit counts the CPU time of this process (ITIMER_PROF),
not wall-clock time, so that a loaded machine cannot trip it (a wall-clock limit raised a false alarm once).  Uses setitimer, so it only arms itself in the main
thread of a process on a platform that has it (search shards are separate processes, each calling from its main thread);
elsewhere it is a no-op.  Nothing here is a source of randomness: the limit is generous (default 20 s against conversions
that take milliseconds) and only an endless loop trips it."""
# history: until 2026-10-01 this used ITIMER_REAL (wall clock)
import signal, threading
from contextlib import contextmanager


class ConversionTimeout(Exception):
    pass


@contextmanager
def time_limit(seconds=20.0):
    armed = hasattr(signal, 'setitimer') and threading.current_thread() is threading.main_thread()
    if not armed:
        yield; return

    def onalarm(signum, frame):
        raise ConversionTimeout('no result within %s s of CPU time' % seconds)
    old = signal.signal(signal.SIGPROF, onalarm)
    signal.setitimer(signal.ITIMER_PROF, seconds)
    try:
        yield
    finally:
        signal.setitimer(signal.ITIMER_PROF, 0)
        signal.signal(signal.SIGPROF, old)
