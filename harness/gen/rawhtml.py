"""Raw HTML grammar of DESIGN.md 4.3: block-level elements with attributes in all quoting styles, nested blocks to depth 3,
blank lines, comments, PIs, declarations, CDATA sections, Markdown-looking content.  Returns source text that starts
with `<` (the caller adds the 0..3 spaces of indentation) and ends with `>` (closing tag / `-->` / `?>` / `>` at its line end).

The shapes produced are those for which "well-formed raw HTML block" is unambiguous in the eyes of the code (found by
experiment on the unchanged tree, see oracle/c04.py for the list and the reasons)."""

# every block-level tag of markdown.util.BLOCK_LEVEL_ELEMENTS except: hr (void, own production), script/style/textarea
# (CDATA / RCDATA content elements: the stdlib tokenizer switches mode inside them; produced only with tag-free content)
BLOCK_TAGS = ['address', 'article', 'aside', 'blockquote', 'details', 'div', 'div', 'div', 'dl', 'fieldset', 'figcaption', 'figure', 'footer',
              'form', 'h1', 'h2', 'h3', 'h4', 'h5', 'h6', 'header', 'hgroup', 'main', 'menu', 'nav', 'ol', 'p', 'p', 'pre', 'pre', 'section',
              'table', 'table', 'ul', 'canvas', 'colgroup', 'dd', 'body', 'dt', 'group', 'html', 'iframe', 'li', 'legend', 'math', 'map',
              'noscript', 'output', 'object', 'option', 'progress', 'summary', 'tbody', 'td', 'tfoot', 'th', 'thead', 'tr', 'video', 'center']
CDATA_TAGS = ['script', 'style']
INLINE_TAGS = ['span', 'b', 'i', 'a', 'code', 'em', 'kbd', 'strong', 'sup', 'u', 'x-y', 'img']
NAMES = ['class', 'id', 'data-x', 'title', 'style', 'hidden', 'markdown', 'a:b', 'on_click']
VALUES = ['x', 'a b', 'c-1', '*x*', '# h', '1 < 2', 'a > b', 'x&amp;y', 'é', '`c`', '[l](u)', "it's", 'say "hi"', '', '/p?q=1&r=2', 'x\ny', 'x\n\ny',
          '  padded ', '_u_', 'a=b']
MD_TEXT = ['*x*', '**b**', '# h', '## h2 ##', '- li', '* li\n* li2', '1. one', '`c`', '``c`c``', '[l](u)', '![i](s "t")', '> quote', '    indented', '---',
           'h\n===', 'plain words', 'a  \nb', '\\*esc\\*', '[r][id]', '[id]: /u "T"', '<http://a.b>', '&amp; &copy; &#169; &#xA9;', 'a & b', '1 < 2', 'a > b',
           'é ß ٣', '_u_ __s__', '***', '| a | b |', '```', 'x `y', '"q" \'s\'', 'klzzwxh:0001', '{: #i }']


OPEN_PIECES = [('<li>one\n<li>two', ['li']), ('<p>intro', ['p']), ('<tr><td>a<td>b\n<tr><td>c<td>*d*', ['tr', 'td']), ('<dt>t<dd>*d*', ['dt', 'dd']),
               ('<option>o', ['option']), ('<b>bold', ['b']), ('<span><em>u</span></em>', ['em']), ('<img src="a.png"><br>\n<input name="q">', ['img', 'br', 'input']),
               ('<p>a\n\n<p>b', ['p']), ('<li><p>x<br>', ['li', 'p', 'br'])]


def attr(rng):
    n = rng.choice(NAMES)
    k = rng.random()
    if k < 0.15: return n
    v = rng.choice(VALUES)
    if k < 0.3:
        bare = ''.join(ch for ch in v if ch not in ' \n"\'`=<>&') or 'v'
        return n + '=' + bare
    if k < 0.7:
        return n + rng.choice(['=', '=', ' = ']) + '"' + v.replace('"', '') + '"'
    return n + "='" + v.replace("'", '') + "'"


def attrs(rng, lo=0, hi=3):
    out = ''
    for _ in range(rng.choice([0, 0, 1, 1, 2, 3])):
        out += rng.choice([' ', ' ', '  ', '\n', '\n  ']) + attr(rng)
    return out


def start_tag(rng, tag):
    t = tag if rng.random() < 0.9 else tag.upper()
    return '<' + t + attrs(rng) + rng.choice(['', '', '', ' ', '\n']) + '>'


def end_tag(rng, tag):
    t = tag if rng.random() < 0.9 else tag.upper()
    return '</' + t + rng.choice(['', '', '', '', ' ']) + '>'


def comment(rng):
    if rng.random() < 0.25: return '<!-- ' + tag_soup(rng, (), sep=rng.choice([' ', '\n', '\n\n'])) + ' -->'
    body = rng.choice([' c ', 'c', ' *x* ', ' multi\nline ', ' with\n\nblank ', ' a - b ', ' <div> ', ' </div> ', ' # h\n- li ', '', ' x > y ', ' &amp; ', ' `c` '])
    return '<!--' + body + '-->'


def pi(rng):
    if rng.random() < 0.3: return '<?php echo "' + tag_soup(rng, ()) + '"; ?>'
    return '<?' + rng.choice(['php echo 1; ', 'xml version="1.0"', 'x', 'php\n*x*\n', 'php\n\nblank\n', ' a > b ']) + '?>'


def decl(rng):
    return rng.choice(['<!DOCTYPE html>', '<!doctype html>', '<!DOCTYPE x>', '<!DOCTYPE html PUBLIC "-//W3C//DTD XHTML 1.0//EN">', '<!DocType\nhtml>'])


def cdata(rng):
    if rng.random() < 0.3: return '<![CDATA[ ' + tag_soup(rng, ()) + ' ]]>'
    return '<![CDATA[' + rng.choice([' x ', '*x*', 'a\nb', 'a ] b', '<div>']) + ']]>'


class Unit(str):
    """a PI / CDATA section / declaration placed as CONTENT of a raw block: the extractor consumes it as one unit -- so that tags
    inside it are inert -- only when it starts a line (at most 3 spaces of indentation)"""


class Bearing(str):
    """a nested element that contains a Unit (its lines must not be indented any further)"""


def tag_soup(rng, enclosing, n=None, sep=' '):
    """start and end tags of the ENCLOSING elements (innermost .. outermost) and of other block elements, with words between"""
    names = list(enclosing) * 2 + [rng.choice(BLOCK_TAGS) for _ in range(2)] + ['div']
    toks = []
    for _ in range(n or rng.randint(1, 3)):
        t = rng.choice(names)
        if rng.random() < 0.1: t = t.upper()
        toks.append(rng.choice(['</%s>', '</%s>', '</%s>', '<%s>', '</%s >', '<%s class="c">', '<%s id=i>']) % t)
        if rng.random() < 0.4: toks.append(rng.choice(['Rw', '*Rx*', 'a > b', '&amp;', '# Rh']))
    return sep.join(toks)


def unit(rng, enclosing):
    """PI / CDATA / DOCTYPE / comment whose text contains tags (also the closing tags of the elements it sits in)"""
    k = rng.random()
    nl = rng.choice([' ', ' ', '\n', '\n\n'])
    if k < 0.35:
        soup = tag_soup(rng, enclosing, sep=rng.choice([' ', ' ', '\n']))
        return Unit('<?' + rng.choice(['php echo "', '', 'php' + nl, 'xml ']) + soup + rng.choice(['"; ', ' ', nl, '']) + '?>')
    if k < 0.65:
        soup = tag_soup(rng, enclosing, sep=rng.choice([' ', ' ', '\n']))
        return Unit('<![CDATA[' + rng.choice([' ', '', nl]) + soup + rng.choice([' ', '', nl, ' ] ']) + ']]>')
    if k < 0.8:
        one = rng.choice(['</%s>', '<%s>', '</%s >']) % rng.choice(list(enclosing) + ['div'])
        # a declaration ends at the FIRST `>`: exactly one tag inside; what follows it on the line is plain data of the block
        return Unit(rng.choice(['<!DOCTYPE html ' + one, '<!doctype x="' + one + '" y>', '<!DOCTYPE ' + one + ' >']))
    soup = tag_soup(rng, enclosing, sep=rng.choice([' ', ' ', '\n', '\n\n']))
    return '<!-- ' + soup + rng.choice([' ', '\n', '']) + '-->'            # a comment is a unit anywhere in a line: plain piece


def void(rng):
    a = attrs(rng, 0, 3)
    return '<hr' + a + rng.choice(['>', '>', ' />', '/>'] if a else ['>', '/>', '  />'])      # plain `<hr />` is also what `---` renders to


def inline_elem(rng):
    t = rng.choice(INLINE_TAGS)
    if t == 'img': return '<img src="s" alt="*a*"' + rng.choice(['>', '/>', ' />'])
    return '<' + t + attrs(rng, 0, 3).replace('\n', ' ') + '>' + rng.choice(MD_TEXT[:12] + ['Rx']).split('\n')[0] + '</' + t + '>'


def content(rng, depth, maxdepth=3, enclosing=()):
    """a list of content pieces; each piece is text without leading/trailing newline"""
    out = []
    for _ in range(rng.choice([0, 1, 1, 2, 2, 3, 4])):
        k = rng.random()
        if k < 0.42: out.append(rng.choice(MD_TEXT))
        elif k < 0.5: out.append(unit(rng, enclosing))
        elif k < 0.7 and depth < maxdepth: out.append(element(rng, depth + 1, maxdepth, enclosing=enclosing))
        elif k < 0.78: out.append(comment(rng))
        elif k < 0.84: out.append(inline_elem(rng))
        elif k < 0.88: out.append(void(rng))
        elif k < 0.9: out.append('<br>')
        elif k < 0.96: out.append(cdata_element(rng, enclosing))
        elif k < 0.98 and enclosing:
            # legal HTML that leaves out optional end tags / void elements / mis-nested inline tags: the enclosing element still ends at its own
            # end tag (the stack of open tags is unwound down to the matching name) -- provided no unclosed name equals an enclosing one
            cand = [t for t, open_names in OPEN_PIECES if not (set(open_names) & set(n.lower() for n in enclosing))]
            out.append(rng.choice(cand) if cand else 'Ro')
        else: out.append(rng.choice(MD_TEXT))
    return out


def element(rng, depth=1, maxdepth=3, tag=None, enclosing=()):
    tag = tag or rng.choice(BLOCK_TAGS)
    parts = content(rng, depth, maxdepth, (tag,) + tuple(enclosing))
    st, en = start_tag(rng, tag), end_tag(rng, tag)
    if not parts:
        return st + rng.choice(['', '\n', '\n\n']) + en
    units = any(isinstance(p, Unit) for p in parts)
    bearing = any(isinstance(p, Bearing) for p in parts)
    wrap = Bearing if (units or bearing) else str
    style = rng.random()
    if style < 0.2 and all('\n' not in p for p in parts) and not units and not bearing:
        return st + ' '.join(parts) + en                                     # one line
    sep = lambda: rng.choice(['\n', '\n', '\n', '\n\n', '\n\n\n', '\n  \n'])   # blank / whitespace-only lines inside
    body = parts[0]
    for p in parts[1:]:
        body += sep() + p
    ind = rng.choice(['', '', '  ', '    '])
    if bearing: ind = ''                                   # a Unit further inside must stay within 3 spaces of its line start
    elif units: ind = rng.choice(['', '', ' ', '  ', '   '])
    if ind: body = '\n'.join(ind + l if l.strip() else l for l in body.split('\n'))
    first = rng.choice(['\n', '\n', '\n\n', ''])
    if isinstance(parts[0], Unit): first = rng.choice(['\n', '\n', '\n\n'])       # ... and must START a line
    return wrap(st + first + body + rng.choice(['\n', '\n', '\n\n']) + en)


def cdata_element(rng, enclosing=None):
    """`<script>` / `<style>` element.  Top level (enclosing None): tag-free text, or text that mentions start / end tags of block elements.
    NESTED in an open raw block (enclosing = names of the open elements, innermost first): the text mentions start and end tags of the
    ENCLOSING elements (`<div>\n<script>\ndocument.write("<p>*x*</p></div>");\n</script>\n*x*\n</div>`): inside a CDATA content element
    only its own end tag is markup, also when the element is not the one that opened the raw block."""
    tag = rng.choice(CDATA_TAGS)
    body = rng.choice(['x = 1;', 'a *b* c', 'if (a && b) {}', 'p { color: red }', '/* c */\n\nx', '# h\n- li'])
    if enclosing is not None or rng.random() < 0.3:
        soup = tag_soup(rng, enclosing or (), sep=rng.choice([' ', ' ', '', '\n', '\n\n']))
        body = rng.choice(['document.write("%s");', '/* %s */ p > em { color: red }', "var s = '%s';\nif (a < b && c > d) {}", '%s', '*x*\n%s\n# h',
                           'x = 1;\n\n%s']) % soup
    return '<' + tag + attrs(rng, 0, 3) + '>' + rng.choice(['', '\n']) + body + rng.choice(['', '\n']) + '</' + tag + '>'


def raw_block(rng):
    """-> (kind, text)"""
    k = rng.random()
    if k < 0.62: return 'elem', element(rng, 1, 3)
    if k < 0.72: return 'comment', comment(rng)
    if k < 0.79: return 'pi', pi(rng)
    if k < 0.85: return 'decl', decl(rng)
    if k < 0.92: return 'void', void(rng)
    if k < 0.96: return 'cdata-elem', cdata_element(rng)
    return 'cdata', cdata(rng)
