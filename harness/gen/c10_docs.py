"""Documents for C10 (placeholders never reach the output): structured documents over the core grammar (DESIGN 4.1) and the
extension grammar (4.2) in which every construct that is stashed during conversion (code spans, escapes, links, images,
references, autolinks, entities, inline tags, footnote references, wikilinks, attribute lists, fences, raw blocks)
is nested in every slot another construct offers (link text, destination, title, alt, label, heading, cell, item, term,
definition, footnote body, admonition title; in the lazy continuation line of a list item that begins with a heading or a rule, inside
emphasis nested three deep by one match -- `nested3`; `[[...]]` wikilink brackets around code spans, escapes, entities, links, autolinks,
inline tags -- `wikilink`), plus soups dense in the same tokens.  Everything from `rng`.
Inputs never contain STX/ETX and never spell a placeholder stem."""
from . import common as G

WORDS = ['a', 'b', 'cd', 'foo', 'bar', 'é', '1', 'x y', 'Zz', 'u', '/u', 'http://a.b/c', 'a.b', 'amp', 'q"q', "s's"]
ENT = ['&amp;', '&lt;', '&#38;', '&#x26;', '&copy;', '&', '&a', '&#', '&#12', '&1;', '&nbsp;', '&quot;']
TAGS = ['<b>', '</b>', '<b>x</b>', '<span class="c">y</span>', '<br>', '<br/>', '<i a="*e*">', '<!-- c -->', '<x-y>', '<a href="u">', '</a>', '<kbd>`k`</kbd>']
AUTO = ['<http://a.b/c>', '<https://x.y/?a=1&b=2>', '<a@b.c>', '<mailto:a@b.c>', '<ftp://f.g>', '<http://a.b/*c*>', '<a_b@c.d>']
URLBITS = ['a', 'b.c', 'my', 'file', 'x-y', '/', '/', '.', '_', '\\_', '\\*', '\\.', '\\-', '\\(', '\\\\', '\\`', '`c`', '`a_b`', '``d``', '*e*', '_f_', '**g**', '*', '_', '__', '&amp;', '&', '&#38;', '&lt;',
           '?a=1&b=2', '?q=&amp;r', '#frag', '%20', '(x)', '[y]', '[l](u)', '~', '+', '=', ':', '@', '!', "'", '"', '{: #i }', '--', '...', 'ABBR', '[^1]', '|']


def auto(rng):
    """an angle-bracket autolink or automail whose URL/address carries escapes, code spans, emphasis markers, entities"""
    body = ''.join(rng.choice(URLBITS) for _ in range(rng.randint(1, 6)))
    k = rng.randrange(8)
    if k <= 3:
        return '<' + rng.choice(['http://', 'https://', 'ftp://', 'HTTP://', 'http://a.b/', 'https://example.com/']) + body + '>'
    if k <= 5:
        return '<' + rng.choice(['', '', 'mailto:']) + rng.choice(['a', 'a.b', 'my\\_name', 'x_y', 'a`c`', '*e*', 'a&amp;b', 'a+b']) + '@' + rng.choice(['b.c', 'ex\\-ample.com', 'x_y.z', 'b.`c`', '*b*.c']) + '>'
    if k == 6:
        return '<' + rng.choice(['http://', 'a@']) + body           # unclosed
    return rng.choice(AUTO)


ESCCH = list('\\`*_{}[]()>#+-.!') + ['|', '"', "'", '<', '&', 'a', ' ']
ATTRL = ['{: #i }', '{: .c }', '{#j}', '{.k}', '{: k=v }', '{: k="v w" }', "{: k='v' }", '{: #i .c k=v }', '{: }', '{:}', '{ #i }', '{: title="t" }', '{: a=*e* }', '{: `c` }',
         '{: \\} }', '{: k="}" }', '{: k=[l](u) }', '{: id=x y }', '{: . # = }', '{: =v }', '{: k= }', '{: "q" }']


def w(rng):
    return rng.choice(WORDS)


def inline(rng, depth=0, html=True, ext=True, nobr=False):
    """one inline construct (string); `depth` limits nesting"""
    deep = depth >= 3
    r = rng.random()
    sub = lambda **k: inline(rng, depth + 1, html, ext, **k)
    seq = lambda lo=1, hi=3: rng.choice(['', ' ', ' ']).join(sub() for _ in range(rng.randint(lo, hi)))
    if deep or r < 0.16:
        return w(rng)
    if r < 0.26:
        d = rng.choice(['*', '_', '**', '__', '***'])
        return d + seq() + d
    if r < 0.36:
        t = rng.choice(['`', '`', '``'])
        body = rng.choice([w(rng), '*' + w(rng) + '*', '\\', '\\' + w(rng), w(rng) + '\\', '[a](u)', '&amp;', '<b>', w(rng) + ' ` ' + w(rng) if t == '``' else w(rng), '[a]', '\\`', '|', '{: #i }'])
        return t + body + t
    if r < 0.44:
        return '\\' + rng.choice(ESCCH)
    if r < 0.60:   # inline link / image
        bang = rng.choice(['', '', '!'])
        text = seq(0, 2)
        dest = rng.choice([w(rng), '/u', sub(), '<' + w(rng) + '>', '', w(rng) + '(' + w(rng) + ')', '\\' + rng.choice(ESCCH) + w(rng), sub() + sub(), w(rng) + rng.choice(ENT)])
        title = rng.choice(['', '', ' "t"', " 't'", ' "%s"' % sub(), " '%s'" % sub(), ' "%s %s"' % (w(rng), sub()), ' (%s)' % w(rng)])
        return '%s[%s](%s%s)' % (bang, text, dest, title)
    if r < 0.72:   # reference link / image
        bang = rng.choice(['', '', '!'])
        text = seq(0, 2)
        label = rng.choice(['r1', 'r2', 'r1', 'R1', 'nodef', 'r 3'])
        k = rng.randrange(4)
        return bang + ('[%s][%s]' % (text, label) if k == 0 else '[%s] [%s]' % (text, label) if k == 1 else '[%s][]' % label if k == 2 else '[%s]' % label)
    if r < 0.78:
        return rng.choice(ENT)
    if r < 0.85:
        return auto(rng) if html else w(rng)
    if r < 0.89:
        return rng.choice(TAGS) if html else w(rng)
    if r < 0.91 and not nobr:
        return w(rng) + '  \n' + w(rng)
    if not ext:
        return w(rng)
    if r < 0.93: return rng.choice(['[^1]', '[^2]', '[^1]', '[^nodef]'])
    if r < 0.95: return wikilink(rng, sub)
    if r < 0.98:
        inner = rng.choice(['*e*', '**s**', '`c`', '[l](u)', '![i](s)', '_e_', '[l][r1]']) if rng.random() < 0.8 else sub()
        return inner + rng.choice(ATTRL)
    return rng.choice(['"q"', "'s'", 'a -- b', 'a --- b', '...', '<<g>>' if html else '--', "it's", 'ABBR', 'HTML'])


WIKI_INNER = ['`make`', '`a_b`', '``c`d``', '\\*', '\\_', '\\]', '\\\\', '&amp;', '&#38;', '&', '*e*', '**s**', '_e_', '[l](u)', '![i](s)', '[r1]', '[^1]', '<b>', '<http://a.b/c>', '"q"', "it's",
              'ABBR', 'x_y', 'a-b', '{: #i }']


def wikilink(rng, sub=None):
    """`[[label]]`: plain labels (the documented class: word characters, digits, `_`, space, `-`) and labels AROUND inline markup that is stashed
    before the wikilink pattern runs -- code spans, backslash escapes, entities, links, autolinks, inline tags: no link on the unchanged
    tree (the label class excludes the placeholder's STX and `:`), the brackets stay text and the inner construct is rendered"""
    k = rng.random()
    if k < 0.3: return '[[' + rng.choice(['w', 'a b', w(rng), 'x_y', 'Wiki Page', 'a-b 1', 'é']) + ']]'
    inner = rng.choice(WIKI_INNER) if (sub is None or rng.random() < 0.85) else sub()
    if k < 0.55: return '[[' + inner + ']]'
    pre = rng.choice(['the ', 'a', 'x y ', 'see_', '', ' '])
    post = rng.choice([' tool', 'b', ' y', '_z', '', ' '])
    if k < 0.9: return '[[' + pre + inner + post + ']]'
    return '[[' + pre + inner + ' ' + rng.choice(WIKI_INNER) + post + ']]'


def nested3(rng, html=True, ext=True):
    """strong > em > strong (or em > strong > em) written so that ONE emphasis match nests all three, a stashed construct innermost"""
    x = rng.choice(['`make`', '`a_b`', '\\*', '\\_', '[l](u)', '![i](s)', '[l](u "t")', '``c`d``', inline(rng, 2, html, ext, True)])
    d = rng.choice('*_')
    k = rng.randrange(3)
    if k == 0: return '%s%ssee %sthe %s%s%s tool%s%s here%s%s%s' % (d, d, d, d, d, x, d, d, d, d, d)          # **see *the **X tool** here***
    if k == 1: return '%ssee %s%sthe %s%s tool%s here%s%s%s' % (d, d, d, d, x, d, d, d, d)                      # *see **the *X tool* here***
    return '%s%s%s%s %s%s%s%s%s%s' % (d, d, d, x, w(rng), d, d, w(rng), d, d) if rng.random() < 0.5 else '%s%s%s%s%s%s%s' % (d, d, d, x, d, d, d)


def para(rng, html=True, ext=True, lo=1, hi=4, nobr=False):
    return rng.choice([' ', ' ', '', '\n']).join(inline(rng, 0, html, ext, nobr) for _ in range(rng.randint(lo, hi))).replace('\n\n', '\n')


DEFS = ['[r1]: /f', '[r1]: /f "T"', "[r2]: <http://a.b> 'T2'", '[r2]: /g (T)', '[r 3]: /h\n    "T3"', '[r1]: `c`', '[r2]: /u "*t* `c` &amp;"', '[r1]: /f "a\\"b"']
DEFS_NOHTML = [d for d in DEFS if '<' not in d]


def block(rng, depth=0, html=True, ext=True):
    r = rng.random()
    p = lambda **k: para(rng, html, ext, **k)
    one = lambda: p(lo=1, hi=3, nobr=True).replace('\n', ' ')
    if r < 0.30 or depth >= 2:
        return p()
    if r < 0.40:
        return '#' * rng.randint(1, 6) + ' ' + one() + rng.choice(['', '', ' #', ' {#h1}' if ext else '', ' {: .c k=v }' if ext else '', ' ' + rng.choice(ATTRL) if ext else ''])
    if r < 0.45:
        return one() + '\n' + rng.choice(['===', '---'])
    if r < 0.48:
        return rng.choice(['***', '---', '* * *'])
    if r < 0.54:
        return '\n'.join('    ' + rng.choice([p(lo=1, hi=2, nobr=True).replace('\n', ' '), '&amp; <b> \\* `c`', w(rng)]) for _ in range(rng.randint(1, 2)))
    if r < 0.62:
        body = blocks(rng, depth + 1, html, ext, rng.randint(1, 2))
        return '\n'.join('> ' + ln for ln in body.split('\n'))
    if r < 0.74:
        m = rng.choice(['- ', '* ', '1. ', '+ '])
        loose = rng.random() < 0.4
        items = []
        for _ in range(rng.randint(1, 3)):
            if rng.random() < 0.12:
                # an item that BEGINS with a heading (or a rule) and continues lazily on the next line: the continuation becomes the TAIL of a
                # block-level child of the item; in it emphasis nested three deep with a stashed construct innermost
                head = rng.choice(['#' * rng.randint(1, 3) + ' ' + one(), '# T', '***', '---'])
                items.append(m + head + '\n' + rng.choice(['', '  ', '   ']) + (nested3(rng, html, ext) if rng.random() < 0.7 else one()))
                continue
            body = blocks(rng, depth + 1, html, ext, rng.choice([1, 1, 2]))
            ls = body.split('\n')
            items.append(m + ls[0] + ''.join('\n' + ('    ' + x if x.strip() else x) for x in ls[1:]))
        return ('\n\n' if loose else '\n').join(items)
    if r < 0.78:
        return rng.choice(DEFS if html else DEFS_NOHTML)
    if not ext:
        return p()
    # extension blocks
    k = rng.randrange(10)
    if k == 0:
        f = rng.choice(['```', '~~~', '````'])
        return f + rng.choice(['', 'py', ' {.c #i}', '{: .lang k=v }', ' py hl_lines="1"']) + '\n' + rng.choice([p(), '&amp; <b> \\* `c` [a](u)', '    x']) + '\n' + f
    if k == 1:
        n = rng.randint(1, 3)
        cell = lambda: rng.choice([one(), '`a|b`', 'a\\|b', '', '*e*', '[l](u "t|t")', '\\`|`'])
        rows = ['| ' + ' | '.join(cell() for _ in range(n)) + ' |' for _ in range(rng.randint(1, 3))]
        return rows[0] + '\n|' + '|'.join(rng.choice(['---', ':--', '--:', ':-:']) for _ in range(n)) + '|' + ''.join('\n' + x for x in rows[1:])
    if k == 2:
        return one() + '\n' + rng.choice([':   ', ': ']) + p().replace('\n', '\n    ') + rng.choice(['', '\n:   ' + one()])
    if k == 3:
        lab = rng.choice(['1', '2', '1', 'x y'])
        return '[^%s]: ' % lab + blocks(rng, depth + 1, html, ext, rng.choice([1, 1, 2])).replace('\n', '\n    ')
    if k == 4:
        return '!!! ' + rng.choice(['note', 'warning cls', 'note "%s"' % one().replace('"', ''), 'danger ""']) + '\n    ' + blocks(rng, depth + 1, html, ext, 1).replace('\n', '\n    ')
    if k == 5:
        if rng.random() < 0.08:    # a term that also occurs INSIDE placeholders (code point of an escaped character, stash index, `amp`): F-C10-6
            return '*[%s]: t' % rng.choice(['42', '0', '1', '95', 'amp', '92', ':', ':0', ': '])
        return rng.choice(['*[ABBR]: Abbreviation', '*[HTML]: Hyper *Text* "ML" &amp;', '*[a]: t', '*[foo]: `c` <b>']) if html else '*[ABBR]: Abbreviation "q" &amp;'
    if k == 6:
        return rng.choice(['[TOC]', '[TOC]', '[TOC] x'])
    if k == 7 and html:
        tag = rng.choice(['div', 'p', 'section', 'span', 'blockquote'])
        return '<%s markdown="%s"%s>\n%s\n</%s>' % (tag, rng.choice(['1', 'block', 'span', '0']), rng.choice(['', ' id="i"', ' class="*c*"']), blocks(rng, depth + 1, html, ext, 1), tag)
    if k == 8 and html:
        if rng.random() < 0.25:   # a fence inside a raw block: the raw-HTML stash entry of the block holds the placeholder of the fence
            return rng.choice(['<div>\n```\n%s\n```\n</div>', '<div>\n\n~~~ py\n%s\n~~~\n\n</div>', '<table><tr><td>\n```\n%s\n```\n</td></tr></table>',
                               '<div markdown="1">\n```\n%s\n```\n<p>*raw*</p>\n</div>', '<details>\n<summary>s</summary>\n```\n%s\n```\n</details>']) % rng.choice([p(), 'x', '<b>&amp;</b>'])
        return rng.choice(['<div>\n%s\n</div>', '<div>%s</div>', '<p>%s</p>', '<!-- %s -->', '<pre>\n%s\n</pre>', '<hr>\n%s', '<div>\n\n%s\n\n</div>', '<?php %s ?>', '<script>%s</script>']) % p()
    return p() + '\n' + rng.choice(ATTRL)


def blocks(rng, depth=0, html=True, ext=True, n=None):
    n = n or rng.choice([1, 2, 2, 3, 4])
    return '\n\n'.join(block(rng, depth, html, ext) for _ in range(n))


def document(rng, html=True, ext=True):
    body = blocks(rng, 0, html, ext)
    tail = []
    pool = DEFS if html else DEFS_NOHTML
    if rng.random() < 0.8: tail += rng.sample(pool, rng.randint(1, 3))
    if ext and rng.random() < 0.6: tail += rng.sample(['[^1]: fn *e* `c` [l](u)', '[^2]: n2\n\n    more &amp; text', '*[ABBR]: Abbr', '*[HTML]: H "T"', '[^1]: [l][r1]{: #i }'], rng.randint(1, 2))
    if ext and rng.random() < 0.1:   # many footnotes: every back-link and nbsp placeholder must be restored, not just the first
        k = rng.randint(3, 6)
        body += '\n\n' + ' '.join('x[^n%d]' % i for i in range(k)) + rng.choice(['', ' again[^n0][^n1]'])
        tail += ['[^n%d]: %s' % (i, rng.choice(['note', '*e* `c`', 'p1\n\n    p2', '- li', '    code', ''])) for i in range(k)]
    head = ''
    if ext and rng.random() < 0.12:
        head = rng.choice(['title: T *e*\nauthor: `a`\n\n', '---\nk: v\n---\n', 'k: &amp; <b>\n    more\n\n'])
    if ext and rng.random() < 0.15:
        body = '[TOC]\n\n' + body
    parts = body.split('\n\n')
    for t in tail:
        parts.insert(rng.randint(0, len(parts)), t)
    return head + '\n\n'.join(parts)


# ---------------------------------------------------------------- soups
TOK = ['<http://a.b/', '<https://x/', '<a@b.c', '<mailto:', '>', '>', '*', '**', '_', '`', '``', '\\', '\\\\', '\\`', '`\\', '\\*', '\\[', '\\]', '\\(', '\\)', '!', '[', ']', '(', ')', '[a]', '[r1]', '[x][r1]', '![i][r1]', '](', '](u)', '](u "t")', '][', '![',
       '"', "'", ' "', '" ', ':', '  \n', '# ', '> ', '- ', '1. ', '    ', '---', '===', '{', '}', '|', '~', '^', '.', '+', '-', '=']
EXTTOK = G.EXTTOK + ATTRL + ['[^1]', '[^2]', '[^1]: ', '{:', ' }', '{#', '[[', ']]', 'ABBR', '*[ABBR]: A\n', '!!! note "', '"\n    ', '| ', ' |', '|-|-|\n', '\n: ', '[TOC]\n']


def soup(rng, html=True, ext=True):
    a = TOK * 2 + WORDS + G.SPACE * 2 + ENT + [d + '\n\n' for d in (DEFS if html else DEFS_NOHTML)]
    if html: a = a + TAGS + AUTO + G.HTML
    if ext: a = a + EXTTOK
    return ''.join(rng.choice(a) for _ in range(rng.randint(1, rng.choice([8, 16, 30]))))


def gen(rng, html, ext):
    r = rng.random()
    if r < 0.5: return 'structured', document(rng, html, ext)
    if r < 0.85: return 'soup', soup(rng, html, ext)
    if r < 0.92:
        t = G.mutated(rng, 200)
        return 'mutated', t
    return 'lines', G.lines_doc(rng, 1, 8)
