"""Canonical deep snapshots of object graphs (used by the attribute census of C11 and the write-footprint census of C12).

`snapshot(root)` walks everything reachable from `root` through instance `__dict__`s and containers and returns
    { (object path, 'Class', 'attr') : canonical string of the attribute value }
where nested objects that have a `__dict__` are replaced by a reference to the path at which they were first met (the walk
is breadth-first in attribute insertion order, hence deterministic) and are themselves listed under that path.
Canonical strings contain no addresses and no hash-order dependence (sets are sorted).
"""
import re, types, collections
import xml.etree.ElementTree as etree

_ATOMS = (type(None), bool, int, float, complex, str, bytes)
_PATTERN = type(re.compile(''))
_MATCH = type(re.match('', ''))


def _funcname(f):
    return '%s.%s' % (getattr(f, '__module__', '?'), getattr(f, '__qualname__', getattr(f, '__name__', '?')))


class _Walk:
    def __init__(self):
        self.paths = {}      # id(obj) -> path
        self.queue = collections.deque()
        self.keep = []       # keep visited objects alive so that ids stay unique

    def ref(self, obj, path):
        i = id(obj)
        if i not in self.paths:
            self.paths[i] = path
            self.queue.append((obj, path))
            self.keep.append(obj)
        return '<%s @%s>' % (type(obj).__name__, self.paths[i])

    def canon(self, v, path, depth=0):
        if isinstance(v, _ATOMS):
            # str subclasses (AtomicString) are distinguished from str
            return repr(v) if type(v) in _ATOMS else '%s(%r)' % (type(v).__name__, str(v) if isinstance(v, str) else v)
        if depth > 40:
            return '<deep %s>' % type(v).__name__
        if isinstance(v, _PATTERN):
            return 're(%r,%d)' % (v.pattern, v.flags)
        if isinstance(v, _MATCH):
            return 'Match(%r, %r)' % (v.span(), v.group(0))
        if isinstance(v, (list, tuple, collections.deque)):
            inner = ', '.join(self.canon(x, '%s[%d]' % (path, i), depth + 1) for i, x in enumerate(v))
            return '%s[%s]' % (type(v).__name__ if type(v) not in (list, tuple) else ('L' if type(v) is list else 'T'), inner)
        if isinstance(v, (dict, types.MappingProxyType)):
            items = ['%s: %s' % (self.canon(k, path + '{k}', depth + 1), self.canon(x, '%s{%s}' % (path, k if isinstance(k, str) else repr(k)), depth + 1))
                     for k, x in v.items()]
            return '%s{%s}' % ('' if type(v) is dict else type(v).__name__, ', '.join(items))
        if isinstance(v, (set, frozenset)):
            return 'S{%s}' % ', '.join(sorted(self.canon(x, path + '{}', depth + 1) for x in v))
        if isinstance(v, etree.Element):
            return 'E<%s %s text=%s tail=%s [%s]>' % (v.tag if isinstance(v.tag, str) else _funcname(v.tag), self.canon(dict(sorted(v.attrib.items())), path, depth + 1),
                                                      self.canon(v.text, path, depth + 1), self.canon(v.tail, path, depth + 1),
                                                      ', '.join(self.canon(c, path, depth + 1) for c in v))
        if isinstance(v, (types.FunctionType, types.BuiltinFunctionType, type, types.ModuleType)) or type(v).__name__ in ('method_descriptor', 'wrapper_descriptor'):
            return '<%s %s>' % (type(v).__name__, _funcname(v) if not isinstance(v, types.ModuleType) else v.__name__)
        if isinstance(v, types.MethodType):
            return '<method %s of %s>' % (_funcname(v.__func__), self.canon(v.__self__, path + '.__self__', depth + 1))
        if isinstance(v, (staticmethod, classmethod)):
            return '<%s %s>' % (type(v).__name__, _funcname(v.__func__))
        if isinstance(v, property):
            return '<property>'
        if hasattr(v, '__wrapped__') and hasattr(v, 'cache_info'):  # lru_cache wrapper: the memo is summarised by its size
            return '<lru_cache %s size=%d>' % (_funcname(v.__wrapped__), v.cache_info().currsize)
        if hasattr(v, '__dict__') and isinstance(getattr(v, '__dict__', None), dict):
            return self.ref(v, path)
        return '<%s>' % type(v).__name__


def snapshot(root, name='md'):
    w = _Walk()
    w.ref(root, name)
    out = {}
    while w.queue:
        obj, path = w.queue.popleft()
        cls = type(obj).__name__
        for attr, val in list(vars(obj).items()):
            out[(path, cls, attr)] = w.canon(val, '%s.%s' % (path, attr))
    return out


def diff(a, b):
    """Attributes (as 'Class.attr') whose canonical value differs between two snapshots, with one example each."""
    res = {}
    for k in list(a.keys()) + [k for k in b.keys() if k not in a]:
        va, vb = a.get(k, '<absent>'), b.get(k, '<absent>')
        if va != vb:
            res.setdefault('%s.%s' % (k[1], k[2]), (k[0], va[:200], vb[:200]))
    return res


def namespace_snapshot(ns, name):
    """Snapshot of a module or class namespace (dict): every entry canonicalised deeply (instances reachable from the
    namespace are walked like in `snapshot`).  Returns {(path, kind, attr): canon}."""
    w = _Walk()
    out = {}
    for attr, val in list(ns.items()):
        if attr in ('__builtins__', '__doc__', '__loader__', '__spec__', '__cached__', '__file__', '__annotations__', '__dict__', '__weakref__'):
            continue
        if isinstance(val, (types.ModuleType, type)):
            # classes are fingerprinted on their own; modules likewise
            out[(name, 'ns', attr)] = '<%s %s>' % (type(val).__name__, getattr(val, '__name__', '?'))
            continue
        out[(name, 'ns', attr)] = w.canon(val, '%s.%s' % (name, attr))
    while w.queue:
        obj, path = w.queue.popleft()
        cls = type(obj).__name__
        for attr, val in list(vars(obj).items()):
            out[(path, cls, attr)] = w.canon(val, '%s.%s' % (path, attr))
    return out
