"""Narrow region predicates about the raw-HTML extractor, evaluated with the REAL extractor class.

`first_pass_rest(md, text)`: the part of the (normalised) document that html.parser's first pass (`feed`) leaves
unconsumed because it met an incomplete construct (`<a b="` without closing quote, `<!--` without `-->`, `</x` without
`>`, a `&#` that is not a character reference, a CDATA element without end, ...).  `close()` then re-runs the loop on
that rest with `rawdata` TRUNCATED, while `lineno/offset` keep counting and `lineno_start_cache` keeps positions of
the old buffer: `at_line_start()`, `get_endtag_text()` and the blank-line look-ahead read the wrong places.
Symptoms on the unchanged tree (region "two-phase"): end tags re-spelt from unrelated text (`'\\n<a f="\\n></c>\\nbklzz>'`
-> `</c>` becomes `klzz>`), raw blocks detected / missed at wrong places.
`two_phase(md, text)` is True iff the rest is non-empty, is not the whole document, and contains a further `<`
after its first character (only then a position is ever read in the second pass; after a consumed `&#` the first character counts too).
Returns None if the extractor raises (F-C02-1).
"""
from markdown.htmlparser import HTMLExtractor


def normalised_source(md, text):
    lines = text.split('\n')
    stop = md.preprocessors.get_index_for_name('html_block')
    for i, prep in enumerate(md.preprocessors):
        if i >= stop: break
        lines = prep.run(lines)
    return '\n'.join(lines)


def _first_pass(md, text):
    """-> (rest, normalised source) or None if the extractor raises"""
    md.reset()
    try:
        src = normalised_source(md, text)
        p = HTMLExtractor(md)
        p.feed(src)
        rest = p.rawdata
    except (AssertionError, RecursionError):
        md.reset()
        return None
    md.reset()
    return rest, src


def first_pass_rest(md, text):
    """md: a Markdown instance used ONLY for this purpose (its stash is reset)."""
    r = _first_pass(md, text)
    return None if r is None else (r[0], len(r[1]))


def two_phase(md, text):
    r = _first_pass(md, text)
    if r is None: return None
    rest, src = r
    if not rest or len(rest) >= len(src): return False
    # The rest normally BEGINS with the incomplete construct (its own `<` is plain text in the second pass): only a further `<` matters.
    # One construct is different: a `&#` that is not a character reference but has a `;` somewhere later is consumed ("bail by consuming
    # &#") and the first pass stops right AFTER it -- then the rest begins with ordinary text and its first character counts as well
    # (`    &#</ x>;` -> the end tag is re-spelt `</x>`).
    head = src[:len(src) - len(rest)] if src.endswith(rest) else ''
    return '<' in (rest if head.endswith('&#') else rest[1:])
