"""Documents for C06 (no visible text lost, duplicated or reordered): arbitrary interleavings of DISTINCT alphabetic words
with emphasis, code, list, quote, heading, rule, indentation and escape markup, across blocks — well-formed and
deliberately ill-formed (unbalanced delimiters, lazy continuation, blocks glued with a single line break, odd indents).
Never produced: `<`, `&`, `[`, `]` (raw HTML, entities, link/reference syntax are outside the property's domain).
Digits occur only in list markers and as free-standing punctuation-like tokens; they are not "letters" for the oracle
(an ordered-list marker is markup), so words are purely alphabetic (ASCII and non-ASCII scripts, both cases)."""
from . import common as G

_SYL = ['ka', 'Lo', 'mi', 'RU', 'te', 'sa', 'No', 'vy', 'qu', 'xe', 'zo', 'ph', 'é', 'ß', 'ñ', 'Ω', 'ж', 'ю', '中', 'İ', 'ſ', 'ǅ', 'w', 'J']


def words(rng, k=80):
    """k distinct alphabetic words"""
    out = []; seen = set()
    while len(out) < k:
        w = ''.join(rng.choice(_SYL) for _ in range(rng.randint(1, 3)))
        if w not in seen and w.isalpha():
            seen.add(w); out.append(w)
    return out


class Words:
    def __init__(self, rng):
        self.rng = rng; self.pool = words(rng); self.n = 0

    def __call__(self):
        self.n += 1
        if not self.pool:
            self.pool = [w + 'q' * (self.n // 80 + 1) for w in words(self.rng)]
        return self.pool.pop()


PUNCT = ['!', '(', ')', '"', "'", ':', '.', ',', '-', '+', '#', '>', '=', '~', '{', '}', '|', '1', '12.', '3)', '?', '/', '@', '%', '^', ';']
ESC = ['\\' + c for c in '\\`*_{}()#+-.!>'] + ['\\a', '\\ ', '\\\\\\']


def inline(rng, W, depth=0):
    parts = []
    for _ in range(rng.randint(1, 4)):
        r = rng.random()
        if r < 0.34 or depth >= 3:
            parts.append(' '.join(W() for _ in range(rng.randint(1, 3))))
        elif r < 0.60:
            d = rng.choice(['*', '_', '**', '__', '***', '___', '*', '**'])
            d2 = d if rng.random() < 0.8 else rng.choice(['*', '_', '**', '__', '***', '', ' ' + d, d + ' '])
            body = inline(rng, W, depth + 1)
            if rng.random() < 0.1: body = ' ' + body
            parts.append(d + body + d2)
        elif r < 0.74:
            t = rng.choice(['`', '`', '``', '```'])
            t2 = t if rng.random() < 0.85 else rng.choice(['`', '``', ''])
            body = rng.choice(['', ' ', '*', '\\', '_', '`' if t != '`' else '', '  ']).join(W() for _ in range(rng.randint(1, 3)))
            if rng.random() < 0.2: body = rng.choice([' ', '*', '\\', '**']) + body + rng.choice([' ', '*', '\\', ''])
            parts.append(t + body + t2)
        elif r < 0.84:
            parts.append(rng.choice(ESC) + (W() if rng.random() < 0.5 else ''))
        elif r < 0.92:
            parts.append(rng.choice(PUNCT))
        elif r < 0.96:
            parts.append(rng.choice(['  \n', '\\\n', ' \n', '\n', '   \n']) + W())
        else:
            parts.append(W() + rng.choice(['*', '_', '**', '__']) + W() + rng.choice(['*', '_', '**', '__', '']) + W())
    return rng.choice(['', '', ' ', ' ', ' ']).join(parts) if rng.random() < 0.3 else ' '.join(parts) if rng.random() < 0.7 else ''.join(parts)


def _indent(text, pad, first=None):
    lines = text.split('\n')
    out = []
    for i, ln in enumerate(lines):
        p = first if (i == 0 and first is not None) else pad
        out.append(p + ln if ln.strip() or p.strip() else ln)
    return '\n'.join(out)


def block(rng, W, depth=0):
    r = rng.random()
    if depth >= 3: r = r * 0.55
    if r < 0.22:
        lines = [inline(rng, W) for _ in range(rng.randint(1, 3))]
        return '\n'.join(rng.choice(['', '', '', ' ', '  ', '   ']) + ln for ln in lines)
    if r < 0.32:
        return rng.choice(['', '', ' ', '   ']) + '#' * rng.randint(1, 7) + rng.choice([' ', ' ', '', '  ']) + inline(rng, W) + rng.choice(['', '', ' #', ' ##', '#', ' # ', ' \\#'])
    if r < 0.40:
        return inline(rng, W).replace('\n', ' ') + '\n' + rng.choice(['=', '-']) * rng.randint(1, 5) + rng.choice(['', '', ' ', '  '])
    if r < 0.47:
        c = rng.choice('*-_'); g = rng.choice(['', '', ' ', '  '])
        return rng.choice(['', '', ' ', '   ']) + g.join(c * 1 for _ in range(rng.randint(3, 6))) + rng.choice(['', ' ', '  '])
    if r < 0.55:
        pad = rng.choice(['    ', '    ', '\t', '     ', '        '])
        ls = [pad + rng.choice(['', '  ', '* ', '# ', '> ', '- ', '`', '\\*']) + ' '.join(W() for _ in range(rng.randint(1, 3))) + rng.choice(['', '', '  ', '*', '`'])
              for _ in range(rng.randint(1, 3))]
        if len(ls) > 1 and rng.random() < 0.3: ls.insert(1, rng.choice(['', '    ', ' ']))
        return '\n'.join(ls)
    if r < 0.72:
        body = blocks(rng, W, depth + 1, rng.choice([1, 1, 2, 3]))
        style = rng.randrange(4)
        mark = rng.choice(['> ', '> ', '>', '>  ', ' > ', '   > '])
        if style == 0:
            return '\n'.join(mark + ln if ln.strip() else rng.choice(['>', '', '> ']) for ln in body.split('\n'))
        if style == 1:   # lazy: only the first line of each paragraph carries the marker
            out = []; prev_blank = True
            for ln in body.split('\n'):
                out.append(mark + ln if (prev_blank and ln.strip()) else ln)
                prev_blank = not ln.strip()
            return '\n'.join(out)
        if style == 2:
            return '\n'.join((mark + ln) if rng.random() < 0.7 else ln for ln in body.split('\n'))
        return '\n'.join(mark + ln for ln in body.split('\n'))
    # list
    ordered = rng.random() < 0.4
    loose = rng.random() < 0.4
    items = []
    num = rng.choice([1, 1, 2, 7, 10, 0])
    for i in range(rng.choice([1, 2, 2, 3, 4] if depth == 0 else [1, 2, 2, 3])):
        m = (str(num + i) + '.' if ordered else rng.choice(['*', '+', '-', '-', '*'])) + rng.choice([' ', ' ', ' ', '  ', '   '])
        nb = rng.choice([1, 1, 1, 2, 2, 3])
        body = blocks(rng, W, depth + 1, nb) if rng.random() < 0.6 else inline(rng, W)
        pad = rng.choice(['    ', '    ', '    ', '   ', '  ', '     ', '\t', '        '])
        items.append(rng.choice(['', '', '', ' ', '  ', '   ']) + _indent(body, pad if rng.random() < 0.85 else '', first=m))
    return ('\n\n' if loose else '\n').join(items)


def blocks(rng, W, depth=0, n=None):
    n = n or rng.choice([1, 2, 2, 3, 3, 4, 5])
    out = block(rng, W, depth)
    for _ in range(n - 1):
        out += rng.choice(['\n\n', '\n\n', '\n\n', '\n', '\n', '\n\n\n', '\n \n', '\n    \n', '\n\t\n']) + block(rng, W, depth)
    return out


SOUP_MARK = [t for t in G.MARKUP if '[' not in t and ']' not in t] + ['\\*', '\\`', '\\\\', '\\_', '\\#', '\\>', '\\-', '\\.', '\n    ', '\n> ', '\n- ', '\n1. ', '\n# ', '\n***\n', '\n---\n', '\n===\n',
                                                                       '\n\n    ', '\n\n', '\t', '```', '** ', ' **', '_ ', ' _', '*_', '_*', '`` ', '\\\n']
OPENERS = [o for o in G.LINE_OPENERS if not any(c in o for c in '[]<&')]


def soup(rng, W):
    n = rng.randint(2, rng.choice([8, 20, 40]))
    return ''.join(W() if rng.random() < 0.4 else rng.choice(SOUP_MARK) if rng.random() < 0.8 else rng.choice(G.SPACE) for _ in range(n))


def lines(rng, W):
    out = []
    for _ in range(rng.randint(1, 10)):
        o = rng.choice(OPENERS)
        # replace the opener's own words by fresh ones so that every word stays distinct
        o = ''.join(ch if not ch.isalpha() else '\x00' for ch in o)
        while '\x00' in o:
            i = o.index('\x00'); j = i
            while j < len(o) and o[j] == '\x00': j += 1
            o = o[:i] + W() + o[j:]
        out.append(o + rng.choice(['', ' ' + W(), ' *' + W() + '*', ' `' + W() + '`', ' ' + inline(rng, W).replace('\n', ' ')]))
    return '\n'.join(out)


def gen(rng):
    W = Words(rng)
    r = rng.random()
    if r < 0.55: return 'structured', blocks(rng, W)
    if r < 0.78: return 'soup', soup(rng, W)
    if r < 0.92: return 'lines', lines(rng, W)
    return 'inline', inline(rng, W)
