"""Write-footprint of constructing / using Markdown instances on process-wide state (shared by the censuses of C11 and C12).

`fingerprint()`  canonical snapshot of all module globals, class dictionaries (hence every class-level list/dict/set),
                 function defaults / attributes / closure cells of every loaded `markdown.*` module and of the private
                 html.parser copy.
`phases()`       fingerprint before and after (1) CONSTRUCTING an instance with each bundled extension on its own (short
                 name and dotted name; nothing is converted), (2) constructing one with all of them, (3) converting a
                 batch of documents with several configurations; returns the locations that changed, per phase.
`pristine()`     `phases()` run in a fresh subprocess (the first construction in a process is what shows an idempotent write
                 such as "append once"; a long-running process has already seen it).
A location is (namespace path, attribute).  Allow-lists live with the oracles.
"""
import json, os, subprocess, sys, types
from gen import canon


def load_all():
    import importlib, pkgutil, markdown
    for m in pkgutil.walk_packages(markdown.__path__, 'markdown.'):
        if m.name in ('markdown.test_tools', 'markdown.__main__'): continue
        try: importlib.import_module(m.name)
        except Exception: pass


def _has_contents(cell):
    try: cell.cell_contents; return True
    except ValueError: return False


def _func_state(out, path, f):
    """mutable state a function object can carry: default values, attributes, closure cells"""
    w = canon._Walk()
    extra = {'__defaults__': f.__defaults__, '__kwdefaults__': f.__kwdefaults__, '__dict__': {a: b for a, b in vars(f).items() if a != '__wrapped__'},
             '__closure__': [c.cell_contents for c in (f.__closure__ or ()) if _has_contents(c)]}
    for a, b in extra.items():
        if b: out[(path, 'func', a)] = w.canon(b, a)


def fingerprint():
    out = {}
    mods = {n: m for n, m in list(sys.modules.items()) if (n == 'markdown' or n.startswith('markdown.')) and m is not None and n != 'markdown.test_tools'}
    for n, m in list(mods.items()):
        for k, v in list(vars(m).items()):
            if isinstance(v, types.ModuleType) and getattr(v, '__name__', '') == 'html.parser' and v is not sys.modules.get('html.parser'):
                mods['%s.%s(private html.parser)' % (n, k)] = v
    for n in sorted(mods):
        m = mods[n]
        out.update(canon.namespace_snapshot(vars(m), n))
        for k, v in list(vars(m).items()):
            if isinstance(v, type) and (getattr(v, '__module__', None) == getattr(m, '__name__', None)):
                out.update(canon.namespace_snapshot(vars(v), '%s.%s' % (n, k)))
                for a, f in list(vars(v).items()):
                    f = getattr(f, '__func__', f)
                    if isinstance(f, types.FunctionType): _func_state(out, '%s.%s.%s' % (n, k, a), f)
            elif isinstance(v, types.FunctionType) and getattr(v, '__module__', None) == getattr(m, '__name__', None):
                _func_state(out, '%s.%s' % (n, k), v)
    return out


# stdlib objects with internal caches of their own are not walked into (logging is trusted: DESIGN C12 Limits)
_orig_canon = canon._Walk.canon


def _canon_patched(self, v, path, depth=0):
    import logging
    if isinstance(v, logging.Logger): return '<Logger %s>' % v.name
    return _orig_canon(self, v, path, depth)


if canon._Walk.canon.__name__ != '_canon_patched':
    canon._Walk.canon = _canon_patched


def _diff(before, after):
    res = {}
    for k in list(before) + [k for k in after if k not in before]:
        a, b = before.get(k, '<absent>'), after.get(k, '<absent>')
        if a != b: res[(k[0], k[2])] = (a[:200], b[:200])
    return res


def phases(batch=80, seed=7):
    """[(phase, namespace, attribute, before, after)]"""
    import random, markdown
    from gen import common as C, docs as D
    load_all()
    rng = random.Random(seed)
    out = []
    cur = fingerprint()

    def step(phase):
        nonlocal cur
        nxt = fingerprint()
        for (ns, attr), (a, b) in sorted(_diff(cur, nxt).items()): out.append((phase, ns, attr, a, b))
        cur = nxt
    markdown.Markdown(); step('construct:(no extension)')
    for e in C.EXTENSIONS:
        for name in (e, 'markdown.extensions.' + e):
            try: markdown.Markdown(extensions=[name])
            except Exception: pass
        step('construct:' + e)
    markdown.Markdown(extensions=list(C.EXTENSIONS)); markdown.Markdown(extensions=list(reversed(C.EXTENSIONS))); step('construct:(all)')
    cfgs = [{'extensions': list(C.EXTENSIONS)}, {'extensions': ['markdown.extensions.' + e for e in C.EXTENSIONS]}] + [D.config(rng) for _ in range(6)]
    for c in cfgs:
        try: md = D.make(c)
        except Exception: continue
        for _ in range(max(1, batch // len(cfgs))):
            try: md.reset().convert(D.document(rng))
            except Exception: pass
    step('convert')
    return out


_CHILD = r'''
import sys, json
sys.path[:0] = [%r, %r]
from gen import footprint
sys.stdout.write(json.dumps(footprint.phases(%d)))
'''


def pristine(batch=60):
    """`phases()` in a fresh interpreter that imports the same markdown as this process"""
    import markdown
    root = os.path.dirname(os.path.dirname(os.path.abspath(markdown.__file__)))
    harness = os.path.dirname(os.path.dirname(os.path.abspath(__file__)))
    p = subprocess.run([sys.executable, '-c', _CHILD % (root, harness, batch)], stdout=subprocess.PIPE, stderr=subprocess.PIPE, timeout=600)
    if p.returncode != 0:
        raise RuntimeError('footprint child failed: ' + p.stderr.decode('utf-8', 'replace')[-400:])
    return [tuple(x) for x in json.loads(p.stdout.decode())]
