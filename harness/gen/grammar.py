"""Core construct grammar (DESIGN.md 4.1): document TREES, their Markdown spellings and the HTML the syntax rules prescribe.

    gen_doc(rng, ...)      -> a well-formed (WF, see below) document tree, JSON-able
    render(doc, sp_rng)    -> Markdown source, choosing among equivalent spellings with `sp_rng`
    spec(doc)              -> the expected HTML string, written from the syntax rules / documentation (never calls markdown)

Tree shapes (lists, JSON-able)
  doc    = {'blocks': [block...]}
  block  = ['para', inl] | ['atx', level, inl] | ['setext', level, inl] | ['rule'] | ['code', [line...]]
         | ['quote', [block...]] | ['ul', loose, [item...]] | ['ol', loose, [item...]]        item = [block...] (first = para)
  inl    = [inline...]
  inline = ['text', s] | ['em', inl] | ['strong', inl] | ['code', body] | ['link', inl, dest, title|None]
         | ['image', alt, dest, title|None] | ['auto', url] | ['mail', addr] | ['br'] | ['sb'] | ['esc', c]
  ('sb' is a line break inside a paragraph that is NOT a hard break: it stays a newline in the output.)

Spellings chosen by render (none may change the rendering -- that is property C01):
  blank lines between blocks (1-2);  indent 0-3 of paragraphs / setext titles / rules / quotes / lists at top level and as
  continuation blocks of list items;
  ATX: space(s) after the hashes, closing hashes (none, ' #', ' ##...', glued '#');  Setext underline length;
  rule: character * - _, count >= 3, gaps 0-2, indent 0-3, trailing spaces;   code: 4 spaces, or a tab at top level;
  quote: '> ' or '>' prefix, empty quote line '>' or blank line between the quote's blocks;
  list: marker * + - (per item), any digits for ordered items, 1-3 spaces after the marker;
  emphasis: * or _ (underscore only at word boundaries), ***x*** / ___x___ for a Strong whose only child is an Em;  code span
  fence length;
  link/image: inline `[t](d "T")`, `[t](<d> "T")`, title quotes " or ', reference `[t][id]`, `[t][]`, `[t]` with the
  definition appended at the end or placed among the top-level blocks (`[id]: d "T"`, 'T', (T), <d>, indent 0-3, title on the
  next line), label case at the use site.

WF (canonical spelling constraints, DESIGN 4.1; each found/confirmed by experiment against the implementation):
  W1 adjacent blocks that merge by design are not generated next to each other: list after list, code after code, code after
     list, quote after quote (any nesting level);
  W2 a list tree is tight throughout or loose throughout; tight items contain their text and nested lists only; a loose
     list has >= 2 items or an item with >= 2 blocks (otherwise nothing in the source says "loose");
  W3 Em directly inside Strong / Strong directly inside Em use different delimiter characters (same char: F-C01-1); no Em
     directly in Em, no Strong directly in Strong; at most one Em and one Strong on a path between link boundaries;
  W4 a single-item list whose item is exactly [paragraph, code block] is not generated (F-C01-2: the item text stays
     unwrapped; found by experiment to be the whole region -- with a further block or a further item the text is wrapped);
  W5 code block lines have no trailing whitespace, the body does not start/end with a blank line, no two consecutive blank
     lines; code span bodies are not blank, do not start/end with a space or backtick, contain no tick run of the fence length;
  W6 link destinations contain no spaces, quotes, angle brackets or unbalanced parentheses; titles contain no quotes;
     reference labels are unique (case-insensitively);
  W7 words come from a markup-free vocabulary; Text never starts/ends a block with a space; non-Text inlines are separated
     from each other by Text; a soft/hard break stands between two Texts; the continuation lines of a list item's FIRST
     paragraph are written at the indentation of the list itself (indented further they keep that indentation in the output);
  W8 Esc(c) only for c in ESCAPED_CHARS;
  W9 within one inline list the spelling sequence `__strong__` … `_em_` … `___strong-em___` (all with underscores, in this order,
     anything in between) is not written: the pattern for `__strong _em___` spans the three separate emphases and renders
     `<strong>a__ <em>c_ ___e</em></strong>` (F-C01-3; the `*` spellings, every other order, and any one of the three spelled
     with `*` are fine -- found by experiment); the third one is then spelled `__*e*__`.
"""
import re

VOCAB = ['alpha', 'beta', 'gamma', 'delta', 'x', 'Zed', 'é', 'naïve', 'a1', 'ok', 'Straße', 'λ', 'snake_case_word', 'a_B_9']
# (an underscore INSIDE a word is not markup: "smart" emphasis ignores it)
PUNCT = [',', '.', ';', ':', '?', ' -', ' (aside)', '!']
ESCAPED = list('\\`*_{}[]()>#+-.!')
DESTS = ['/url', 'http://example.com/', 'http://example.com/a_b?x=1&y=2', '/path_(paren)', '#frag', '/a*b*c', 'rel/path.html', '/é', '/u_v_w', 'mailto:a@b.c']
TITLES = ['Title', 'a title', 'T *not em*', 'it(s)', 'x & y', 'é']
CODEBODIES = ['x', 'a b', 'f(x)', '*lit*', '_lit_', '<b>', 'a & b', '&amp;', 'a`b', 'a``b', '[l](u)', '\\', 'a\\', 'x  y', '# not h', '![i](u)', 'a|b', '{x}', '&#38;']
CODELINES = ['code', 'x = 1', 'if a < b && c > d:', '*not em*', '# not heading', '- not list', '> not quote', '  indented', '    more', '<div>', '&amp; &', '`tick`',
             '[l](u)', 'a\\*b', '1. one', 'é', '"q" \'s\'', '***', '===', '    ', '![i](u)']
URLS = ['http://example.com/', 'https://a.b/c?d=e&f=g', 'ftp://files.example.org/x_y', 'http://x.y/*z*']
MAILS = ['a@b.c', 'first.last@example.com']


def _words(rng, lo=1, hi=4):
    return ' '.join(rng.choice(VOCAB) for _ in range(rng.randint(lo, hi)))


# ====================================================================================================== generation
class _Budget:
    def __init__(self, n): self.n = n


def gen_inlines(rng, depth=0, maxdepth=3, allow=frozenset(['em', 'strong', 'link', 'image', 'code', 'auto', 'mail', 'esc', 'br', 'sb']),
                multiline=True, n=None, in_emph=False):
    """an inline sequence: Text (Elem Text)* pattern loosely; first/last never start/end with a space"""
    out = []
    n = rng.choice([0, 0, 1, 1, 2, 3]) if n is None else n
    if depth >= maxdepth: n = 0
    out.append(['text', _words(rng)])
    for _ in range(n):
        kinds = [k for k in ('em', 'strong', 'link', 'image', 'code', 'auto', 'mail', 'esc', 'br', 'sb', 'code', 'em') if k in allow]
        if not multiline: kinds = [k for k in kinds if k not in ('br', 'sb')]
        if not kinds: break
        k = rng.choice(kinds)
        # separator text before the element
        if k in ('br', 'sb'):
            out[-1][1] = out[-1][1].rstrip() or 'w'
            out.append([k]); out.append(['text', _words(rng)]); continue
        sep_before = rng.choice([' ', ' ', ' ', ', ', ' (', '', ': '])
        sep_after = rng.choice([' ', ' ', ' ', ', ', ') ', '', '. '])
        if in_emph and k in ('em', 'strong'):       # W3: nested emphasis is set off by non-word characters (so `_` is available)
            sep_before = sep_before or ' '; sep_after = sep_after or ' '
        out[-1][1] += sep_before
        if k == 'em':
            el = ['em', gen_inlines(rng, depth + 1, maxdepth, allow - {'em', 'br', 'sb'}, False, None, True)]
        elif k == 'strong':
            el = ['strong', gen_inlines(rng, depth + 1, maxdepth, allow - {'strong', 'br', 'sb'}, False, None, True)]
            if rng.random() < 0.12 and 'em' in allow:      # strong whose only child is an em: can be spelled ***x*** / ___x___
                el = ['strong', [['em', gen_inlines(rng, depth + 2, maxdepth, allow - {'strong', 'em', 'br', 'sb'}, False, None, True)]]]
        elif k == 'link':
            inner = (allow - {'link', 'auto', 'mail', 'br', 'sb'}) | {'em', 'strong'}
            el = ['link', gen_inlines(rng, depth + 1, maxdepth, frozenset(inner), False), rng.choice(DESTS), rng.choice(TITLES) if rng.random() < 0.4 else None]
        elif k == 'image':
            el = ['image', _words(rng, 1, 2), rng.choice(DESTS), rng.choice(TITLES) if rng.random() < 0.4 else None]
        elif k == 'code': el = ['code', rng.choice(CODEBODIES)]
        elif k == 'auto': el = ['auto', rng.choice(URLS)]
        elif k == 'mail': el = ['mail', rng.choice(MAILS)]
        else: el = ['esc', rng.choice(ESCAPED)]
        out.append(el)
        out.append(['text', sep_after + _words(rng)])
    # never end on a separator-only text; strip outer spaces
    out[0][1] = out[0][1].lstrip()
    out[-1][1] = out[-1][1].rstrip()
    return _fix_em_nesting(out)


def _fix_em_nesting(inl, have=frozenset()):
    """enforce W3: on a path (between link boundaries) at most one em and one strong: deeper ones are unwrapped"""
    out = []
    for x in inl:
        if x[0] in ('em', 'strong'):
            if x[0] in have or len(have) >= 2:
                out.extend(_fix_em_nesting(x[1], have))
            else:
                out.append([x[0], _fix_em_nesting(x[1], have | {x[0]})])
        elif x[0] == 'link':
            out.append(['link', _fix_em_nesting(x[1], frozenset()), x[2], x[3]])
        else:
            out.append(x)
    # merge adjacent texts produced by unwrapping
    merged = []
    for x in out:
        if x[0] == 'text' and merged and merged[-1][0] == 'text': merged[-1] = ['text', merged[-1][1] + x[1]]
        else: merged.append(x)
    return merged


def gen_blocks(rng, budget, depth, maxdepth, inline_depth=3, in_item=False, tight=None, count=None):
    """a list of blocks respecting W1; `tight` is True/False inside a list tree (None outside)"""
    blocks = []
    count = rng.choice([1, 1, 2, 2, 3, 4]) if count is None else count
    prev = None
    for i in range(count):
        if budget.n <= 0 and blocks: break
        kinds = ['para', 'para', 'para', 'atx', 'setext', 'rule', 'code']
        if depth < maxdepth: kinds += ['quote', 'ul', 'ol', 'ul']
        # W1
        if prev in ('ul', 'ol'): kinds = [k for k in kinds if k not in ('ul', 'ol', 'code')]
        if prev == 'code': kinds = [k for k in kinds if k != 'code']
        if prev == 'quote': kinds = [k for k in kinds if k != 'quote']
        k = rng.choice(kinds)
        budget.n -= 1
        if k == 'para': b = ['para', gen_inlines(rng, 0, inline_depth)]
        elif k == 'atx': b = ['atx', rng.randint(1, 6), gen_inlines(rng, 0, inline_depth, multiline=False) if rng.random() < 0.95 else []]
        elif k == 'setext': b = ['setext', rng.randint(1, 2), gen_inlines(rng, 0, inline_depth, multiline=False)]
        elif k == 'rule': b = ['rule']
        elif k == 'code': b = ['code', gen_code(rng)]
        elif k == 'quote': b = ['quote', gen_blocks(rng, budget, depth + 1, maxdepth, inline_depth, False, None)]
        else: b = gen_list(rng, budget, k, depth, maxdepth, inline_depth, tight)
        blocks.append(b); prev = k
    return blocks


def gen_code(rng):
    lines = []
    for i in range(rng.choice([1, 1, 2, 3, 5])):
        l = rng.choice(CODELINES).rstrip()
        lines.append(l)
    # W5: no blank first/last line, no two consecutive blank lines
    while lines and not lines[0].strip(): lines.pop(0)
    while lines and not lines[-1].strip(): lines.pop()
    out = []
    for l in lines:
        if not l.strip():
            if out and out[-1] == '': continue
            l = ''
        out.append(l)
    return out or ['code']


def gen_list(rng, budget, kind, depth, maxdepth, inline_depth, tight):
    if tight is None: tight = rng.random() < 0.5
    nitems = rng.choice([1, 2, 2, 3])
    items = []
    for _ in range(nitems):
        first = ['para', gen_inlines(rng, 0, inline_depth, multiline=True)]
        budget.n -= 1
        rest = []
        if tight:
            if depth + 1 < maxdepth and rng.random() < 0.3 and budget.n > 0:
                rest = [gen_list(rng, budget, rng.choice(['ul', 'ol']), depth + 1, maxdepth, inline_depth, True)]
        else:
            if rng.random() < 0.5 and budget.n > 0:
                rest = gen_blocks(rng, budget, depth + 1, maxdepth, inline_depth, True, False, count=rng.choice([1, 1, 2]))
        items.append([first] + rest)
    if not tight and len(items) == 1 and len(items[0]) == 1:                          # W2
        items.append([['para', gen_inlines(rng, 0, inline_depth)]])
    if len(items) == 1 and len(items[0]) == 2 and items[0][1][0] == 'code':           # W4 (F-C01-2)
        items[0].append(['para', gen_inlines(rng, 0, inline_depth)])
    return [kind, not tight, items]


def gen_doc(rng, maxblocks=8, maxdepth=4, inline_depth=3):
    budget = _Budget(maxblocks)
    return {'blocks': gen_blocks(rng, budget, 1, maxdepth, inline_depth, count=rng.choice([1, 2, 2, 3, 4, 5]))}


# ====================================================================================================== spec
def esc_text(s):
    return s.replace('&', '&amp;').replace('<', '&lt;').replace('>', '&gt;')


def esc_attr(s):
    return esc_text(s).replace('"', '&quot;')


def spec_inl(inl):
    out = []
    for x in inl:
        k = x[0]
        if k == 'text': out.append(esc_text(x[1]))
        elif k == 'em': out.append('<em>%s</em>' % spec_inl(x[1]))
        elif k == 'strong': out.append('<strong>%s</strong>' % spec_inl(x[1]))
        elif k == 'code': out.append('<code>%s</code>' % esc_text(x[1]))
        elif k == 'link':
            out.append('<a href="%s"%s>%s</a>' % (esc_attr(x[2]), ' title="%s"' % esc_attr(x[3]) if x[3] is not None else '', spec_inl(x[1])))
        elif k == 'image':
            out.append('<img alt="%s" src="%s"%s />' % (esc_attr(x[1]), esc_attr(x[2]), ' title="%s"' % esc_attr(x[3]) if x[3] is not None else ''))
        elif k == 'auto': out.append('<a href="%s">%s</a>' % (esc_attr(x[1]), esc_text(x[1])))
        elif k == 'mail': out.append('<a href="mailto:%s">%s</a>' % (x[1], x[1]))     # compared after decoding numeric entities
        elif k == 'br': out.append('<br />\n')
        elif k == 'sb': out.append('\n')
        elif k == 'esc': out.append(esc_text(x[1]))
        else: raise ValueError(k)
    return ''.join(out)


def spec_block(b):
    k = b[0]
    if k == 'para': return '<p>%s</p>' % spec_inl(b[1])
    if k in ('atx', 'setext'): return '<h%d>%s</h%d>' % (b[1], spec_inl(b[2]), b[1])
    if k == 'rule': return '<hr />'
    if k == 'code': return '<pre><code>%s\n</code></pre>' % esc_text('\n'.join(b[1]))
    if k == 'quote': return '<blockquote>\n%s\n</blockquote>' % spec_blocks(b[1])
    if k in ('ul', 'ol'):
        items = []
        for it in b[2]:
            if b[1]:    # loose: every block of the item is kept as a block
                items.append('<li>\n%s\n</li>' % spec_blocks(it))
            else:       # tight: the first paragraph is unwrapped, nested lists follow it
                items.append('<li>%s%s</li>' % (spec_inl(it[0][1]), ''.join(spec_block(x) + '\n' for x in it[1:])))
        return '<%s>\n%s\n</%s>' % (k, '\n'.join(items), k)
    raise ValueError(k)


def spec_blocks(blocks):
    return '\n'.join(spec_block(b) for b in blocks)


def spec(doc):
    return spec_blocks(doc['blocks'])


_NUMENT = re.compile(r'&#(\d+);')


def decode_numeric(html):
    """mail autolinks are entity-obfuscated: outputs are compared after decoding decimal character references"""
    return _NUMENT.sub(lambda m: chr(int(m.group(1))), html)


# ====================================================================================================== render
def _isword(c):
    return bool(c) and bool(re.match(r'\w', c))


class _Refs:
    def __init__(self, inline_only=False, same_delim=False, force_underscore=False):
        self.defs = []; self.n = 0; self.used = set(); self.inline_only = inline_only; self.same_delim = same_delim
        self.force_underscore = force_underscore; self.hit_c01_3 = False

    def new_id(self, sp):
        self.n += 1
        return rng_choice(sp, ['ref%d', 'R%d', 'l %d', 'id-%d']) % self.n


def rng_choice(sp, xs):
    return xs[sp.randrange(len(xs))]


def _first_char(inl, i, right):
    """first source character that follows element i of the sequence (elements are separated by Text: W7)"""
    if i + 1 < len(inl):
        nx = inl[i + 1]
        if nx[0] == 'text' and nx[1]: return nx[1][0]
        if nx[0] in ('br', 'sb'): return ' '
        return '*'      # not reached under W7; a non-word character
    return right


def render_inl(inl, sp, refs, left='', right='', parent_delim=None, plain_ok=True):
    out = []
    us = 0      # W9 bookkeeping for THIS inline list: 1 = a `__strong__` was written, 2 = ... and later a `_em_`
    for i, x in enumerate(inl):
        k = x[0]
        prev = (out[-1][-1] if out and out[-1] else left)
        nxt = _first_char(inl, i, right)
        if k == 'text': out.append(x[1])
        elif k in ('em', 'strong'):
            n = 1 if k == 'em' else 2
            chars = ['*', '_']
            if parent_delim: chars = [c for c in chars if c != parent_delim]           # W3
            if '_' in chars and (_isword(prev) or _isword(nxt)): chars.remove('_')     # underscore only at word boundaries
            assert chars, 'W3 violated by the tree'
            c = rng_choice(sp, chars)
            sole_em = k == 'strong' and len(x[1]) == 1 and x[1][0][0] == 'em'
            if refs.same_delim and parent_delim and not (parent_delim == '_' and (_isword(prev) or _isword(nxt))):
                c = parent_delim                                                     # F-C01-1 region, on request only
            if refs.force_underscore and '_' in chars: c = '_'
            if sole_em and (sp.random() < 0.5 or refs.force_underscore) and not any(y[0] in ('em', 'strong') for y in x[1][0][1]):
                inner = render_inl(x[1][0][1], sp, refs, c, c, c)
                c2 = None if c in inner else c      # the three-delimiter patterns are not "smart": no such character inside
                if c2 == '_' and us == 2:
                    # W9 / F-C01-3: `__a__ … _c_ … ___e___` in one inline list is read as ONE strong-em spanning all three
                    if refs.force_underscore: refs.hit_c01_3 = True
                    else: c2 = None                  # spell it `__*e*__` instead
                if c2:
                    out.append(c * 3 + inner + c * 3); continue
            if c == '_' and k == 'strong' and us == 0: us = 1
            if c == '_' and k == 'em' and us == 1: us = 2
            out.append(c * n + render_inl(x[1], sp, refs, c, c, c) + c * n)
        elif k == 'code':
            runs = set(len(m) for m in re.findall(r'`+', x[1]))
            lens = [n for n in (1, 2, 3) if n not in runs]
            n = rng_choice(sp, lens)
            out.append('`' * n + x[1] + '`' * n)
        elif k == 'link' or k == 'image':
            bang = '!' if k == 'image' else ''
            text = x[1] if k == 'image' else render_inl(x[1], sp, refs, '[', ']', None)
            dest, title = x[2], x[3]
            style = rng_choice(sp, ['inline', 'inline', 'angle', 'ref', 'collapsed', 'shortcut'])
            if refs.inline_only: style = 'inline'
            simple = k == 'image' or (len(x[1]) == 1 and x[1][0][0] == 'text')
            if style in ('collapsed', 'shortcut') and (not simple or text.lower() in refs.used or nxt in '[(:'):
                style = 'ref'
            if style == 'inline' or style == 'angle':
                d = '<%s>' % dest if style == 'angle' else dest
                if title is not None:
                    q = rng_choice(sp, ['"', "'"]) if "'" not in title and '"' not in title else '"'
                    out.append('%s[%s](%s %s%s%s)' % (bang, text, d, q, title, q))
                else:
                    out.append('%s[%s](%s)' % (bang, text, d))
            else:
                if style == 'ref':
                    rid = refs.new_id(sp)
                    use = rng_choice(sp, [rid, rid, rid.upper(), rid.lower()])        # labels are case-insensitive
                    out.append('%s[%s]%s[%s]' % (bang, text, rng_choice(sp, ['', '', ' ']), use))
                elif style == 'collapsed':
                    rid = text; out.append('%s[%s][]' % (bang, text))
                else:
                    rid = text; out.append('%s[%s]' % (bang, text))
                refs.used.add(rid.lower())
                refs.defs.append((rid, dest, title))
        elif k == 'auto': out.append('<%s>' % x[1])
        elif k == 'mail': out.append('<%s>' % x[1])
        elif k == 'br': out.append('  \n')
        elif k == 'sb': out.append('\n')
        elif k == 'esc': out.append('\\' + x[1])
        else: raise ValueError(k)
    return ''.join(out)


def _indent(sp, ctx):
    return ' ' * sp.randrange(4) if ctx in ('top', 'item') and sp.random() < 0.3 else ''


def render_block(b, sp, refs, ctx):
    """-> list of lines"""
    k = b[0]
    if k == 'para':
        lines = render_inl(b[1], sp, refs).split('\n')
        lines[0] = _indent(sp, ctx) + lines[0]
        return lines
    if k == 'atx':
        text = render_inl(b[2], sp, refs)
        if not text: return ['#' * b[1]]
        closing = rng_choice(sp, ['', '', ' #', ' ' + '#' * b[1], ' ' + '#' * sp.randrange(1, 9), '#'])
        gap = rng_choice(sp, [' ', ' ', '  ', ''])
        if text.endswith('\\') or (b[2][-1][0] == 'esc'): closing = ''
        return ['#' * b[1] + gap + text + closing]
    if k == 'setext':
        text = render_inl(b[2], sp, refs)
        return [_indent(sp, ctx) + text, ('=' if b[1] == 1 else '-') * rng_choice(sp, [1, 2, 3, 5, len(text), 40])]
    if k == 'rule':
        c = rng_choice(sp, ['*', '-', '_'])
        n = rng_choice(sp, [3, 3, 4, 5, 10])
        gap = ' ' * sp.randrange(3)
        units = [c * (1 if gap or sp.random() < 0.7 else 2) for _ in range(n)]
        return [' ' * (sp.randrange(4) if ctx in ('top', 'quote') else 0) + gap.join(units) + ' ' * rng_choice(sp, [0, 0, 1, 3])]
    if k == 'code':
        pre = rng_choice(sp, ['    ', '    ', '\t']) if ctx == 'top' else '    '     # a tab is 4 columns only at column 0
        return [(pre + l) if l else '' for l in b[1]]
    if k == 'quote':
        inner = render_blocks(b[1], sp, refs, 'quote')
        pre = rng_choice(sp, ['> ', '> ', '>'])
        ind = _indent(sp, ctx)
        out = []
        for l in inner:
            if l == '': out.append(ind + '>' if sp.random() < 0.7 else '')       # an empty quote line, or a blank line (the parts merge)
            else: out.append(ind + (pre if not l.startswith(' ') else '> ') + l)      # `>` eats one following space
        return out
    if k in ('ul', 'ol'):
        loose = b[1]
        out = []
        ind = _indent(sp, ctx)
        num = rng_choice(sp, [1, 1, 2, 7, 10, 0])
        for j, it in enumerate(b[2]):
            if k == 'ul': marker = rng_choice(sp, ['*', '+', '-'])
            else:
                marker = '%d.' % num
                num = num + 1 if sp.random() < 0.8 else sp.randrange(100)
            marker += ' ' * rng_choice(sp, [1, 1, 1, 2, 3])
            first = render_block(it[0], sp, refs, 'item')
            if j > 0 and loose: out.append('')
            out.append(ind + marker + first[0])
            out.extend(first[1:])
            for blk in it[1:]:
                if loose: out.append('')
                for l in render_block(blk, sp, refs, 'item'):
                    out.append(('    ' + l) if l else '')
        return out
    raise ValueError(k)


def render_blocks(blocks, sp, refs, ctx):
    out = []
    for i, b in enumerate(blocks):
        if i:
            out.append('')
            if ctx == 'top' and sp.random() < 0.15: out.append('')
        out.extend(render_block(b, sp, refs, ctx))
    return out


def render(doc, sp, inline_only=False, same_delim=False, force_underscore=False, info=None):
    """`force_underscore` (on request only) prefers `_` and the three-delimiter spelling, which is the way INTO the F-C01-3 region;
    `info`, a dict, receives 'c01_3': True when the written source lies in that region"""
    refs = _Refs(inline_only, same_delim, force_underscore)
    chunks = [render_block(b, sp, refs, 'top') for b in doc['blocks']]
    early = []
    if refs.defs and len(chunks) > 1 and sp.random() < 0.3:          # some definitions stand among the top-level blocks
        k = sp.randrange(1, len(refs.defs) + 1)
        early, refs.defs = refs.defs[:k], refs.defs[k:]
        for d in early:
            chunks.insert(sp.randrange(0, len(chunks) + 1), _render_def(d, sp))
    lines = []
    for i, c in enumerate(chunks):
        if i:
            lines.append('')
            if sp.random() < 0.15: lines.append('')
        lines.extend(c)
    if refs.defs:
        lines.append('')
        for d in refs.defs:
            lines.extend(_render_def(d, sp))
            if sp.random() < 0.5: lines.append('')
    if info is not None: info['c01_3'] = refs.hit_c01_3
    return '\n'.join(lines)


def _render_def(d, sp):
    """one reference definition -> lines (`[id]: dest "T"`, 'T', (T), <dest>, indent 0-3, title on the next line)"""
    rid, dest, title = d
    dst = '<%s>' % dest if sp.random() < 0.3 else dest
    ind = ' ' * sp.randrange(4) if sp.random() < 0.3 else ''
    if title is None: return ['%s[%s]: %s' % (ind, rid, dst)]
    forms = ['"%s"', "'%s'"] + (['(%s)'] if '(' not in title and ')' not in title else [])
    t = rng_choice(sp, forms) % title
    if sp.random() < 0.2: return ['%s[%s]: %s' % (ind, rid, dst), '    ' + t]
    return ['%s[%s]: %s %s' % (ind, rid, dst, t)]


# ====================================================================================================== statistics
def constructs(doc, acc=None):
    """count constructs (for `dist`)"""
    acc = {} if acc is None else acc

    def bump(k): acc[k] = acc.get(k, 0) + 1

    def inl(xs, path):
        for x in xs:
            bump('i:' + x[0])
            if x[0] in ('em', 'strong', 'link'):
                if path: bump('i:%s>%s' % (path[-1], x[0]))
                inl(x[1], path + [x[0]])

    def blk(bs, path):
        for b in bs:
            bump('b:' + b[0] + ('.loose' if b[0] in ('ul', 'ol') and b[1] else ''))
            if path: bump('b:%s>%s' % (path[-1], b[0]))
            acc['maxdepth'] = max(acc.get('maxdepth', 0), len(path) + 1)
            if b[0] == 'para': inl(b[1], [])
            elif b[0] in ('atx', 'setext'): inl(b[2], [])
            elif b[0] == 'quote': blk(b[1], path + ['quote'])
            elif b[0] in ('ul', 'ol'):
                for it in b[2]: blk(it, path + [b[0]])
    blk(doc['blocks'], [])
    return acc
