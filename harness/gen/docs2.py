"""Small structured generator of CORE Markdown documents (DESIGN.md 4.1), returning source text.

Every random choice comes from the `rng` handed in.  The generator is deliberately *loose*: it does not keep to the
canonical spelling of 4.1 (adjacent lists, lazy continuations, mixed tight/loose items are all produced), because
its users (C03 surroundings, C08, C09, C15) need variety, not an unambiguous `spec`.  What it guarantees:

* block nesting depth <= 4, inline nesting <= 3, words from a vocabulary without markup characters;
* no reference definitions and no reference-style links (`[x][y]`, `[x]`) -- C15 builds those itself;
* no `<` and no `&` unless `html=True` (then inline tags, entities and autolinks appear in text);
* no backtick unless `code=True` (code spans) / no indented code unless `code=True`;
* every top-level block is returned with its kind so that callers can avoid merging neighbours.

API:  blocks(rng, n, **opt) -> [(kind, text)],  doc(rng, n, **opt) -> text,  inline(rng, depth, **opt) -> text,
      join(blocks) -> text (blank-line separated, 1..3 newlines varied by rng if given).
Kinds: para atx setext rule code quote ulist olist.
"""

WORDS = ['a', 'b', 'cd', 'foo', 'bar', 'baz', 'x', 'y1', 'Zz', 'é', 'lorem', 'ipsum', '7', 'q']
ESCAPABLE = '\\`*_{}[]()>#+-.!'
URLS = ['/u', 'http://e.x/p?q=1', 'u.html', '#frag', '/a/b_c', 'x%20y']
TITLES = ['t', 'T t', 'a title']
INLINE_TAGS = ['<b>x</b>', '<span class="c">', '</span>', '<kbd>k</kbd>', '<br/>', '<a href="u">l</a>', '<i>']
ENTITIES = ['&amp;', '&copy;', '&#169;', '&#xA9;', '&lt;']
AUTOLINKS = ['<http://e.x/a>', '<me@e.x>']


class Opt:
    def __init__(self, code=True, html=False, links=True, breaks=True, escapes=True, maxdepth=4, lazy=True):
        self.code, self.html, self.links, self.breaks, self.escapes = code, html, links, breaks, escapes
        self.maxdepth, self.lazy = maxdepth, lazy


def _o(opt):
    return opt if isinstance(opt, Opt) else Opt(**(opt or {}))


def word(rng):
    return rng.choice(WORDS)


def words(rng, lo=1, hi=3):
    return ' '.join(word(rng) for _ in range(rng.randint(lo, hi)))


def codespan(rng, body=None):
    body = body if body is not None else rng.choice(['c', 'x y', 'a*b*', 'f(x)', '[l](u)', 'a\\', '_u_', '1 # 2', 'a`b'])
    n = 1
    while '`' * n in body and n < 4:
        n += 1
    if n == 1 and rng.random() < 0.2:
        n = 2
    pad = ' ' if (body.startswith('`') or body.endswith('`') or rng.random() < 0.15) else ''
    return '`' * n + pad + body + pad + '`' * n


def inline(rng, depth=0, opt=None):
    """one inline item (no newline unless a hard break)"""
    o = _o(opt)
    kinds = ['text'] * 4 + ['em', 'strong']
    if o.code: kinds += ['code']
    if o.links: kinds += ['link', 'image']
    if o.escapes: kinds += ['esc']
    if o.html: kinds += ['tag', 'entity', 'autolink']
    if depth >= 3:
        kinds = ['text', 'text'] + (['code'] if o.code else []) + (['esc'] if o.escapes else [])
    k = rng.choice(kinds)
    if k == 'text':
        return words(rng)
    if k == 'em':
        d = rng.choice('*_')
        return d + inlines(rng, depth + 1, o, 1, 2) + d
    if k == 'strong':
        d = rng.choice(['**', '__'])
        return d + inlines(rng, depth + 1, o, 1, 2) + d
    if k == 'code':
        return codespan(rng)
    if k == 'esc':
        return '\\' + rng.choice(ESCAPABLE)
    if k == 'link':
        return '[' + inlines(rng, depth + 1, Opt(o.code, o.html, False, False, o.escapes), 1, 2) + ']' + _dest(rng)
    if k == 'image':
        return '![' + words(rng, 0, 2) + ']' + _dest(rng)
    if k == 'tag':
        return rng.choice(INLINE_TAGS)
    if k == 'entity':
        return rng.choice(ENTITIES)
    return rng.choice(AUTOLINKS)


def _dest(rng):
    u = rng.choice(URLS)
    if rng.random() < 0.2: u = '<' + u + '>'
    t = ''
    if rng.random() < 0.4:
        q = rng.choice(['"', "'"])
        t = ' ' + q + rng.choice(TITLES) + q
    return '(' + u + t + ')'


def inlines(rng, depth=0, opt=None, lo=1, hi=4):
    o = _o(opt)
    parts = [inline(rng, depth, o) for _ in range(rng.randint(lo, hi))]
    return rng.choice([' ', ' ', ' ', '']).join(parts) if depth else ' '.join(parts)


def para(rng, opt=None):
    o = _o(opt)
    ls = []
    for i in range(rng.choice([1, 1, 1, 2, 2, 3])):
        l = inlines(rng, 0, o)
        ls.append(l)
    sep = ['\n'] * 3 + (['  \n', '   \n'] if o.breaks else [])
    out = ls[0]
    for l in ls[1:]:
        out += rng.choice(sep) + l
    if rng.random() < 0.1: out += rng.choice([' ', '  '])
    return out


def atx(rng, opt=None):
    o = _o(opt)
    lvl = rng.randint(1, 6)
    txt = inlines(rng, 0, Opt(o.code, o.html, o.links, False, o.escapes), 0, 2)
    close = rng.choice(['', '', ' #', ' ' + '#' * lvl, '#', ' ####### '])
    sp = rng.choice([' ', ' ', '', '  '])
    return '#' * lvl + sp + txt + close


def setext(rng, opt=None):
    o = _o(opt)
    txt = inlines(rng, 0, Opt(o.code, o.html, o.links, False, o.escapes), 1, 2)
    return txt + '\n' + rng.choice('=-') * rng.choice([1, 2, 3, 7]) + rng.choice(['', '', ' '])


def rule(rng):
    ch = rng.choice('*-_')
    n = rng.randint(3, 6)
    gap = rng.choice(['', '', ' ', '  '])
    return ' ' * rng.choice([0, 0, 1, 2, 3]) + gap.join(ch * 1 for _ in range(n)) + rng.choice(['', '', ' ', '   '])


def codeblock(rng):
    ls = []
    for i in range(rng.randint(1, 4)):
        ls.append(rng.choice(['', '  ', '    ']) + rng.choice(['code', 'x = *y*', 'f(a, b)', '# not h', '- not li', '> nq', 'a  b']))
        if rng.random() < 0.2 and i: ls.insert(-1, '')
    return '\n'.join('    ' + l if l else l for l in ls)


def indent(text, n=4, first=None):
    pad = ' ' * n
    ls = text.split('\n')
    return '\n'.join((first if (i == 0 and first is not None) else pad) + l if l else l for i, l in enumerate(ls))


def quote(rng, depth, opt=None):
    o = _o(opt)
    inner = blocks(rng, rng.choice([1, 1, 2, 3]), o, depth + 1)
    style = rng.random()
    out = []
    for bi, (k, t) in enumerate(inner):
        ls = t.split('\n')
        for li, l in enumerate(ls):
            lazy = o.lazy and k == 'para' and li > 0 and rng.random() < 0.3
            mark = rng.choice(['> ', '> ', '>', ' > ', '   > '])
            if mark.endswith('>') and l.startswith(' '): mark += ' '
            out.append(l if lazy else (mark + l if l else '>'))
        if bi < len(inner) - 1:
            out.append('>' if style < 0.6 else '')
    return '\n'.join(out)


def lst(rng, depth, ordered, opt=None):
    o = _o(opt)
    loose = rng.random() < 0.4
    n = rng.randint(1, 4)
    start = rng.choice([1, 1, 2, 7, 10])
    um = rng.choice('*+-')
    items = []
    for i in range(n):
        if rng.random() < 0.1: um = rng.choice('*+-')
        marker = ('%d.' % (start + i) if ordered else um) + rng.choice([' ', ' ', ' ', '  ', '   '])
        lead = ' ' * rng.choice([0, 0, 0, 1, 2, 3])
        first = para(rng, Opt(o.code, o.html, o.links, False, o.escapes)).split('\n')
        # continuation lines of the first paragraph: lazy (unindented) or indented
        body = [lead + marker + first[0]]
        for l in first[1:]:
            body.append(l if (o.lazy and rng.random() < 0.5) else '    ' + l)
        txt = '\n'.join(body)
        if depth + 1 < o.maxdepth and rng.random() < (0.45 if loose else 0.3):
            subs = blocks(rng, rng.choice([1, 1, 2]), o, depth + 1, nested_in_list=True)
            for (k, t) in subs:
                tight_ok = k in ('ulist', 'olist')
                txt += ('\n' if (tight_ok and not loose) else '\n\n') + indent(t, 4)
        items.append(txt)
    return ('\n\n' if loose else '\n').join(items)


def block(rng, depth=0, opt=None, nested_in_list=False):
    o = _o(opt)
    kinds = ['para'] * 4 + ['atx', 'setext', 'rule']
    if o.code: kinds += ['code']
    if depth + 1 < o.maxdepth: kinds += ['quote', 'ulist', 'ulist', 'olist']
    k = rng.choice(kinds)
    if k == 'para': return k, para(rng, o)
    if k == 'atx': return k, atx(rng, o)
    if k == 'setext': return k, setext(rng, o)
    if k == 'rule': return k, rule(rng)
    if k == 'code': return k, codeblock(rng)
    if k == 'quote': return k, quote(rng, depth, o)
    return k, lst(rng, depth, k == 'olist', o)


def blocks(rng, n, opt=None, depth=0, nested_in_list=False):
    o = _o(opt)
    return [block(rng, depth, o, nested_in_list) for _ in range(n)]


def join(bs, rng=None):
    out = ''
    for i, (k, t) in enumerate(bs):
        if i: out += '\n\n' if (rng is None or rng.random() < 0.85) else rng.choice(['\n\n\n', '\n \n', '\n\n\n\n'])
        out += t
    return out


def doc(rng, n=None, opt=None):
    n = n if n is not None else rng.choice([1, 1, 2, 2, 3, 4, 6])
    return join(blocks(rng, n, opt), rng)
