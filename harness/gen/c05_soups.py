"""`<`-free inputs for C05 (text cannot inject markup): soups dense in quotes, brackets, parentheses, ampersand shapes,
backslashes and control characters; link/image/reference syntax with hostile strings in every slot (text, destination,
title, alt, label, definition); exhaustive short strings over the link-syntax alphabet.  Everything from `rng`."""
import itertools
from . import common as G

SMALL = ['[', ']', '(', ')', '"', "'", '&', ';', '#', 'a', '\\', ' ']           # the exhaustive alphabet (DESIGN 5/C05)
AMP = G.AMP + ['&#x1F', '&#0;', '&#xD800;', '&#1114112;', '&amp', '&amp;amp;', '&&', '&;', '&#;', '&#x;', '&#xg;', '&a b;', '&quot;', '&gt;', '&apos;',
               '&AMP;', '&É;', '&a_b;', '&a-b;', '&#12a;', '&#x1g;', '& ', '&\n', '&"', "&'", '&)', '&]', '&\\;', '\\&', '\\&amp;', '&amp\\;',
               # the converter's own ampersand substitute, spelt in the input (STX/ETX are removed by input normalisation, `amp` stays a word)
               '\x02amp\x03', 'a\x02amp\x03b', '\x02amp\x03#38;', '\x02amp\x03amp;']
QUOTES = ['"', '"', "'", "'", '""', "''", '"\'', '\'"', ' "', '" ', " '", "' ", '\\"', "\\'", '`"`', '"`', '&quot;', '“', '＂']
BRACK = ['[', ']', '[', ']', '(', ')', '(', ')', '![', '](', '](', ')(', '][', '[]', '()', '[[', ']]', '((', '))', ']:', '[a]', '[a]:', '[a][a]', '[a][]', '![a]', '![a][a]',
         '](u)', '](u "t")', "](u 't')", '](u (t))', '] (', ']\n(', ']\n[', '\\[', '\\]', '\\(', '\\)', '{', '}']
GT = ['>', '>', '>>', '->', '=>', '">', "'>", '/>', ' />', '>"', '\\>', '&gt;', '-->', ']>', ')>', '> ', '\n> ', 'a>b']
CTRL = ['\x00', '\x01', '\x02', '\x03', '\x04', '\x07', '\x08', '\x0b', '\x0c', '\x0e', '\x1b', '\x1c', '\x1f', '\x7f', '\x85', '\xa0', '\r', '\r\n', '\t',
        ' ', ' ', '﻿', '​', '\U0001F600', '́', '￾']
WORDS = ['a', 'b', 'u', 't', 'foo', '/u', 'http://x/y?a=1&b=2', 'x y', 'é', '1', 'mailto:a@b.c', 'javascript:alert(1)', 'a@b.c', 'http://a.b/(c)', '#frag', '?q=&r', 'Zz']
MARK = ['*', '**', '_', '__', '`', '``', '\\', '\\\\', '!', '#', '# ', '> ', '- ', '1. ', '    ', '  \n', '---', '===', '=', '-', ':', '|', '~', '+', '.']
SPACE = [' ', ' ', ' ', '\n', '\n', '\n\n', '\t', '  ']


def alphabet(rng):
    """a differently weighted alphabet per document, so that some documents are all quotes, others all ampersands"""
    groups = [AMP, QUOTES, BRACK, GT, CTRL, WORDS, MARK, SPACE]
    a = []
    for g in groups:
        a += g * rng.choice([0, 1, 1, 2, 4])
    return a + BRACK + WORDS[:4] + SPACE[:3]


def hostile(rng, lo=0, hi=6, alpha=None):
    """short hostile string for a slot"""
    alpha = alpha or (AMP + QUOTES + GT + CTRL[:8] + WORDS + ['(', ')', '[', ']', '\\', ' ', '*', '`', '_', '\n'])
    return ''.join(rng.choice(alpha) for _ in range(rng.randint(lo, hi)))


def small_string(rng, lo=4, hi=10):
    return ''.join(rng.choice(SMALL) for _ in range(rng.randint(lo, hi)))


def link(rng):
    """one link/image in one of the spellings, with hostile slots; may come with its definition"""
    h = lambda lo=0, hi=5: hostile(rng, lo, hi) if rng.random() < 0.7 else small_string(rng, 0, 5)
    text, dest, title, label = h(0, 4), h(0, 5), h(0, 5), rng.choice(['a', 'b c', 'A', h(1, 3)])
    bang = rng.choice(['', '', '!'])
    q = rng.choice(['"', '"', "'", ''])
    q2 = rng.choice([q, q, q, '"', "'", ''])
    sp = rng.choice([' ', ' ', '', '  ', '\n'])
    k = rng.randrange(9)
    defn = ''
    if k <= 3:
        s = '%s[%s](%s%s%s%s%s)' % (bang, text, dest, sp, q, title, q2)
    elif k == 4:
        s = '%s[%s](%s)' % (bang, text, dest)
    elif k == 5:
        s = '%s[%s][%s]' % (bang, text, label)
    elif k == 6:
        s = '%s[%s][]' % (bang, label); text = label
    elif k == 7:
        s = '%s[%s]' % (bang, label)
    else:
        s = '%s[%s] [%s]' % (bang, text, label)
    if k >= 5 and rng.random() < 0.85:
        tq = rng.choice(['"%s"', "'%s'", '(%s)', '"%s', '%s"', '%s', ' %s '])
        defn = '%s[%s]:%s%s%s%s' % (rng.choice(['', '', ' ', '   ']), label, rng.choice([' ', ' ', '', '\n    ']), h(1, 4) or 'u',
                                    rng.choice([' ', ' ', '\n', '\n    ', '']), tq % title if rng.random() < 0.8 else '')
    return s, defn


def structured(rng):
    """a few blocks of text with links, definitions placed before/after/between"""
    blocks = []; defs = []
    for _ in range(rng.randint(1, 4)):
        parts = []
        for _ in range(rng.randint(1, 4)):
            r = rng.random()
            if r < 0.55:
                s, d = link(rng); parts.append(s)
                if d: defs.append(d)
            elif r < 0.8:
                parts.append(hostile(rng, 1, 4))
            else:
                parts.append(rng.choice(['*%s*', '**%s**', '`%s`', '_%s_', '``%s``', '\\%s']) % hostile(rng, 1, 3))
        blocks.append(rng.choice(['', '', '', '# ', '> ', '- ', '1. ', '    ', '## ']) + rng.choice(['', ' ', '\n']).join(parts)
                      + rng.choice(['', '', '\n===', '\n---', ' #']))
    for d in defs:
        blocks.insert(rng.randint(0, len(blocks)), d)
    return rng.choice(['\n\n', '\n\n', '\n']).join(blocks)


def soup(rng):
    a = alphabet(rng)
    return ''.join(rng.choice(a) for _ in range(rng.randint(1, rng.choice([6, 14, 30]))))


def exhaustive(maxlen):
    for L in range(1, maxlen + 1):
        for t in itertools.product(SMALL, repeat=L):
            yield ''.join(t)


def gen(rng):
    """-> (kind, text) with no `<` in text"""
    r = rng.random()
    if r < 0.36: kind, t = 'soup', soup(rng)
    elif r < 0.62: kind, t = 'structured', structured(rng)
    elif r < 0.74: kind, t = 'small', small_string(rng, 5, 12)
    elif r < 0.80: kind, t = 'small-in-slot', rng.choice(['[a](%s)', '![%s](u)', '[a](u "%s")', "[a](u '%s')", '[%s](u)', '[a]: u "%s"\n\n[a]', '[a]: %s\n\n![a]',
                                                            '![%s][a]\n\n[a]: u', '[a][%s]\n\n[%s]: u', '`%s`', '    %s', '# %s', '*%s*', '[a]: u (%s)\n\n[a]']).replace('%s', small_string(rng, 1, 7))
    elif r < 0.88: kind, t = 'mutated', G.mutated(rng, 160)
    elif r < 0.94: kind, t = 'lines', G.lines_doc(rng, 1, 8) + rng.choice(['', '\n\n' + soup(rng)])
    else: kind, t = 'general-soup', G.soup(rng, G.alphabet(amp=True, ctrl=True) + AMP + QUOTES, 1, 24)
    return kind, t.replace('<', rng.choice(['', '>', '&lt;', '&#60;', '(', '"']))
