"""Trigger predicates of the bundled extensions (DESIGN.md 4.2, used by the non-interference half of C16).

`TRIGGER[E](source)` is True when the source MAY use extension E's syntax.  The property demands that a document for
which it is False renders identically with and without E.  Every predicate was verified on the unchanged tree against
>= 20 000 generated HTML-free documents (token soups, line documents, spliced fixtures, core-grammar documents) and is as
narrow as that experiment allowed; the comments say what had to be included beyond the table of DESIGN 4.2.
"""
import re

_AUTOLINK = re.compile(r'<(?:(?:[Ff]|[Hh][Tt])[Tt][Pp][Ss]?://[^<>\s]*|[^<>\s!@]+@[^<>\s@]+)>')


def html_free(s, autolinks=True):
    """no `<` at all, except (optionally) the two autolink forms"""
    if autolinks: s = _AUTOLINK.sub('', s)
    return '<' not in s


# a line that, after quote markers / list markers / indentation, starts with a colon followed by a space
_DEF = re.compile(r'(^|\n)[ \t>]*(?:(?:[*+-]|\d+\.)[ \t]+[ \t>]*)*:[ \t]')
_ORDERED = re.compile(r'(^|\n)[ \t>]*(?:[*+-][ \t]+[ \t>]*)*\d+\.[ \t]')
_BULLET = re.compile(r'(^|\n)[ \t>]*(?:\d+\.[ \t]+[ \t>]*)*[*+-][ \t]')
_SETEXT = re.compile(r'(^|\n)[ \t>]*(?:(?:[*+-]|\d+\.)[ \t]+[ \t>]*)*[=-]+[ \t]*(\n|$)')


def has_heading(s):
    return '#' in s or bool(_SETEXT.search(s))


_ITEM_B = re.compile(r'^[ ]{0,3}[*+-][ ]+\S')
_ITEM_O = re.compile(r'^[ ]{0,3}\d+\.[ ]+\S')
_UNDERLINE = re.compile(r'^[=-]+[ ]*$')


def newline_in_block(s):
    """a non-blank line directly followed by a non-blank line (a newline that may end up inside inline text) -- except the
    two shapes where it cannot: a Setext underline, and two consecutive top-level list item lines (a tight list)"""
    lines = s.split('\n')
    for i in range(len(lines) - 1):
        a, b = lines[i], lines[i + 1]
        if a.strip() and b.strip():
            if _UNDERLINE.match(b): continue
            # (same marker type: with sane_lists among the other extensions a bullet line after an ordered item is text)
            if (_ITEM_B.match(a) and _ITEM_B.match(b)) or (_ITEM_O.match(a) and _ITEM_O.match(b)): continue
            return True
    return False


_ORDNUM = re.compile(r'(\d+)\.(?:[ \t]|$)', re.M)      # any `digits.` followed by a space (markers can follow markers: `1. 12. x`)


def sane_lists_trigger(s):
    """an ordered-list marker together with a bullet marker somewhere (types could mix), or an ordered marker other than `1.`"""
    nums = _ORDNUM.findall(s)
    if not nums: return False
    return bool(_BULLET.search(s)) or any(x != '1' for x in nums)


TRIGGER = {
    'tables': lambda s: '|' in s,
    'fenced_code': lambda s: '```' in s or '~~~' in s,
    'def_list': lambda s: bool(_DEF.search(s)),
    'footnotes': lambda s: '[^' in s or '///Footnotes Go Here///' in s,
    'admonition': lambda s: '!!!' in s,
    'attr_list': lambda s: '{' in s,
    'abbr': lambda s: '*[' in s,
    'wikilinks': lambda s: '[[' in s,
    'md_in_html': lambda s: '<' in s,
    'smarty': lambda s: any(q in s for q in ("'", '"', '--', '...', '<<', '>>')),
    'toc': lambda s: has_heading(s) or '[TOC]' in s,
    'nl2br': newline_in_block,
    'sane_lists': sane_lists_trigger,
}
_META_FIRST = re.compile(r'^(?:[ ]{0,3}[A-Za-z0-9_-]+:|---(?:\s|$)|\s*$)')
TRIGGER['meta'] = lambda s: bool(_META_FIRST.match(s.replace('\r\n', '\n').replace('\r', '\n').replace('\x02', '').replace('\x03', '').expandtabs(4).split('\n', 1)[0]))
TRIGGER['extra'] = lambda s: any(TRIGGER[e](s) for e in ('fenced_code', 'footnotes', 'attr_list', 'def_list', 'tables', 'abbr', 'md_in_html'))
