"""Shared generators (DESIGN.md 4.4).  Every random choice comes from the `rng` passed in."""
import glob, os

REPO = os.environ.get('VERIF_REPO', '/repo')
STX, ETX = '\x02', '\x03'

EXTENSIONS = ['abbr', 'admonition', 'attr_list', 'codehilite', 'def_list', 'extra', 'fenced_code', 'footnotes',
              'legacy_attrs', 'legacy_em', 'md_in_html', 'meta', 'nl2br', 'sane_lists', 'smarty', 'tables', 'toc', 'wikilinks']
# codehilite needs Pygments for highlighting; without it, it still runs (falls back to plain <pre><code>)

MARKUP = ['*', '**', '***', '_', '__', '`', '``', '\\', '!', '[', ']', '(', ')', '[a]', '[b c]', '[x][a]', '![i][a]', '"', "'",
          ' "t"', ':', '  \n', '#', '# ', '## ', '>', '> ', '- ', '+ ', '* ', '1. ', '12. ', '    ', '  ', '---', '***', '===',
          '=', '-', '.', '{', '}', '+', '|', '~', '^']
WORDS = ['a', 'b', 'cd', 'foo', 'bar', 'é', '1', 'x y', 'Zz', 'ß', '٣']
SPACE = [' ', ' ', '\n', '\n', '\n\n', '\n\n', '\t']
AMP = ['&', '&amp;', '&a', '&a;', '&#1', '&#12;', '&#x', '&#x1f;', '&#X1F;', '&#', ';', '&lt;', '&1;', '&ſ;']
HTML = ['<', '>', '<b>', '</b>', '<div>', '</div>', '<p>', '<!--', '-->', '<?', '?>', '<br/>', '<hr>', '<a href="u">', '</a>', '<x', '<![', '<!D', '</', '<div markdown="1">', '<span>', '</span>', '<pre>', '</pre>', '<script>', '</script>']
REFDEF = ['[a]: /u "T"\n\n', '[b c]: <v>\n\n', '[a]: /u\n', "[x]: y 'z'\n"]
EXTTOK = ['[^1]', '[^1]: n\n', '```', '~~~', '```py\n', '{: #i .c}', '{#j}', '*[X]: T\n', '!!! note\n    ', ': ', '[[w]]', '[TOC]', '| a | b |\n|---|---|\n', '|', '--', '...', "'", '<<', 'k: v\n', 'Term\n: def\n']
CTRL = ['\x02', '\x03', '\r', '\r\n', '\x00', '\x0b', '\x0c', '\x1c', '\x85', ' ', '\xa0', '﻿', '\U0001F600', '́']


def soup(rng, alphabet, lo=1, hi=18):
    return ''.join(rng.choice(alphabet) for _ in range(rng.randint(lo, hi)))


def alphabet(html=False, amp=False, ext=False, ctrl=False, refs=True):
    a = MARKUP + WORDS * 2 + SPACE * 2
    if refs: a = a + REFDEF
    if amp: a = a + AMP
    if html: a = a + HTML
    if ext: a = a + EXTTOK
    if ctrl: a = a + CTRL
    return a


_corpus = None


def corpus():
    global _corpus
    if _corpus is None:
        _corpus = []
        for pat in ('tests/basic/*.txt', 'tests/misc/*.txt', 'tests/extensions/*.txt', 'tests/extensions/extra/*.txt', 'docs/*.md'):
            for f in sorted(glob.glob(os.path.join(REPO, pat))):
                try: _corpus.append(open(f, encoding='utf-8').read())
                except Exception: pass
    return _corpus


def fragment(rng, maxlen=160):
    c = rng.choice(corpus()); a = rng.randint(0, max(0, len(c) - 1))
    return c[a:a + rng.randint(0, maxlen)]


def mutated(rng, maxlen=200):
    """corpus fragments cut and spliced"""
    parts = [fragment(rng, maxlen // 2) for _ in range(rng.randint(1, 3))]
    s = ''.join(parts)
    for _ in range(rng.randint(0, 3)):
        if not s: break
        i = rng.randint(0, len(s) - 1)
        k = rng.random()
        if k < 0.3: s = s[:i] + s[i + 1:]
        elif k < 0.6: s = s[:i] + rng.choice(MARKUP + HTML + AMP) + s[i:]
        else: s = s[:i] + s[i:i + 5] * 2 + s[i + 5:]
    return s


LINE_OPENERS = ['', '', 'text', '# h', '## h ##', 'h\n===', 'h\n---', '---', '* * *', '- item', '* item', '+ item', '1. one', '2. two',
                '> q', '> > qq', '    code', '        deep', '  lazy', '[a]: /u', '    - nested', '    1. n', '\tcode', 'a  ', 'a\\', '```', '~~~',
                ': def', '[^1]: fn', '!!! note', '| a | b |', '|--|--|', '<div>', '</div>', '*[A]: b', 'k: v']


def lines_doc(rng, lo=1, hi=10, openers=None):
    op = openers or LINE_OPENERS
    return '\n'.join(rng.choice(op) + (rng.choice(['', ' ' + rng.choice(WORDS), ' *e*', ' `c`']) if rng.random() < 0.5 else '')
                     for _ in range(rng.randint(lo, hi)))


def ext_subset(rng, pool=None, pmax=4):
    pool = pool or EXTENSIONS
    k = rng.choice([0, 0, 1, 1, 2, 3, pmax, len(pool)])
    return sorted(rng.sample(pool, min(k, len(pool))))


# ---------------------------------------------------------------- structured inline compositions (no spec needed:
# used by the correspondence modules, where model and implementation are compared on the same input)
def inline_nest(rng, depth=0, refs=None):
    """a well-formed-looking composition of inline constructs, nested up to 3 deep, with escapes, code spans and
    links/images (inline and reference style: labels are appended to `refs`) next to and inside emphasis"""
    word = lambda: rng.choice(['a', 'b', 'c', 'x y', 'foo', 'é', '1', 'snake_case'])
    def esc(): return '\\' + rng.choice('*_`[]()\\#!.-+>{}')
    def code():
        t = rng.choice(['`', '``']); b = rng.choice(['c', 'a*b', 'x_y', '[z]', 'p`q' if t == '``' else 'pq', '\\*'])
        return t + b + t
    def kids(d):
        n = rng.randint(1, 4); parts = []
        for _ in range(n):
            parts.append(item(d))
        return rng.choice([' ', ' ', '']).join(parts) if rng.random() < 0.8 else ' '.join(parts)
    def item(d):
        r = rng.random()
        if d >= 3 or r < 0.30: return word()
        if r < 0.38: return esc()
        if r < 0.50: return code()
        if r < 0.62:
            c = rng.choice(['*', '_']); return c + kids(d + 1) + c
        if r < 0.74:
            c = rng.choice(['**', '__']); return c + kids(d + 1) + c
        if r < 0.78:
            c = rng.choice(['***', '___']); return c + kids(d + 1) + c
        if r < 0.86:
            t = kids(d + 1); u = rng.choice(['/u', 'http://e.x/a_b', '/p(q)', '<v w>']); ti = rng.choice(['', ' "T"', " 'a \\* b'", ' "5 \\* 3"'])
            return '[%s](%s%s)' % (t, u, ti)
        if r < 0.92:
            lab = rng.choice(['r', 'ref two', 'R3']); 
            if refs is not None: refs.add(lab)
            return rng.choice(['[%s][%s]' % (kids(d + 1), lab), '[%s][]' % lab, '[%s]' % lab])
        if r < 0.97:
            alt = rng.choice([word(), 'a' + esc() + 'b', code() + ' z', kids(d + 1)])
            lab = rng.choice(['r', 'img 1'])
            if refs is not None: refs.add(lab)
            return rng.choice(['![%s](/i.png%s)' % (alt, rng.choice(['', ' "t"'])), '![%s][%s]' % (alt, lab), '![%s]' % lab])
        return rng.choice(['a  \nb', esc() + code(), code() + esc()])
    return kids(depth)


def inline_doc(rng):
    """1-3 blocks (paragraph, heading, list item, quote) whose text is an inline_nest, plus the reference definitions used"""
    refs = set(); blocks = []
    for _ in range(rng.randint(1, 3)):
        t = inline_nest(rng, 0, refs)
        blocks.append(rng.choice(['', '', '# ', '- ', '> ', '1. ', '* # ']) + t)
    defs = ['[%s]: /%s%s' % (l, l.replace(' ', '-'), rng.choice(['', ' "T %s"' % l])) for l in sorted(refs) if rng.random() < 0.85]
    rng.shuffle(blocks)
    return '\n\n'.join(blocks + defs)
