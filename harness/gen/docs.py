"""Document and configuration generators shared by the oracles of C11, C12, C19 and C20.

Every random choice comes from the `rng` passed in.  The documents are built from *stateful* constructs (constructs whose
rendering depends on per-document state of the converter: link references, footnotes, abbreviations, header ids /
toc, meta-data, fenced code, raw HTML stash, tables) over deliberately SMALL label pools, so that a later document of
a history uses labels an earlier document defined (a leak of state across reset() shows as a resolved link /
footnote / abbreviation / changed header id).
"""
from gen import common as C

LABELS = ['a', 'b', 'foo', 'b c', 'Foo', '1']
FNIDS = ['1', 'a', 'note', '2']
ABBRS = ['HTML', 'W3C', 'foo', 'Zz']
WORDS = C.WORDS + ['HTML', 'W3C', 'Title', 'café', '日本', 'naïve']
URLS = ['/u', 'http://x.y/z?a=1&b=2', '<v w>', '/p_(q)', '#frag', 'u.png']
TITLES = ['', '', ' "T"', " 'z'", ' (p)', ' "a *b* c"']
# titles of which the default slugify leaves nothing (non-Latin script, punctuation only) get positional ids (_1, _2, ...)
HEADS = ['Title', 'Sub', 'Title', 'a b', 'café', '*em* `c`', 'x & y', 'A_1', '日本', '[l](/u)', 'Sub-sub', '', 'Заключение !', '概要', '!!!', '日本']


def words(rng, lo=1, hi=4):
    return ' '.join(rng.choice(WORDS) for _ in range(rng.randint(lo, hi)))


def inline(rng):
    k = rng.randrange(16)
    w = words(rng, 1, 2)
    if k == 0: return '*%s*' % w
    if k == 1: return '**%s**' % w
    if k == 2: return '`%s`' % w
    if k == 3: return '[%s][%s]' % (w, rng.choice(LABELS))
    if k == 4: return '[%s]' % rng.choice(LABELS)
    if k == 5: return '![%s][%s]' % (w, rng.choice(LABELS))
    if k == 6: return '[%s](%s%s)' % (w, rng.choice(URLS), rng.choice(TITLES))
    if k == 7: return '[^%s]' % rng.choice(FNIDS)
    if k == 8: return rng.choice(ABBRS)
    if k == 9: return '<span class="x">%s</span>' % w
    if k == 10: return rng.choice(['&amp;', '&copy;', '&#65;', '&', '<', 'a < b', '\\*', '\\|', '\\"', "\\'"])
    if k == 11: return '[[%s]]' % rng.choice(['Wiki Page', 'w', 'a_b'])
    if k == 12: return rng.choice(['"q"', "'s'", "it's", 'a -- b', 'c --- d', 'e...', '<<g>>'])
    if k == 13: return '<http://auto.link/%s>' % rng.choice(['', 'p', 'q?x=1&y'])
    if k == 14: return '%s{: .c #i%s }' % (rng.choice(['*e*', '`c`', '[l](/u)']), rng.choice(['', '1', 'x']))
    return w


def text(rng, lo=1, hi=5):
    return ' '.join(inline(rng) for _ in range(rng.randint(lo, hi)))


def p_refdef(rng):
    lbl = rng.choice(LABELS); u = rng.choice(URLS); t = rng.choice(TITLES)
    if rng.random() < 0.2: return '[%s]:\n    %s%s' % (lbl, u, t)
    if rng.random() < 0.2: return '[%s]: %s\n    %s' % (lbl, u, t.strip() or '"t2"')
    return '[%s]: %s%s' % (lbl, u, t)


def p_footnote_def(rng):
    # body: plain inline text only (a definition inside a body is F-C02-2)
    i = rng.choice(FNIDS); body = words(rng, 1, 4) + rng.choice(['', ' *e*', ' `c`', ' [l][a]'])
    if rng.random() < 0.3: body += '\n\n    second ' + words(rng)
    return '[^%s]: %s' % (i, body)


def p_footnote_use(rng):
    # references (often the same label twice: duplicate-reference bookkeeping) with their definition
    i = rng.choice(FNIDS); j = rng.choice([i, i, rng.choice(FNIDS)])
    return '%s[^%s] %s[^%s]\n\n[^%s]: %s' % (words(rng, 1, 2), i, words(rng, 1, 2), j, i, words(rng, 1, 3))


def p_abbr(rng):
    a = rng.choice(ABBRS)
    s = '*[%s]: %s' % (a, rng.choice(['Hyper Text', 'World Wide', 'x "y" & z', '', "''"]))
    if rng.random() < 0.5: s += '\n\n' + words(rng, 0, 2) + ' ' + rng.choice([a, a, rng.choice(ABBRS)]) + ' ' + words(rng, 0, 1)     # ... and a use
    return s


def p_heading(rng):
    h = rng.choice(HEADS); k = rng.randrange(6)
    attr = rng.choice(['', '', ' {#%s}' % rng.choice(['title', 'i1', 'x']), ' { .c data-toc-label="L %s" }' % rng.choice(['1', '<b>'])])
    if k == 0: return '%s%s\n%s' % (h or 'h', attr, rng.choice(['===', '---', '=']))
    return '#' * rng.randint(1, 6) + ' ' + h + rng.choice(['', ' #', ' ##']) + attr


def p_meta(rng):
    ks = ['Title', 'Author', 'k', 'base_url', 'Date']
    lines = []
    for _ in range(rng.randint(1, 3)):
        lines.append('%s: %s' % (rng.choice(ks), words(rng)))
        if rng.random() < 0.3: lines.append('    more ' + words(rng))
    s = '\n'.join(lines)
    if rng.random() < 0.3: s = '---\n' + s + '\n' + rng.choice(['---', '...'])
    return s


def p_fence(rng):
    f = rng.choice(['```', '~~~', '````'])
    # brace lists WITHOUT key=value options but with extra classes ({ .python .special }) take another path through fenced_code than
    # those with options: the classes are merged into the highlighter configuration of that one block
    lang = rng.choice(['', 'py', 'python', ' { .js #f1 }', '{.c hl_lines="1 2"}', ' html', '{ .x use_pygments=false }', '{ .python .special }', ' {.py .a .b #f2}', 'python'])
    body = '\n'.join(rng.choice(['x = 1', '<b>&amp;</b>', '*not em*', '', '    ind', '[a]: /leak', '# no h', 'HTML']) for _ in range(rng.randint(1, 4)))
    return '%s%s\n%s\n%s' % (f, lang, body, f)


def p_rawhtml(rng):
    k = rng.randrange(8)
    t = text(rng, 1, 3)
    if k == 0: return '<div>%s</div>' % t
    if k == 1: return '<div markdown="1">\n%s\n</div>' % t
    if k == 2: return '<!-- %s -->' % t.replace('--', '-')
    if k == 3: return '<p class="r">%s\n\n%s</p>' % (t, words(rng))
    if k == 4: return '<table><tr><td markdown="span">%s</td></tr></table>' % t
    if k == 5: return '<?php %s ?>' % words(rng)
    if k == 6: return '<div markdown="block" class="o">\n\n%s\n\n<div markdown="1">\n%s\n</div>\n\n</div>' % (p_heading(rng), t)
    return '<pre>\n%s\n</pre>' % t


CONTAINERS = [('dl', 'dd'), ('dl', 'dd'), ('ul', 'li'), ('ol', 'li'), ('div', 'div'), ('blockquote', 'div'), ('section', 'article'), ('dl', 'dt'), ('details', 'summary'),
              ('table', 'td'), ('ul', 'p'), ('div', 'li')]


def _indented(rng):
    return rng.choice(['    ', '    ', '        ', '\t', '     ']) + rng.choice(['indented ', 'code ', '- item ', '1. n ', ': d ']) + words(rng, 1, 2)


def p_mdhtml_container(rng):
    """raw-HTML containers whose content is parsed as Markdown (md_in_html) - the container elements (dl/dd, ul/li, ...) are the
    ones the list / indent / definition-list processors look at - followed by an indented or lazy block"""
    outer, inner = rng.choice(CONTAINERS)
    m = lambda: rng.choice([' markdown="1"', ' markdown="1"', ' markdown="block"', '', ' markdown="span"', ' class="k" markdown="1"'])
    body = rng.choice([p_para, p_list, lambda r: words(r, 1, 3), lambda r: 'Term\n:   def ' + words(r)])(rng)
    inside = body + rng.choice(['', '', '\n\n' + _indented(rng), '\n\n- li\n\n' + _indented(rng), '\n' + _indented(rng)])
    head = '<dt>Term %s</dt>\n' % words(rng, 1, 1) if (outer, inner) == ('dl', 'dd') and rng.random() < 0.8 else ''
    s = '<%s%s>\n%s<%s%s>\n%s\n</%s>\n</%s>' % (outer, m(), head, inner, m(), inside, inner, outer)
    s += rng.choice(['', '\n\n' + _indented(rng), '\n\n' + _indented(rng) + '\n\n' + _indented(rng), '\n\n  lazy after ' + inline(rng), '\n\n- list after\n\n' + _indented(rng)])
    return s


def p_then_indent(rng):
    """a block construct followed by indented block(s): whether those continue the construct or are code depends on the
    list / indent processors and on what they consider a list or an item"""
    first = rng.choice([p_list, p_list, p_deflist, p_admonition, p_footnote_def, p_quote, p_para, p_heading, p_table, p_rawhtml, p_abbr])(rng)
    out = first
    for _ in range(rng.randint(1, 3)):
        out += rng.choice(['\n\n', '\n\n', '\n', '\n\n\n']) + _indented(rng)
    return out


def p_table(rng):
    n = rng.randint(1, 3)
    row = lambda: ' | '.join(rng.choice([inline(rng), '`a|b`', 'x \\| y', '']) for _ in range(n))
    sep = ' | '.join(rng.choice(['---', ':--', '--:', ':-:']) for _ in range(n))
    lead = rng.choice(['', '| '])
    rows = [lead + row(), lead + sep] + [lead + row() for _ in range(rng.randint(0, 2))]
    return '\n'.join(rows)


def p_list(rng):
    m = rng.choice(['- ', '* ', '+ ', '1. ', '3. ', '2) '])
    out = []
    for _ in range(rng.randint(1, 3)):
        out.append(m + text(rng, 1, 2))
        if rng.random() < 0.3: out.append('    ' + rng.choice(['- n ' + words(rng), 'cont ' + inline(rng), '1. m']))
        if rng.random() < 0.15: out.append('')
        if rng.random() < 0.15: m = rng.choice(['- ', '1. ', '* '])
    return '\n'.join(out)


def p_admonition(rng):
    return '!!! %s%s\n    %s%s' % (rng.choice(['note', 'warning custom', 'danger']), rng.choice(['', ' "T %s"' % words(rng, 1, 1), ' ""']),
                                 text(rng, 1, 2), rng.choice(['', '\n\n    more ' + inline(rng)]))


def p_deflist(rng):
    return '%s\n:   %s%s' % (words(rng, 1, 2), text(rng, 1, 2), rng.choice(['', '\n:   second', '\n\n    para']))


def p_para(rng):
    s = text(rng, 1, 6)
    if rng.random() < 0.3: s += '\n' + text(rng, 1, 3)
    if rng.random() < 0.15: s += '\n{: #p%s .k }' % rng.choice(['1', 'x'])
    if rng.random() < 0.1: s += ' {@id=leg}'
    return s


def p_quote(rng):
    return '\n'.join('> ' + l for l in rng.choice([p_para, p_list, p_heading, p_refdef])(rng).split('\n'))


def p_code(rng):
    return '\n'.join('    ' + l for l in rng.choice([p_para, p_refdef, p_heading])(rng).split('\n'))


def p_escapes(rng):
    # backslash escapes of arbitrary ASCII punctuation (extensions add characters to the per-instance escapable set)
    punct = '!"#$%&\'()*+,-./:;<=>?@[\\]^_`{|}~'
    return ' '.join('\\' + rng.choice(punct) + rng.choice(['', 'x', ' ']) for _ in range(rng.randint(1, 6)))


def p_toc(rng):
    return rng.choice(['[TOC]', '[TOC]', '[toc]', '///Footnotes Go Here///', '{{TOC}}'])


def p_soup(rng):
    # '<![' (F-C02-1: raises) is left out of the alphabet: C11/C12 must not generate raising documents
    alpha = [t for t in C.alphabet(html=True, amp=True, ext=True) if t not in ('<![', '<!D')]
    return C.soup(rng, alpha, 1, 14)


def p_lines(rng):
    return C.lines_doc(rng, 1, 6)


def p_mutated(rng):
    return C.mutated(rng, 120).replace('<![', '<[')


PIECES = [(p_para, 5), (p_refdef, 4), (p_footnote_def, 2), (p_footnote_use, 2), (p_abbr, 2), (p_heading, 4), (p_fence, 2), (p_rawhtml, 3), (p_mdhtml_container, 2), (p_then_indent, 2), (p_table, 2),
          (p_list, 2), (p_admonition, 1), (p_deflist, 1), (p_quote, 1), (p_code, 1), (p_toc, 1), (p_escapes, 1), (p_soup, 2), (p_lines, 1), (p_mutated, 1)]
_PIECE_POOL = [f for f, w in PIECES for _ in range(w)]


def focus_pieces(exts):
    """piece generators whose rendering goes through per-instance state of the extensions loaded (for histories that repeat ONE
    kind of construct in every document: a state that survives from one document to the next then meets the construct again)"""
    exts = set(exts)
    if 'extra' in exts: exts |= {'fenced_code', 'footnotes', 'attr_list', 'def_list', 'tables', 'abbr', 'md_in_html'}
    out = [p_refdef, p_heading]
    if exts & {'fenced_code', 'codehilite'}: out += [p_fence, p_fence]
    if 'codehilite' in exts and 'fenced_code' in exts: out += [p_fence, p_fence, p_fence]     # two extensions cooperating on one construct
    if 'codehilite' in exts: out.append(p_code)
    if 'footnotes' in exts: out.append(p_footnote_use)
    if 'abbr' in exts: out.append(p_abbr)
    if 'toc' in exts: out += [p_heading, p_toc]
    if 'attr_list' in exts: out.append(p_para)
    if 'tables' in exts: out.append(p_table)
    if 'md_in_html' in exts: out += [p_rawhtml, p_mdhtml_container]
    if 'meta' in exts: out.append(p_meta)
    if 'admonition' in exts: out.append(p_admonition)
    if 'def_list' in exts: out.append(p_deflist)
    return out


def document(rng, lo=1, hi=6, meta=True, counters=None):
    """A document of lo..hi pieces.  `counters` (dict) gets the piece kinds used."""
    parts = []
    if rng.random() < 0.03:
        if counters is not None: counters['blank'] = counters.get('blank', 0) + 1
        return rng.choice(['', ' ', '\n', '  \n\t\n'])
    if meta and rng.random() < 0.25:
        parts.append(p_meta(rng))
        if counters is not None: counters['p_meta'] = counters.get('p_meta', 0) + 1
    for _ in range(rng.randint(lo, hi)):
        f = rng.choice(_PIECE_POOL)
        parts.append(f(rng))
        if counters is not None: counters[f.__name__] = counters.get(f.__name__, 0) + 1
    sep = ['\n\n'] * 6 + ['\n', '\n\n\n', '\n \n']
    out = parts[0]
    for p in parts[1:]: out += rng.choice(sep) + p
    if rng.random() < 0.1: out = rng.choice(['\n', '  \n', '﻿']) + out
    return out


# ----------------------------------------------------------------------------------------------------------------------
# configurations

def toc_opts(rng):
    o = {}
    if rng.random() < 0.4: o['permalink'] = rng.choice([True, 'P', '¶', False, 'true'])
    if rng.random() < 0.3: o['baselevel'] = rng.choice([1, 2, '3', 6])
    if rng.random() < 0.2: o['anchorlink'] = rng.choice([True, False])
    if rng.random() < 0.2: o['toc_depth'] = rng.choice([2, '2-4', 6, '1-1'])
    if rng.random() < 0.2: o['title'] = rng.choice(['Contents', 'T & <c>'])
    if rng.random() < 0.15: o['marker'] = rng.choice(['{{TOC}}', '', '[toc]'])
    if rng.random() < 0.15: o['separator'] = rng.choice(['_', '', '.'])
    if rng.random() < 0.15: o['permalink_leading'] = rng.choice([True, False])
    if rng.random() < 0.1: o['toc_class'] = rng.choice(['toc', 'a b', ''])
    if rng.random() < 0.1: o['permalink_title'] = rng.choice(['', 'Link "here"'])
    return o


def footnotes_opts(rng):
    # UNIQUE_IDS is never set: it is documented to make reset() behave differently (excluded by C11)
    o = {}
    if rng.random() < 0.2: o['PLACE_MARKER'] = rng.choice(['{{FN}}', '///Footnotes Go Here///'])
    if rng.random() < 0.2: o['BACKLINK_TEXT'] = rng.choice(['back', '&larr;', '^'])
    if rng.random() < 0.2: o['SEPARATOR'] = rng.choice(['-', '_', ':'])
    if rng.random() < 0.15: o['SUPERSCRIPT_TEXT'] = rng.choice(['[{}]', '{}'])
    if rng.random() < 0.15: o['BACKLINK_TITLE'] = rng.choice(['Back %d', 'Back', ''])
    return o


def ext_opts(rng, name):
    if name == 'toc': return toc_opts(rng)
    if name == 'footnotes': return footnotes_opts(rng)
    o = {}
    if name == 'abbr':
        if rng.random() < 0.45: o['glossary'] = {a: 'Glossary ' + rng.choice(WORDS) for a in rng.sample(ABBRS, rng.choice([1, 2, 4]))}
    elif name == 'codehilite':
        if rng.random() < 0.3: o['use_pygments'] = rng.choice([False, True])
        if rng.random() < 0.2: o['css_class'] = rng.choice(['hl', 'codehilite'])
        if rng.random() < 0.2: o['lang_prefix'] = rng.choice(['lang-', ''])
        if rng.random() < 0.2: o['linenums'] = rng.choice([True, False, None])
        if rng.random() < 0.2: o['guess_lang'] = rng.choice([True, False])
        if rng.random() < 0.3:      # inline styles: the style chosen shows in the output of every highlighted block
            o['noclasses'] = True; o['pygments_style'] = rng.choice(['native', 'monokai', 'default', 'native'])
    elif name == 'fenced_code':
        if rng.random() < 0.3: o['lang_prefix'] = rng.choice(['lang-', '', 'language-'])
    elif name == 'smarty':
        for k in ('smart_quotes', 'smart_angled_quotes', 'smart_dashes', 'smart_ellipses'):
            if rng.random() < 0.25: o[k] = rng.choice([True, False])
        if rng.random() < 0.15: o['substitutions'] = {rng.choice(['ndash', 'left-single-quote', 'ellipsis']): rng.choice(['&sbquo;', '-', 'X'])}
    elif name == 'tables':
        if rng.random() < 0.3: o['use_align_attribute'] = rng.choice([True, False])
    elif name == 'wikilinks':
        if rng.random() < 0.3: o['base_url'] = rng.choice(['/w/', 'http://h/', ''])
        if rng.random() < 0.3: o['end_url'] = rng.choice(['.html', '', '/'])
        if rng.random() < 0.2: o['html_class'] = rng.choice(['', 'wl'])
    return o


def config(rng, pool=None, allow_extra=True):
    """A Markdown configuration: {'extensions': [names], 'extension_configs': {...}, 'output_format':..., 'tab_length':...}
    json-able; `make(cfg)` builds the instance."""
    pool = list(pool or C.EXTENSIONS)
    if not allow_extra and 'extra' in pool: pool.remove('extra')
    k = rng.choice([0, 1, 2, 3, 4, 6, 9, len(pool)])
    exts = rng.sample(pool, min(k, len(pool)))
    # order of loading matters little, but vary it
    if rng.random() < 0.5: exts.sort()
    cfgs = {}
    for e in exts:
        o = ext_opts(rng, e)
        if o: cfgs[e] = o
    if 'extra' in exts and rng.random() < 0.3:
        cfgs['extra'] = {'footnotes': footnotes_opts(rng)}
    c = {'extensions': exts, 'extension_configs': cfgs}
    if rng.random() < 0.3: c['output_format'] = rng.choice(['html', 'xhtml'])
    if rng.random() < 0.1: c['tab_length'] = rng.choice([2, 8])
    return c


def make(cfg):
    """A fresh Markdown instance for the configuration (the configuration object itself is never handed over)."""
    import copy, markdown
    return markdown.Markdown(**copy.deepcopy(cfg))
