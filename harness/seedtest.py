#!/venv/bin/python
"""Confirm seeded regressions and run the checks against them.

usage: seedtest.py <dir with Cxx/k/{patch.diff,demo.py,meta.json}> [Cxx[/k] ...] [--checks C01,C05] [--tier quick]

For each seeded change:  (1) in a scratch worktree of /repo: the patch applies, the test-suite summary is unchanged,
demo.py exits 1 with the patch and 0 without;  (2) the patch is applied to /repo itself, the property's check (and any
extra checks given) is run, and the patch is undone straight afterwards (git checkout -- .).
Confirmed changes are stored under /verif/seeded/<Cxx>-<k>/ with the result of the run in meta.json.
"""
import json, os, shutil, subprocess, sys, time

VERIF = os.path.dirname(os.path.dirname(os.path.abspath(__file__)))
REPO = '/repo'
SCRATCH = '/tmp/mut/verify'
PY = '/venv/bin/python'
BASE_SUMMARY = '1050 passed, 110 skipped, 1 error'


def sh(cmd, cwd=None, timeout=3600):
    p = subprocess.run(cmd, shell=True, cwd=cwd, capture_output=True, text=True, timeout=timeout)
    return p.returncode, p.stdout + p.stderr


def ensure_scratch():
    if not os.path.isdir(SCRATCH):
        rc, out = sh('git -C %s worktree add --detach %s HEAD' % (REPO, SCRATCH))
        assert rc == 0, out
    sh('git checkout -- . && git clean -fdq', cwd=SCRATCH)
    sh('git checkout -q --detach $(git -C %s rev-parse HEAD)' % REPO, cwd=SCRATCH)


def confirm(d):
    """returns dict(applies, tests_ok, demo_with, demo_without)"""
    ensure_scratch()
    patch = os.path.join(d, 'patch.diff'); demo = os.path.join(d, 'demo.py')
    res = {}
    rc, out = sh('git apply %s' % patch, cwd=SCRATCH)
    res['applies'] = rc == 0
    if rc != 0:
        res['apply_error'] = out[-300:]; return res
    rc, out = sh('%s -m pytest -q -p no:cacheprovider --timeout=900 --continue-on-collection-errors 2>&1 | tail -1' % PY, cwd=SCRATCH)
    res['tests_summary'] = out.strip()[-80:]
    res['tests_ok'] = BASE_SUMMARY in out
    rc, out = sh('%s %s' % (PY, demo), cwd=SCRATCH, timeout=600)
    res['demo_with'] = rc
    sh('git checkout -- . && git clean -fdq', cwd=SCRATCH)
    rc, out = sh('%s %s' % (PY, demo), cwd=SCRATCH, timeout=600)
    res['demo_without'] = rc
    res['confirmed'] = bool(res['tests_ok'] and res['demo_with'] == 1 and res['demo_without'] == 0)
    return res


def run_checks(d, checks, tier):
    patch = os.path.join(d, 'patch.diff')
    out = {}
    rc, o = sh('git -C %s status --short' % REPO)
    assert o.strip() == '', '/repo is not clean: ' + o
    rc, o = sh('git -C %s apply %s' % (REPO, patch))
    assert rc == 0, o
    # evidence files describe runs on the unchanged tree: keep them out of these runs
    ev = os.path.join(VERIF, 'evidence'); bak = '/tmp/mut/evidence.bak'
    shutil.rmtree(bak, ignore_errors=True)
    if os.path.isdir(ev): shutil.copytree(ev, bak)
    try:
        for c in checks:
            t0 = time.time()
            rc, o = sh('./check %s --tier %s' % (c, tier), cwd=VERIF, timeout=7200)
            lines = [l for l in o.split('\n') if l.startswith('VIOLATION') or l.startswith('[')]
            replay = None
            for l in lines:
                if l.startswith('VIOLATION') and 'replay=' in l:
                    rp = l.split('replay=')[1].split()[0]
                    try: replay = json.load(open(os.path.join(VERIF, rp)))
                    except Exception: replay = None
            out[c] = {'rc': rc, 'lines': lines[-3:], 'wall_s': round(time.time() - t0, 1),
                      'kind': (replay or {}).get('kind'),
                      'what': json.dumps((replay or {}).get('violation') or (replay or {}).get('no_longer_checks'))[:600] if replay else None}
    finally:
        if os.path.isdir(bak):
            shutil.rmtree(ev, ignore_errors=True); shutil.copytree(bak, ev)
        shutil.rmtree(os.path.join(VERIF, 'replays'), ignore_errors=True)
        sh('git -C %s checkout -- .' % REPO)
        rc, o = sh('git -C %s status --short' % REPO)
        assert o.strip() == '', 'could not restore /repo: ' + o
    return out


def main():
    args = [a for a in sys.argv[1:] if not a.startswith('--')]
    opts = dict(a[2:].split('=', 1) if '=' in a else (a[2:], '1') for a in sys.argv[1:] if a.startswith('--'))
    root = args[0]; sel = args[1:]
    tier = opts.get('tier', 'quick')
    items = []
    for c in sorted(os.listdir(root)):
        cd = os.path.join(root, c)
        if not os.path.isdir(cd): continue
        for k in sorted(os.listdir(cd)):
            d = os.path.join(cd, k)
            if os.path.exists(os.path.join(d, 'patch.diff')) and (not sel or c in sel or '%s/%s' % (c, k) in sel):
                items.append((c, k, d))
    summary = []
    for c, k, d in items:
        meta = {}
        try: meta = json.load(open(os.path.join(d, 'meta.json')))
        except Exception: pass
        conf = confirm(d)
        tag = opts.get('tag', '')
        sid = '%s-%s%s' % (c, (tag + '-') if tag else '', k)
        entry = {'id': sid, 'property': c, 'summary': meta.get('summary', ''), 'needs': meta.get('needs', ''), 'confirm': conf}
        if conf.get('confirmed') and 'nocheck' not in opts:
            checks = opts.get('checks', c).split(',')
            entry['checks'] = run_checks(d, checks, tier)
            entry['caught_by'] = [x for x, r in entry['checks'].items() if r['rc'] == 1]
        print(json.dumps({k2: entry[k2] for k2 in ('id', 'confirm', 'caught_by') if k2 in entry})[:600], flush=True)
        if 'checks' in entry:
            for x, r in entry['checks'].items(): print('   ', x, r['rc'], r['kind'], (r['what'] or '')[:200], flush=True)
        if conf.get('confirmed'):
            sd = os.path.join(VERIF, 'seeded', sid); os.makedirs(sd, exist_ok=True)
            shutil.copy(os.path.join(d, 'patch.diff'), sd); shutil.copy(os.path.join(d, 'demo.py'), sd)
            m = dict(meta); m.update({'property': c, 'confirmed': conf, 'what_was_run': 'scratch worktree: git apply, baseline pytest command, demo.py with and without the patch; then /repo: git apply, ./check %s --tier %s, git checkout -- .' % (opts.get('checks', c), tier),
                                      'check_results': entry.get('checks'), 'caught_by': entry.get('caught_by')})
            json.dump(m, open(os.path.join(sd, 'meta.json'), 'w'), indent=1)
        summary.append(entry)
    print('SUMMARY', json.dumps([(e['id'], e['confirm'].get('confirmed'), e.get('caught_by')) for e in summary]))


if __name__ == '__main__':
    main()
