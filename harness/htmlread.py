"""STRICT reader for the (X)HTML fragments Python-Markdown's serializer emits (Python side; the Lean `readForest` is the
proved one, this one is used by the search oracles C05/C06 which run without the driver).

Accepted language (anything else raises NotWellFormed with the offset):
  fragment := (text | element)*
  element  := '<' name attr* '>' fragment '</' name '>'          non-void
            | '<' name attr* ' />'                                void (br, hr, img) in xhtml mode
            | '<' name attr* '>'                                  void in html mode
  attr     := ' ' aname '="' avalue '"'      (html mode also: ' ' aname   -- boolean attribute)
  name     := [A-Za-z][A-Za-z0-9]*     aname := [A-Za-z_:][-A-Za-z0-9_:.]*
  text     := (char other than < > & | entity)+          -- a bare '"' and "'" are fine in text
  avalue   := (char other than < > & " | entity)*
  entity   := '&' [0-9A-Za-z]+ ';' | '&#' [0-9]+ ';' | '&#' [xX] [0-9A-Fa-f]+ ';'
              (exactly what serializers.RE_AMP leaves alone: names may start with a digit, case-insensitive x; the name class
              also holds the four non-ASCII characters that `[a-z]` matches under re.I: U+0130 U+0131 U+017F U+212A)
Control characters (incl. STX/ETX) are ordinary characters here; a placeholder leak is C10's business.
A node is (tag, [(name, value)], [child]) with child a node or a str; strings are UNESCAPED (entities decoded where
html.unescape knows them, otherwise kept literally).

Relation to the proved Lean reader `Ser.readForest` (cross-checked by corr/readers.py, 0 disagreements): on strings
over Markdown's vocabulary the two accept the same language and read the same forest.  Deliberate differences: this
reader knows only br / hr / img as void elements (Lean: all of HTML_EMPTY) and has no raw-text elements, so
`<input></input>` and `<script><b>x</b></script>` pass here and not there; it has no comments / PIs and a narrower
name grammar than Lean ([A-Za-z0-9:_.-]+ for tags and attributes), so `<!-- c -->`, `<x-y>` pass there and not here."""
import html
import re

VOID = ('br', 'hr', 'img')
_NAME = re.compile(r'[A-Za-z][A-Za-z0-9]*')
_ANAME = re.compile(r'[A-Za-z_:][-A-Za-z0-9_:.]*')
# entity reference exactly as serializers.RE_AMP reads it: under re.I the class [0-9a-z] also matches U+0130, U+0131, U+017F, U+212A
_ENT = re.compile('&(?:#[0-9]+|#[xX][0-9a-fA-F]+|[0-9a-zA-Z\u0130\u0131\u017f\u212a]+);')


class NotWellFormed(Exception):
    def __init__(self, why, pos):
        Exception.__init__(self, '%s at offset %d' % (why, pos))
        self.why, self.pos = why, pos


def _chars(s, i, stops, where):
    """read character data from s[i:] until a char of `stops`; returns (raw, j).  `&` must start an entity, `>` is never bare"""
    n = len(s); j = i; out = []
    while j < n:
        c = s[j]
        if c in stops:
            break
        if c == '&':
            m = _ENT.match(s, j)
            if not m:
                raise NotWellFormed('bare & in %s' % where, j)
            out.append(html.unescape(m.group(0))); j = m.end(); continue
        if c == '>':
            raise NotWellFormed('bare > in %s' % where, j)
        if c == '<':
            raise NotWellFormed('bare < in %s' % where, j)
        out.append(c); j += 1
    return ''.join(out), j


def tokens(s, fmt='xhtml'):
    """-> list of ('text', str) | ('start', tag, attrs, selfclosed) | ('end', tag), strictly"""
    out = []; i = 0; n = len(s)
    while i < n:
        if s[i] != '<':
            t, i = _chars(s, i, '<', 'text')
            out.append(('text', t)); continue
        if s.startswith('</', i):
            m = _NAME.match(s, i + 2)
            if not m or not s.startswith('>', m.end()):
                raise NotWellFormed('malformed end tag', i)
            out.append(('end', m.group(0))); i = m.end() + 1; continue
        m = _NAME.match(s, i + 1)
        if not m:
            raise NotWellFormed('< does not start a tag', i)
        tag = m.group(0); j = m.end(); attrs = []
        while True:
            if s.startswith('>', j):
                out.append(('start', tag, attrs, False)); j += 1; break
            if s.startswith(' />', j):
                out.append(('start', tag, attrs, True)); j += 3; break
            if not s.startswith(' ', j):
                raise NotWellFormed('malformed start tag <%s' % tag, j)
            ma = _ANAME.match(s, j + 1)
            if not ma:
                raise NotWellFormed('malformed attribute name in <%s' % tag, j + 1)
            k = ma.group(0); j = ma.end()
            if s.startswith('="', j):
                v, j2 = _chars(s, j + 2, '"', 'attribute value')
                if not s.startswith('"', j2):
                    raise NotWellFormed('unterminated attribute value in <%s' % tag, j)
                j = j2 + 1
            elif fmt == 'html' and (s.startswith(' ', j) or s.startswith('>', j)):
                v = k
            else:
                raise NotWellFormed('attribute %s without quoted value in <%s' % (k, tag), j)
            if any(k == k0 for k0, _ in attrs):
                raise NotWellFormed('duplicate attribute %s in <%s' % (k, tag), j)
            attrs.append((k, v))
        i = j
    return out


def forest(s, fmt='xhtml'):
    """strict parse -> list of children (nodes / strings) of the fragment"""
    root = ('#root', [], [])
    stack = [root]
    for t in tokens(s, fmt):
        top = stack[-1][2]
        if t[0] == 'text':
            if top and isinstance(top[-1], str): top[-1] = top[-1] + t[1]
            else: top.append(t[1])
        elif t[0] == 'start':
            _, tag, attrs, sc = t
            node = (tag, attrs, [])
            top.append(node)
            if tag.lower() in VOID:
                if fmt == 'xhtml' and not sc:
                    raise NotWellFormed('void element <%s> not self-closed' % tag, 0)
                if fmt == 'html' and sc:
                    raise NotWellFormed('self-closed <%s /> in html mode' % tag, 0)
            else:
                if sc:
                    raise NotWellFormed('non-void element <%s /> self-closed' % tag, 0)
                stack.append(node)
        else:
            if len(stack) == 1:
                raise NotWellFormed('end tag </%s> without start' % t[1], 0)
            if stack[-1][0] != t[1]:
                raise NotWellFormed('end tag </%s> closes <%s>' % (t[1], stack[-1][0]), 0)
            if t[1].lower() in VOID:
                raise NotWellFormed('end tag for void element %s' % t[1], 0)
            stack.pop()
    if len(stack) != 1:
        raise NotWellFormed('unclosed <%s>' % stack[-1][0], len(s))
    return root[2]


def elements(children):
    """all element nodes, document order"""
    for c in children:
        if not isinstance(c, str):
            yield c
            yield from elements(c[2])


def text_content(children):
    out = []
    def go(cs):
        for c in cs:
            if isinstance(c, str): out.append(c)
            else: go(c[2])
    go(children)
    return ''.join(out)


def text_pieces(children, path=()):
    """(path of tags, text) for every text node, document order"""
    for c in children:
        if isinstance(c, str):
            yield path, c
        else:
            yield from text_pieces(c[2], path + (c[0],))
