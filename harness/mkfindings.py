#!/venv/bin/python
"""Collect the FINDINGS lists of the oracle modules into known_findings.json (a build-time tool: the file is
committed and never written at run time).  Entries already present keep their status (open / fixed) and commit."""
import importlib, json, os, sys
HERE = os.path.dirname(os.path.abspath(__file__)); VERIF = os.path.dirname(HERE)
sys.path.insert(0, HERE); sys.path.insert(0, os.environ.get('VERIF_REPO', '/repo'))
path = os.path.join(VERIF, 'known_findings.json')
old = {f['id']: f for f in json.load(open(path)).get('findings', [])}
out = []
for fn in sorted(os.listdir(os.path.join(HERE, 'oracle'))):
    if not fn.startswith('c') or not fn.endswith('.py'): continue
    mod = importlib.import_module('oracle.' + fn[:-3])
    for f in getattr(mod, 'FINDINGS', []):
        e = dict(f)
        if e['id'] in old:
            for k in ('status', 'commit'):
                if k in old[e['id']]: e[k] = old[e['id']][k]
        out.append(e)
# entries that exist only in the committed file (recorded by hand, e.g. defects found by a proof agent and repaired) are kept
mod_ids = {e['id'] for e in out}
for fid, f in old.items():
    if fid not in mod_ids: out.append(f)
ids = [e['id'] for e in out]
pass  # several witnesses may share one finding id
json.dump({'comment': 'Genuine defects of Python-Markdown found by these checks: status open = recorded, not repaired (the check prints KNOWN-FINDING while the witness still fails); status fixed = repaired by the fix: commit named, suppresses nothing. Never written at run time. See DESIGN.md section 6.',
           'findings': out}, open(path, 'w'), indent=1, ensure_ascii=True)
print(len(out), 'findings:', ' '.join(ids))
