"""C20 search oracle: file / stream / command-line conversion == string conversion, in any encoding.

 A. FILE cases (~65 % of n; in process).  A document (gen/docs.document, its characters mapped into the repertoire of the
    chosen encoding, plus characters of that repertoire: Latin-1, cp1252 punctuation, Cyrillic, kana/kanji, astral, RTL,
    combining) x encoding (utf-8, utf-8-sig, utf-16, utf-32, latin-1, ascii, cp1252, koi8-r, shift_jis; a few alias
    spellings; None = default utf-8) x 0-2 explicit leading U+FEFF x input as path / BytesIO x output as path / BytesIO
    (optionally with bytes already in it) / stdout (sys.stdout replaced by an object with a .buffer) x API
    (`Markdown(**kw).convertFile(...)` / `markdown.markdownFromFile(**kw)`) x keyword arguments (extensions, their
    options, output_format).  Options that put characters into the OUTPUT which the encoding cannot represent (toc
    permalink/title, smarty substitutions, footnotes BACKLINK_TEXT, abbr glossary) exercise `xmlcharrefreplace`.
    Required:  bytes written == markdown.markdown(input_bytes.decode(enc).lstrip('\\ufeff'), **kw).encode(enc, 'xmlcharrefreplace')
    stdin input: only with a stdin whose text layer already has the encoding asked for (the other case is F-C20-1).
    IN PLACE (~9 % of the file cases): input and output are the SAME path (`out` = 'inplace'): afterwards the file holds the
    HTML of its former content (the source has to be read before the target is opened for writing).
 H. HISTORY cases (~12 % of the file budget): ONE `Markdown(**kw)` instance, 2-4 `convertFile` calls in a row, each with its
    own document, encoding (explicit, alias, `encoding=None`, or the argument omitted = the documented default utf-8),
    input path / BytesIO, output path / BytesIO / stdout / in place, optionally `reset()` before the call.
    Required for every call i:  bytes written == html_i.encode(enc_i or 'utf-8', 'xmlcharrefreplace')  where html_i is what
    the same history gives through the string API on one instance (`ref = Markdown(**kw)`; `ref.reset()` where the history
    resets; `ref.convert(data_i.decode(enc_i or 'utf-8').lstrip('\ufeff'))`): the encoding of a call is that call's argument,
    nothing remembered from an earlier call.  A history whose string-API reference raises is cut before that step.
 B. OPTION cases (~35 %; in process): `markdown.__main__.parse_options(argv)` for random argv (short/long/attached/`=`
    spellings, unambiguous abbreviations, repeated options, interspersed positionals, `--`, -c with JSON or YAML files in
    the encoding given by -e, -q/-v/--noisy) against the expected (kwargs dict, verbosity) computed here.
    BIG and EMPTY documents: the first two file cases of every call go to STDOUT in an encoding whose encoder emits a byte-order mark
    (utf-16, utf-32, utf-8-sig), one with more than 64Ki characters of HTML (a filler code block / raw block / long paragraph of
    65 600 - 132 000 characters of the encoding's repertoire, so that any block-wise writing has a boundary inside it), one with an
    empty / white-space-only document (the output is the bare BOM); the same two shapes occur at random (~1 % / 2 %) with every
    encoding, input and output kind, and in the command-line cases.
    `!!python/name:` values in YAML config files (only when PyYAML is the loader): option cases name a function of a standard-library
    module that is NOT IMPORTED when the options are parsed (the oracle removes that leaf module from sys.modules first); the loader has
    to import it.  Command-line and M cases with `toc` pass `slugify: !!python/name:markdown.extensions.toc.slugify_unicode` (in the
    fresh process of a command-line case the extension module is not imported yet when the file is read).
 M. MAIN cases (n/60 per call; in process): `markdown.__main__.run()` with sys.argv set (-e/-o/-x/-c/-n/-f and -q/-v/--noisy), input
    file, output file or stdout (sys.stdout replaced by an object whose TEXT layer writes a visible marker into the same byte buffer:
    anything the command prints to stdout besides the document shows), stderr captured; logging / warnings state restored afterwards.
    Required as in C.
 C. CLI cases (a few per call: a subprocess each; a third of them with -q/-v/--noisy): `python -m markdown` with -e/-o/-f/-x/-c/-n, input file or stdin (stdin:
    PYTHONIOENCODING = the encoding), output file or stdout or IN PLACE (`-f <the input file>`; the first command-line case
    of every call is in place, a quarter of the others with a file input); bytes compared as in A.

distinct = number of different (encoding, input kind, output kind, document) with non-empty output, plus different argv.
"""
import codecs, io, json, os, shutil, subprocess, sys, tempfile, contextlib
from gen import docs as D

NEEDS_DRIVER = False

FINDINGS = [
    {'id': 'F-C20-1', 'property': 'C20', 'status': 'open',
     'what': 'input from stdin ignores `encoding`: sys.stdin.read() decodes with the locale/stdio encoding (Latin-1 bytes with -e latin-1 '
             'under a UTF-8 locale: UnicodeDecodeError or surrogate-escaped characters written as &#56553;)',
     'witness': {'kind': 'cli', 'doc': 'café *x*', 'enc': 'latin-1', 'stdin': True, 'stdio_enc': None, 'args': ['-e', 'latin-1'], 'exts': [], 'configs': {}, 'fmt': 'xhtml',
                 'outfile': False}},
]

ENCODINGS = ['utf-8', 'utf-8-sig', 'utf-16', 'utf-32', 'latin-1', 'ascii', 'cp1252', 'koi8-r', 'shift_jis']
ALIASES = {'utf-8': ['UTF-8', 'utf8', 'U8'], 'latin-1': ['iso-8859-1', 'latin1', 'L1'], 'ascii': ['us-ascii', 'ASCII'], 'utf-16': ['UTF-16', 'utf16'], 'cp1252': ['windows-1252'],
           'shift_jis': ['sjis', 'shift-jis'], 'koi8-r': ['KOI8-R'], 'utf-32': ['UTF-32'], 'utf-8-sig': ['utf_8_sig']}
POOL = {
    'ascii': 'xyz',
    'latin-1': 'éßÿñ© ­Å¶',
    'cp1252': '€’“”…–šŸéß ',
    'koi8-r': 'ПриветёЁ©─│ ',
    'shift_jis': '日本語テスト。「」ｱｲｳＡ　',
}
UNI = 'éß日本٣של́‍  \U0001F600\U0001D518€П￿﻿'


def pool(enc):
    return POOL.get(enc, UNI)


def fit(rng, text, enc):
    """map the characters of `text` into the repertoire of `enc` and sprinkle characters of that repertoire"""
    p = pool(enc)
    out = []
    for ch in text:
        if ord(ch) < 128: out.append(ch)
        else:
            try: ch.encode(enc); out.append(ch)
            except UnicodeError: out.append(rng.choice(p))
    for _ in range(rng.randint(0, 5)):
        out.insert(rng.randint(0, len(out)), rng.choice(p))
    return ''.join(out)


def gen_kwargs(rng):
    """keyword arguments for Markdown: extensions with options that may put non-ASCII characters into the output"""
    exts = []; cfg = {}
    k = rng.random()
    if k < 0.35: pass
    else:
        for e in rng.sample(['toc', 'smarty', 'footnotes', 'abbr', 'tables', 'fenced_code', 'attr_list', 'nl2br', 'wikilinks', 'extra', 'admonition', 'codehilite', 'meta'], rng.choice([1, 1, 2, 3, 5])):
            exts.append(e)
        if 'toc' in exts and rng.random() < 0.7: cfg['toc'] = rng.choice([{'permalink': '¶'}, {'permalink': True}, {'title': 'Üb€r 日本'}, {'permalink': '\U0001F517', 'title': 'T'}])
        if 'smarty' in exts and rng.random() < 0.6: cfg['smarty'] = {'substitutions': {rng.choice(['ndash', 'mdash', 'ellipsis', 'left-double-quote', 'right-single-quote']): rng.choice(['–', '…', '“', '»'])}}
        if 'footnotes' in exts and rng.random() < 0.6: cfg['footnotes'] = {'BACKLINK_TEXT': rng.choice(['↩', '↑ back', '&#8617;'])}
        if 'abbr' in exts and rng.random() < 0.5: cfg['abbr'] = {'glossary': {'HTML': 'Hyper‑Text é'}}
    kw = {'extensions': exts, 'extension_configs': cfg}
    if rng.random() < 0.4: kw['output_format'] = rng.choice(['html', 'xhtml'])
    return kw


def trigger_text(kw):
    """markdown that makes the configured options show in the output"""
    c = kw['extension_configs']; t = ''
    if 'toc' in c: t += '\n\n# Head\n\n[TOC]'
    if 'footnotes' in c: t += '\n\nx[^1]\n\n[^1]: n'
    if 'smarty' in c: t += '\n\na -- b --- c... "q" \'s\''
    if 'abbr' in c: t += '\n\nHTML'
    return t


def resolve_pynames(obj):
    """{'@pyname': 'pkg.mod.attr'} (the json-able stand-in for a `!!python/name:pkg.mod.attr` value) -> the object"""
    import importlib
    if isinstance(obj, dict):
        if list(obj) == ['@pyname']:
            mod, attr = obj['@pyname'].rsplit('.', 1)
            return getattr(importlib.import_module(mod), attr)
        return {k: resolve_pynames(v) for k, v in obj.items()}
    if isinstance(obj, list): return [resolve_pynames(v) for v in obj]
    return obj


def has_pyname(obj):
    if isinstance(obj, dict): return list(obj) == ['@pyname'] or any(has_pyname(v) for v in obj.values())
    return isinstance(obj, list) and any(has_pyname(v) for v in obj)


def expected_bytes(data, enc, kw):
    import markdown
    e = enc or 'utf-8'
    text = data.decode(e).lstrip('﻿')
    return markdown.markdown(text, **resolve_pynames(json.loads(json.dumps(kw)))).encode(e, 'xmlcharrefreplace')


BOM_ENCODINGS = ['utf-16', 'utf-32', 'utf-8-sig']
BLOCK = 65536


def big_doc(rng, enc0, counters):
    """a document whose HTML is longer than 64Ki characters (sometimes than 128Ki): a few ordinary pieces around a filler"""
    p = pool(enc0)
    size = rng.randint(BLOCK + 64, BLOCK + 4500) if rng.random() < 0.8 else rng.randint(2 * BLOCK + 64, 2 * BLOCK + 1000)
    words = ['word', 'x', 'lorem ipsum', 'a', '&', '<b>', 'q"q', ''.join(rng.choice(p) for _ in range(3)), rng.choice(p), rng.choice(p) * 2]
    kind = rng.choice(['code', 'raw', 'para'])
    lines = []; total = 0
    while total < size:
        ln = ' '.join(rng.choice(words) for _ in range(rng.randint(4, 14)))
        if kind == 'para': ln = ln.replace('<b>', 'b').replace('&', 'and')
        lines.append(('    ' if kind == 'code' else '') + ln); total += len(ln) + 1
    filler = '\n'.join(lines)
    if kind == 'raw': filler = '<div>\n' + filler + '\n</div>'
    head = fit(rng, D.document(rng, 1, 2, counters=counters), enc0) if rng.random() < 0.7 else ''
    tail = rng.choice(['', '', 'end *of* text ' + rng.choice(p)])
    return '\n\n'.join(x for x in (head, filler, tail) if x)


class _Out(io.BytesIO):
    """BytesIO that survives close() (so that what was written can still be read) and remembers it"""
    was_closed = False

    def close(self):
        self.was_closed = True


class _Stdout:
    def __init__(self):
        self.buffer = _Out()

    def write(self, s):   # text written to sys.stdout proper would be a defect of its own: keep it visible
        self.buffer.write(('<<TEXT:%r>>' % s).encode())

    def flush(self): pass


def run_file_case(case):
    """-> (written bytes, expected bytes); raises what the API raises"""
    import markdown
    enc = case['enc']; kw = json.loads(json.dumps(case['kw']))
    data = ('﻿' * case['boms'] + case['doc']).encode(case['enc_data'])
    want = case['pre'].encode('ascii') * (case['out'] == 'stream') + expected_bytes(data, case['enc_data'], case['kw'])
    tmp = tempfile.mkdtemp(prefix='c20_')
    old_out, old_in = sys.stdout, sys.stdin
    try:
        if case['in'] == 'path':
            inp = os.path.join(tmp, 'in put.txt')
            with open(inp, 'wb') as f: f.write(data)
        elif case['in'] == 'stream': inp = io.BytesIO(data)
        else:
            inp = None
            sys.stdin = io.TextIOWrapper(io.BytesIO(data), encoding=case['enc_data'])
        if case['out'] == 'path': outp = os.path.join(tmp, 'out.html')
        elif case['out'] == 'inplace':
            if case['in'] != 'path': raise ValueError('in place needs a path input')
            outp = inp
        elif case['out'] == 'stream':
            outp = _Out(); outp.write(case['pre'].encode('ascii'))
        else:
            outp = None; sys.stdout = _Stdout()
        try:
            if case['api'] == 'method':
                md = markdown.Markdown(**kw)
                r = md.convertFile(input=inp, output=outp, encoding=enc)
                if r is not md: raise AssertionError('convertFile does not return the instance')
            else:
                args = dict(kw)
                if inp is not None or case.get('explicit_none'): args['input'] = inp
                if outp is not None or case.get('explicit_none'): args['output'] = outp
                if enc is not None or case.get('explicit_none'): args['encoding'] = enc
                markdown.markdownFromFile(**args)
            if case['out'] in ('path', 'inplace'):
                with open(outp, 'rb') as f: got = f.read()
            elif case['out'] == 'stream': got = outp.getvalue()
            else: got = sys.stdout.buffer.getvalue()
        finally:
            sys.stdout, sys.stdin = old_out, old_in
    finally:
        shutil.rmtree(tmp, ignore_errors=True)
    return got, want


# ---- histories of convertFile calls on one instance ------------------------------------------------------------------

def _step_data(st):
    return ('\ufeff' * st['boms'] + st['doc']).encode(st['enc_data'])


def history_reference(case):
    """[expected bytes per step] through the string API on ONE instance; stops before the first step whose conversion raises"""
    import markdown
    ref = markdown.Markdown(**json.loads(json.dumps(case['kw'])))
    wants = []
    for st in case['steps']:
        data = _step_data(st)
        try:
            if st['reset']: ref.reset()
            html = ref.convert(data.decode(st['enc_data']).lstrip('\ufeff'))
        except Exception:
            break
        wants.append(st['pre'].encode('ascii') * (st['out'] == 'stream') + html.encode(st['enc_data'], 'xmlcharrefreplace'))
    return wants


def run_history_case(case):
    """-> None or (observed, required)"""
    import markdown
    wants = history_reference(case)
    case['_steps_run'] = len(wants)
    md = markdown.Markdown(**json.loads(json.dumps(case['kw'])))
    tmp = tempfile.mkdtemp(prefix='c20h_')
    old_out = sys.stdout
    try:
        for i, (st, want) in enumerate(zip(case['steps'], wants)):
            data = _step_data(st)
            if st['in'] == 'path':
                inp = os.path.join(tmp, 'in %d.txt' % i)
                with open(inp, 'wb') as f: f.write(data)
            else: inp = io.BytesIO(data)
            if st['out'] == 'path': outp = os.path.join(tmp, 'out%d.html' % i)
            elif st['out'] == 'inplace': outp = inp
            elif st['out'] == 'stream':
                outp = _Out(); outp.write(st['pre'].encode('ascii'))
            else:
                outp = None; sys.stdout = _Stdout()
            args = {'input': inp, 'output': outp}
            if not (st['enc'] is None and st['omit']): args['encoding'] = st['enc']
            what = 'call %d of %d (%s)' % (i + 1, len(case['steps']), ', '.join('%s: encoding %s' % (j + 1, 'omitted' if (x['enc'] is None and x['omit']) else repr(x['enc'])) for j, x in enumerate(case['steps'][:i + 1])))
            try:
                if st['reset']: md.reset()
                r = md.convertFile(**args)
                if r is not md: return ('%s: convertFile does not return the instance' % what, 'the instance')
                if st['out'] in ('path', 'inplace'):
                    with open(outp, 'rb') as f: got = f.read()
                elif st['out'] == 'stream': got = outp.getvalue()
                else: got = sys.stdout.buffer.getvalue()
            except RecursionError:
                raise
            except Exception as e:
                return ('%s raised %s: %s' % (what, type(e).__name__, str(e)[:300]), repr(want[:600]))
            finally:
                sys.stdout = old_out
            if got != want: return ('%s wrote %r' % (what, got[:1000]), repr(want[:1000]))
        return None
    finally:
        sys.stdout = old_out
        shutil.rmtree(tmp, ignore_errors=True)


def gen_history_case(rng, counters):
    kw = gen_kwargs(rng)
    steps = []
    for i in range(rng.choice([2, 2, 3, 4])):
        r = rng.random()
        if r < 0.42: enc0, enc = 'utf-8', None                      # the documented default
        else:
            enc0 = enc = rng.choice(ENCODINGS)
            if rng.random() < 0.12 and enc0 in ALIASES:
                enc = rng.choice(ALIASES[enc0])
                try: codecs.lookup(enc)
                except LookupError: enc = enc0
        doc = fit(rng, D.document(rng, 1, 3, counters=counters), enc0)
        if enc is None and rng.random() < 0.7: doc += '\n\n' + rng.choice(['имя_файла_ тут *текст*', 'café_au_lait_ ß', '日本語 *テスト*', 'naïve “q” — x', '\U0001F600 _e_'])
        if i == 0 or rng.random() < 0.3: doc += trigger_text(kw)
        try: ok = encodable({'boms': 0, 'doc': doc, 'enc_data': enc0})
        except Exception: ok = False
        if not ok: doc = 'plain *text* %d' % i
        inn = rng.choice(['path', 'stream'])
        out = rng.choice(['path', 'stream', 'stream', 'stdout'] + (['inplace'] if inn == 'path' else []))
        steps.append({'doc': doc, 'enc': enc, 'enc_data': enc0, 'omit': enc is None and rng.random() < 0.6, 'boms': rng.choice([0, 0, 0, 1]) if enc0.startswith('utf') else 0,
                      'in': inn, 'out': out, 'pre': rng.choice(['', '', 'PRE\n']), 'reset': rng.random() < 0.6})
    return {'kind': 'history', 'kw': kw, 'steps': steps}


def gen_file_case(rng, counters, force=None):
    """force: None | 'big' | 'empty'  (to stdout, in an encoding with a byte-order mark)"""
    enc0 = rng.choice(BOM_ENCODINGS if force else ENCODINGS)
    enc = enc0
    r = rng.random()
    if r < 0.12 and enc0 in ALIASES: enc = rng.choice(ALIASES[enc0])
    elif r < 0.2 and enc0 == 'utf-8': enc = None
    try: codecs.lookup(enc or 'utf-8')
    except LookupError: enc = enc0
    shape = force
    if shape is None:
        r = rng.random()
        shape = 'big' if r < 0.008 else 'empty' if r < 0.028 else 'doc'
    kw = gen_kwargs(rng)
    if shape == 'big': doc = big_doc(rng, enc0, counters) + (trigger_text(kw) if rng.random() < 0.5 else '')
    elif shape == 'empty': doc = rng.choice(['', '', '\n', '   \n\n', '\t', ' '])
    else:
        doc = fit(rng, D.document(rng, 1, 4, counters=counters), enc0)
        doc += trigger_text(kw)
    if rng.random() < 0.1: doc = doc.replace('\n', rng.choice(['\r\n', '\r']))
    case = {'kind': 'file', 'doc': doc, 'enc': enc, 'enc_data': enc0, 'boms': rng.choice([0, 0, 0, 1, 1, 2]) if enc0.startswith('utf') else 0,
            'in': rng.choice(['path', 'path', 'stream', 'stream', 'stdin']), 'out': rng.choice(['path', 'stream', 'stdout']), 'api': rng.choice(['method', 'function']),
            'kw': kw, 'pre': rng.choice(['', '', 'PRE\n']), 'explicit_none': rng.random() < 0.5}
    if shape != 'doc': case['shape'] = shape
    if force: case['out'] = 'stdout'
    if case['in'] == 'stdin' and enc0 in ('utf-16', 'utf-32', 'utf-8-sig'): case['in'] = 'stream'   # BOM handling of a text-mode stdin is the io module's
    if rng.random() < 0.09 and not force: case['in'], case['out'] = 'path', 'inplace'      # the output path IS the input path
    return case


def encodable(case):
    try:
        data = ('﻿' * case['boms'] + case['doc']).encode(case['enc_data'])
        return data.decode(case['enc_data']) == '﻿' * case['boms'] + case['doc'] or case['enc_data'] in ('utf-8-sig', 'utf-16', 'utf-32')
    except UnicodeError:
        return False


# ---- option parsing --------------------------------------------------------------------------------------------------------

CRITICAL, WARNING, DEBUG = 50, 30, 10
LONG = {'f': 'file', 'e': 'encoding', 'o': 'output_format', 'x': 'extension', 'c': 'extension_configs', 'n': 'no_lazy_ol', 'q': 'quiet', 'v': 'verbose'}
ABBR = {'f': ['fil', 'fi'], 'e': ['enc', 'en'], 'o': ['output', 'out', 'o'], 'n': ['no_lazy', 'no_'], 'q': ['qui', 'q'], 'v': ['verb', 'verbo'], 'x': ['extension'], 'c': ['extension_c', 'extension_configs']}


# functions of standard-library leaf modules that nothing here imports (removed from sys.modules before the options are parsed)
LAZY_NAMES = ['colorsys.rgb_to_hls', 'colorsys.hls_to_rgb', 'stringprep.in_table_b1', 'quopri.encodestring', 'tabnanny.check', 'sched.scheduler', 'pyclbr.readmodule']


def yaml_supported():
    import markdown.__main__ as M
    return getattr(M.yaml_load, '__module__', '').split('.')[0] == 'yaml'


def config_text(cfg, enc, as_yaml):
    """text of a config file for `cfg` that is encodable in `enc`, or None.  Characters the encoding lacks are written as
    \\uXXXX escapes (valid in JSON and in YAML double-quoted scalars) - only BMP characters, because a YAML loader does
    not join a surrogate pair of escapes."""
    def render(ascii_only):
        if not as_yaml: return json.dumps(cfg, ensure_ascii=ascii_only)
        lines = []
        for e, o in cfg.items():
            if not o: lines.append('%s: {}' % e); continue
            lines.append('%s:' % e)
            for k, v in o.items():
                if isinstance(v, dict) and list(v) == ['@pyname']: lines.append('  %s: !!python/name:%s' % (k, v['@pyname']))
                else: lines.append('  %s: %s' % (k, json.dumps(v, ensure_ascii=ascii_only)))   # JSON scalars/flow maps are YAML
        return '\n'.join(lines) + '\n' if lines else '{}\n'
    text = render(False)
    try: text.encode(enc or 'utf-8'); return text
    except UnicodeError: pass
    if any(ord(c) > 0xFFFF for c in text): return None
    return render(True)


def write_config(path, cfg, enc, as_yaml):
    with open(path, 'wb') as f: f.write(config_text(cfg, enc, as_yaml).encode(enc or 'utf-8'))


def gen_argv(rng, tmp):
    """(argv, expected opts, expected verbosity, files to create [(path, cfg, as_yaml)])  - encoding of config files = final -e"""
    exp = {'input': None, 'output': None, 'extensions': [], 'extension_configs': {}, 'encoding': None, 'output_format': 'xhtml', 'lazy_ol': True}
    verb = CRITICAL
    argv = []; cfgfile = None; positionals = []

    def spell(letter, value=None):
        k = rng.random()
        if value is None:
            if k < 0.5 or letter not in LONG: return ['-' + letter]
            if k < 0.85: return ['--' + LONG[letter]]
            return ['--' + rng.choice(ABBR[letter])]
        if k < 0.3: return ['-' + letter, value]
        if k < 0.45: return ['-' + letter + value]
        if k < 0.7: return ['--' + LONG[letter], value]
        if k < 0.88: return ['--%s=%s' % (LONG[letter], value)]
        return ['--%s=%s' % (rng.choice(ABBR[letter]), value)] if rng.random() < 0.5 else ['--' + rng.choice(ABBR[letter]), value]
    cfg = None
    for _ in range(rng.randint(0, 7)):
        o = rng.choice('feoxxcnqvN P')
        if o == 'f':
            v = rng.choice(['out.html', 'o u t.htm', os.path.join(tmp, 'x.html'), 'f']); argv += spell('f', v); exp['output'] = v
        elif o == 'e':
            v = rng.choice(['utf-8', 'latin-1', 'utf-16', 'ascii', 'koi8-r', 'UTF-8']); argv += spell('e', v); exp['encoding'] = v
        elif o == 'o':
            v = rng.choice(['html', 'xhtml', 'html5', 'XHTML', 'x']); argv += spell('o', v); exp['output_format'] = v
        elif o == 'x':
            v = rng.choice(['toc', 'tables', 'markdown.extensions.extra', 'markdown.extensions.toc:TocExtension', 'footnotes', 'path.to.mod', 'toc'])
            argv += spell('x', v); exp['extensions'].append(v)
        elif o == 'c':
            cfg = rng.choice([{}, {'toc': {'permalink': True}}, {'toc': {'title': 'Té', 'baselevel': 2}, 'footnotes': {'BACKLINK_TEXT': 'b'}},
                              {'markdown.extensions.toc': {'separator': '_', 'anchorlink': False}}, {'codehilite': {'linenums': None, 'css_class': 'c'}}])
            if yaml_supported() and rng.random() < 0.4:
                # a value given as a Python name in a module that is not imported when the options are parsed
                nm = rng.choice(LAZY_NAMES)
                cfg = rng.choice([{'toc': {'slugify': {'@pyname': nm}}}, {'toc': {'permalink': True, 'slugify': {'@pyname': nm}, 'title': 'T'}},
                                  {'x.y': {'hook': {'@pyname': nm}}, 'footnotes': {'BACKLINK_TEXT': 'b'}}])
            cfgfile = os.path.join(tmp, 'cfg%d.%s' % (len(argv), rng.choice(['json', 'yml', 'conf'])))
            argv += spell('c', cfgfile)
        elif o == 'n': argv += spell('n'); exp['lazy_ol'] = False
        elif o == 'q': argv += spell('q'); verb = CRITICAL + 10
        elif o == 'v': argv += spell('v'); verb = WARNING
        elif o == 'N': argv += ['--noisy']; verb = DEBUG
        elif o == 'P':
            v = rng.choice(['in.txt', 'dir/in put.md', 'x']); argv.append(v); positionals.append(v)
    if rng.random() < 0.1:
        argv.append('--'); extra = rng.choice([['-x'], ['in2.txt', '-f'], ['-notanoption']]); argv += extra; positionals += extra
    if positionals: exp['input'] = positionals[0]
    files = []
    if cfgfile is not None:
        as_yaml = yaml_supported() and (rng.random() < 0.5 or has_pyname(cfg))
        files.append((cfgfile, cfg, as_yaml))
        exp['extension_configs'] = cfg
    return argv, exp, verb, files


def run_parse_case(case):
    """-> None or (observed, required)"""
    import markdown.__main__ as M
    tmp = case['tmp_used'] = tempfile.mkdtemp(prefix='c20o_')
    try:
        argv = [a.replace('@TMP@', tmp) for a in case['argv']]
        exp = json.loads(json.dumps(case['expected']).replace('@TMP@', tmp))
        for path, cfg, as_yaml in case['files']:
            write_config(path.replace('@TMP@', tmp), cfg, exp['encoding'], as_yaml)
        if has_pyname(exp):
            for nm in LAZY_NAMES: sys.modules.pop(nm.split('.')[0], None)      # the named module is not imported when the options are parsed
        err = io.StringIO()
        try:
            with contextlib.redirect_stderr(err):
                got = M.parse_options(list(argv))
        except SystemExit as e:
            return ('SystemExit(%r): %s' % (e.code, err.getvalue()[-300:]), repr((exp, case['verbosity'])))
        except Exception as e:
            return ('%s: %s' % (type(e).__name__, str(e)[:300]), repr((exp, case['verbosity'])))
        exp = resolve_pynames(exp)
        if got != (exp, case['verbosity']):
            return (repr(got), repr((exp, case['verbosity'])))
        return None
    finally:
        shutil.rmtree(tmp, ignore_errors=True)


def gen_parse_case(rng):
    argv, exp, verb, files = gen_argv(rng, '@TMP@')
    return {'kind': 'parse', 'argv': argv, 'expected': exp, 'verbosity': verb, 'files': [list(f) for f in files]}


# ---- command line ---------------------------------------------------------------------------------------------------------------

def _md_root():
    import markdown
    return os.path.dirname(os.path.dirname(os.path.abspath(markdown.__file__)))


def run_cli_case(case):
    """-> (got bytes, expected bytes, returncode, stderr tail)"""
    enc = case['enc']
    data = case['doc'].encode(enc or 'utf-8')
    tmp = tempfile.mkdtemp(prefix='c20c_')
    try:
        args = [a.replace('@TMP@', tmp) for a in case['args']]
        if case['configs'] is not None and '-c' in args:
            write_config(args[args.index('-c') + 1], case['configs'], enc, case.get('yaml', False))
        env = dict(os.environ)
        env['PYTHONPATH'] = _md_root() + os.pathsep + env.get('PYTHONPATH', '')
        for k in ('PYTHONIOENCODING', 'PYTHONUTF8'): env.pop(k, None)
        if case.get('stdio_enc'): env['PYTHONIOENCODING'] = case['stdio_enc']
        else: env['LC_ALL'] = env['LANG'] = 'C.UTF-8'
        stdin = None
        if case['stdin']: stdin = data
        else:
            with open(os.path.join(tmp, 'in.txt'), 'wb') as f: f.write(data)
            args = args + [os.path.join(tmp, 'in.txt')]
        p = subprocess.run([sys.executable, '-m', 'markdown'] + args, input=stdin if stdin is not None else b'', stdout=subprocess.PIPE, stderr=subprocess.PIPE, env=env, cwd=tmp, timeout=120)
        if p.returncode < 0:
            # the child was killed by a signal (out-of-memory killer, operator): says nothing about the code under test - counted as skipped
            raise OSError('command-line child killed by signal %d' % -p.returncode)
        if case['outfile']:
            try:
                with open(os.path.join(tmp, 'in.txt' if case.get('inplace') else 'out.html'), 'rb') as f: got = f.read()
            except OSError: got = b'<<no output file>>' + p.stdout
        else: got = p.stdout
        kw = {'extensions': case['exts'], 'extension_configs': case['configs'] or {}, 'output_format': case['fmt']}
        want = expected_bytes(data, enc, kw)
        return got, want, p.returncode, p.stderr.decode('utf-8', 'replace')[-400:]
    finally:
        shutil.rmtree(tmp, ignore_errors=True)


def gen_cli_case(rng, counters, force_inplace=False):
    enc = rng.choice(ENCODINGS + [None])
    stdin = rng.random() < 0.25 and not force_inplace
    if stdin and enc in ('utf-16', 'utf-32', 'utf-8-sig'): enc = 'utf-8'
    r = rng.random()
    shape = 'big' if r < 0.1 else 'empty' if r < 0.15 else 'doc'
    kw = gen_kwargs(rng)
    if shape == 'big': doc = big_doc(rng, enc or 'utf-8', counters)
    elif shape == 'empty': doc = rng.choice(['', '\n', '  \n'])
    else: doc = fit(rng, D.document(rng, 1, 4, counters=counters), enc or 'utf-8') + trigger_text(kw)
    if stdin: doc = doc.replace('﻿', '').replace('\r', '')   # text-mode stdin: BOM and newline translation belong to io, not to markdown
    if 'toc' in kw['extensions'] and yaml_supported() and rng.random() < 0.5:
        # the documented way to pass a function: a Python name in the YAML file (the extension module is imported later than the file is read)
        kw['extension_configs'].setdefault('toc', {})['slugify'] = {'@pyname': 'markdown.extensions.toc.' + rng.choice(['slugify_unicode', 'slugify'])}
        if shape == 'doc': doc += '\n\n# ' + fit(rng, 'Über uns Заголовок 日本', enc or 'utf-8') + '\n\n[TOC]'
    args = []
    v = rng.choice([None, None, None, None, '-q', '-v', '--noisy', '--noisy'])      # diagnostics go to stderr, never into the document
    if v: args += [v]
    if enc is not None: args += ['-e', enc]
    fmt = kw.get('output_format', 'xhtml')
    if 'output_format' in kw: args += ['-o', fmt]
    for e in kw['extensions']: args += ['-x', e]
    configs = None; as_yaml = False
    if kw['extension_configs'] or rng.random() < 0.2:
        configs = kw['extension_configs']; as_yaml = yaml_supported() and (rng.random() < 0.5 or has_pyname(configs))
        if config_text(configs, enc, as_yaml) is None: configs = {}     # not writable in this encoding (astral character)
        args += ['-c', '@TMP@/cfg.' + ('yml' if as_yaml else 'json')]
    if rng.random() < 0.3: args += ['-n']
    outfile = rng.random() < 0.5 or force_inplace
    inplace = outfile and not stdin and (force_inplace or rng.random() < 0.25)
    if outfile: args += ['-f', '@TMP@/in.txt' if inplace else '@TMP@/out.html']      # in.txt is the input file run_cli_case writes and names last
    return {'kind': 'cli', 'inplace': inplace, 'doc': doc, 'enc': enc, 'stdin': stdin, 'stdio_enc': (enc or 'utf-8') if stdin else None, 'args': args, 'exts': kw['extensions'], 'configs': configs,
            'yaml': as_yaml, 'fmt': fmt, 'outfile': outfile}


# ---- main(): the command line in process -------------------------------------------------------------------------------------------

@contextlib.contextmanager
def _logging_state_restored():
    """run() configures the process-wide logging / warnings machinery: put everything back afterwards"""
    import logging, warnings
    lg = logging.getLogger('MARKDOWN'); wl = logging.getLogger('py.warnings')
    saved = (lg.level, list(lg.handlers), list(wl.handlers), logging._warnings_showwarning)
    with warnings.catch_warnings():
        try:
            yield
        finally:
            lg.setLevel(saved[0]); lg.handlers[:] = saved[1]; wl.handlers[:] = saved[2]
            if saved[3] is None: logging.captureWarnings(False)


def run_main_case(case):
    """-> (got bytes, expected bytes, exit code or None, captured stderr tail); `markdown.__main__.run()` in this process"""
    import markdown.__main__ as M
    enc = case['enc']
    data = case['doc'].encode(enc or 'utf-8')
    tmp = tempfile.mkdtemp(prefix='c20m_')
    old = (sys.stdout, sys.stderr, sys.argv)
    err = io.StringIO(); rc = None
    try:
        args = [a.replace('@TMP@', tmp) for a in case['args']]
        if case['configs'] is not None and '-c' in args:
            write_config(args[args.index('-c') + 1], case['configs'], enc, case.get('yaml', False))
        with open(os.path.join(tmp, 'in.txt'), 'wb') as f: f.write(data)
        args = args + [os.path.join(tmp, 'in.txt')]
        out = _Stdout()
        with _logging_state_restored():
            sys.argv = ['markdown'] + args; sys.stdout = out; sys.stderr = err
            try:
                M.run()
            except SystemExit as e:
                rc = e.code if e.code is not None else 0
            except RecursionError:
                raise
            except Exception as e:      # the command dies with a traceback (reported unless the string conversion raises too: then `want` below raises)
                rc = 'raised %s: %s' % (type(e).__name__, str(e)[:200])
            finally:
                sys.stdout, sys.stderr, sys.argv = old
        if case['outfile']:
            try:
                with open(os.path.join(tmp, 'out.html'), 'rb') as f: got = f.read()
            except OSError: got = b'<<no output file>>'
        else: got = out.buffer.getvalue()
        kw = {'extensions': case['exts'], 'extension_configs': case['configs'] or {}, 'output_format': case['fmt'], 'lazy_ol': '-n' not in case['args']}
        want = expected_bytes(data, enc, kw)
        return got, want, rc, err.getvalue()[-400:]
    finally:
        sys.stdout, sys.stderr, sys.argv = old
        shutil.rmtree(tmp, ignore_errors=True)


def gen_main_case(rng, counters):
    case = gen_cli_case(rng, counters)
    while case['stdin'] or case['inplace'] or len(case['doc']) > 3000:
        case = gen_cli_case(rng, counters)
    case['kind'] = 'main'
    if not any(a in case['args'] for a in ('-q', '-v', '--noisy')) and rng.random() < 0.5:
        case['args'] = [rng.choice(['--noisy', '--noisy', '-v'])] + case['args']
    return case


# ---- entry points ---------------------------------------------------------------------------------------------------------------

def _check(case):
    """None or (observed, required)"""
    k = case.get('kind')
    if k == 'parse': return run_parse_case(case)
    if k == 'history':
        try: return run_history_case(case)
        finally: case.pop('_steps_run', None)
    if k == 'main':
        got, want, rc, err = run_main_case(case)
        if got != want or rc not in (None, 0): return ('exit=%r %r stderr: %s' % (rc, got[:800], err), repr(want[:800]))
        return None
    if k == 'cli':
        got, want, rc, err = run_cli_case(case)
        if got != want or rc != 0: return ('rc=%d %r stderr: %s' % (rc, got[:800], err), repr(want[:800]))
        return None
    try:
        got, want = run_file_case(case)
    except RecursionError:
        raise
    except Exception as e:
        try:
            data = ('﻿' * case['boms'] + case['doc']).encode(case['enc_data'])
            want = expected_bytes(data, case['enc_data'], case['kw'])
        except Exception as e2:
            if type(e2) is type(e): return None      # the string conversion raises the same way: not a C20 matter
            raise
        return ('%s: %s' % (type(e).__name__, str(e)[:300]), repr(want[:600]))
    if got != want: return (repr(got[:1200]), repr(want[:1200]))
    return None


def replay(witness):
    try: return _check(dict(witness)) is not None
    except Exception: return True


def replay_violation(v):
    return replay(v['input'])


def search(driver, rng, n):
    dist = {'file_cases': 0, 'history_cases': 0, 'history_steps': 0, 'history_cut': 0, 'history_default_after_other': 0, 'inplace': 0, 'cli_inplace': 0, 'parse_cases': 0, 'cli_cases': 0, 'enc': {}, 'in': {}, 'out': {}, 'api': {}, 'skipped_unencodable': 0, 'charrefs_needed': 0, 'bom': 0, 'nonascii_docs': 0,
            'skipped_exception': {}, 'pieces': {}, 'yaml': yaml_supported(), 'parse_with_config': 0, 'empty_output': 0}
    viol = []; samples = []; seen = set(); cases = 0
    n_cli = max(3, min(300, n // 150))
    n_parse = n * 35 // 100
    n_main = max(2, n // 60)
    n_hist = max(2, (n - n_parse - n_cli) * 12 // 100)
    n_file = max(1, n - n_parse - n_cli - n_hist - n_main)
    for _ in range(n_hist):
        case = gen_history_case(rng, dist['pieces'])
        cases += 1; dist['history_cases'] += 1
        try:
            bad = run_history_case(case)
        except RecursionError:
            dist['skipped_exception']['RecursionError'] = dist['skipped_exception'].get('RecursionError', 0) + 1; continue
        except Exception as e:
            bad = ('the history check raised %s: %s' % (type(e).__name__, str(e)[:300]), 'every call completes')
        k = case.pop('_steps_run', 0)
        dist['history_steps'] += k
        if k < len(case['steps']): dist['history_cut'] += 1
        st = case['steps'][:k]
        for a, b in zip(st, st[1:]):
            if b['enc'] is None and a['enc_data'] != 'utf-8': dist['history_default_after_other'] += 1
        for x in st:
            if x['out'] == 'inplace': dist['inplace'] += 1
        if k >= 2: seen.add(('history', tuple((x['enc'], x['omit'], x['in'], x['out'], x['doc']) for x in st)))
        if bad and len(viol) < 30:
            viol.append({'input': case, 'config': dict(case['kw'], encodings=[('omitted' if (x['enc'] is None and x['omit']) else x['enc']) for x in case['steps']]),
                         'observed': bad[0][:1500], 'required': bad[1][:1500], 'finding': None})
    done = 0
    while done < n_file:
        case = gen_file_case(rng, dist['pieces'], force=('big', 'empty')[done] if done < 2 and n_file >= 20 else None)
        if case.get('shape'): dist['shape_' + case['shape']] = dist.get('shape_' + case['shape'], 0) + 1
        if not encodable(case):
            dist['skipped_unencodable'] += 1; continue
        done += 1; cases += 1; dist['file_cases'] += 1
        for k in ('in', 'out', 'api'): dist[k][case[k]] = dist[k].get(case[k], 0) + 1
        dist['enc'][case['enc_data']] = dist['enc'].get(case['enc_data'], 0) + 1
        if case['boms']: dist['bom'] += 1
        if case['out'] == 'inplace': dist['inplace'] += 1
        if any(ord(c) > 127 for c in case['doc']): dist['nonascii_docs'] += 1
        try:
            bad = _check(case)
            data = ('﻿' * case['boms'] + case['doc']).encode(case['enc_data'])
            want = expected_bytes(data, case['enc_data'], case['kw'])
            if b'&#' in want and case['enc_data'] in ('ascii', 'latin-1', 'cp1252', 'koi8-r', 'shift_jis'):
                import markdown
                html = markdown.markdown(data.decode(case['enc_data']).lstrip('﻿'), **json.loads(json.dumps(case['kw'])))
                try: html.encode(case['enc_data'])
                except UnicodeError: dist['charrefs_needed'] += 1
            if want.strip(b'\xff\xfe\x00\xef\xbb\xbf'): seen.add((case['enc_data'], case['in'], case['out'], case['doc']))
            else: dist['empty_output'] += 1
        except RecursionError:
            dist['skipped_exception']['RecursionError'] = dist['skipped_exception'].get('RecursionError', 0) + 1; continue
        except Exception as e:
            k = type(e).__name__; dist['skipped_exception'][k] = dist['skipped_exception'].get(k, 0) + 1; continue
        if bad and len(viol) < 30:
            viol.append({'input': case, 'config': dict(case['kw'], encoding=case['enc']), 'observed': bad[0], 'required': bad[1], 'finding': None})
        elif not bad and len(samples) < 3 and case['boms'] and case['kw']['extensions']:
            samples.append(case)
    for _ in range(n_parse):
        case = gen_parse_case(rng)
        cases += 1; dist['parse_cases'] += 1
        if case['files']: dist['parse_with_config'] += 1
        if has_pyname(case['expected']): dist['parse_with_python_name'] = dist.get('parse_with_python_name', 0) + 1
        bad = run_parse_case(case); case.pop('tmp_used', None)
        seen.add(('argv', tuple(case['argv'])))
        if bad and len(viol) < 30:
            viol.append({'input': case, 'config': {}, 'observed': bad[0][:1500], 'required': bad[1][:1500], 'finding': None})
    for _ in range(n_main):
        case = gen_main_case(rng, dist['pieces'])
        try: case['doc'].encode(case['enc'] or 'utf-8')
        except UnicodeError:
            dist['skipped_unencodable'] += 1; continue
        cases += 1; dist['main_cases'] = dist.get('main_cases', 0) + 1
        if '--noisy' in case['args'] and case['exts'] and not case['outfile']: dist['main_noisy_stdout_with_extension'] = dist.get('main_noisy_stdout_with_extension', 0) + 1
        try:
            bad = _check(case)
        except RecursionError:
            dist['skipped_exception']['RecursionError'] = dist['skipped_exception'].get('RecursionError', 0) + 1; continue
        except Exception as e:
            k = 'main:' + type(e).__name__; dist['skipped_exception'][k] = dist['skipped_exception'].get(k, 0) + 1; continue
        seen.add(('main', tuple(case['args']), case['doc']))
        if bad and len(viol) < 30:
            viol.append({'input': case, 'config': {'argv': case['args']}, 'observed': bad[0][:1500], 'required': bad[1][:1500], 'finding': None})
    for i_cli in range(n_cli):
        case = gen_cli_case(rng, dist['pieces'], force_inplace=(dist['cli_inplace'] == 0))   # at least one in-place run per call
        try: case['doc'].encode(case['enc'] or 'utf-8')
        except UnicodeError:
            dist['skipped_unencodable'] += 1; continue
        cases += 1; dist['cli_cases'] += 1
        if case['inplace']: dist['cli_inplace'] += 1
        try:
            bad = _check(case)
        except subprocess.TimeoutExpired:
            dist['cli_timeout'] = dist.get('cli_timeout', 0) + 1; continue
        except Exception as e:
            k = 'cli:' + type(e).__name__; dist['skipped_exception'][k] = dist['skipped_exception'].get(k, 0) + 1; continue
        seen.add(('cli', tuple(case['args']), case['doc']))
        if bad and len(viol) < 30:
            viol.append({'input': case, 'config': {'argv': case['args']}, 'observed': bad[0][:1500], 'required': bad[1][:1500], 'finding': None})
    return {'cases': cases, 'distinct': len(seen), 'violations': viol, 'samples': samples, 'dist': dist}
