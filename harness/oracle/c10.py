"""C10 search oracle — the converter's internal placeholders never reach the output.

Property as evaluated: for an input that contains neither STX/ETX nor one of the placeholder stems, the output of
markdown.markdown(text, extensions=S, output_format=f) contains no STX (U+0002), no ETX (U+0003) and none of the stems
  klzzwxh (inline stash)  wzxhzdk (raw-HTML stash)  hzzhzkh (tag placeholder)
  zz1337820767766393qq (footnote back-link)  qq3936677670287331zz (footnote nbsp)
(read from markdown.util / markdown.extensions.footnotes at import; the ampersand substitute STX+"amp"+ETX is covered by
the STX/ETX scan — its stem "amp" is an English word).  The stems are scanned without their colon because two readers
re-spell a leaked placeholder: attr_list turns STX/ETX into `_`, toc's slugify drops the colon.

Domains: structured documents (core grammar + extension grammar, every stashed construct nested in every slot), soups,
mutated corpus fragments, line documents  x  random subsets of the 18 bundled extensions  x  {xhtml, html}.

Every search also evaluates ONE long document (`long_document()`, 10 020 paragraphs with a code span each, deterministic): more than
10 000 inline nodes are stashed in a single conversion, the stash ids outgrow four digits.

Known regions (narrow predicates: SHAPE of the leak in the output AND the syntactic trigger in the input; an output is
tagged only if EVERY leaked occurrence in it is explained):
  F-C10-1  a link whose text carries inline markup, inside another link's/image's destination, title or alt
           (one-level `unescape`): complete inline placeholder inside href/src/title/alt of <a>/<img>; input has a `[` nested
           in `[...]` or in `](...)`.
  F-C10-2  quote in an inline link destination that does not close as a title (getLink backtracking cuts the data inside a
           placeholder): a TRUNCATED placeholder at the end of an href/src value that contains a quote, plus the stray ETX
           after the element; input has `](` followed by a quote.
  F-C10-3  attr_list: entity or inline tag inside the braces: `_wzxhzdk:N_` as an attribute name; attr_list/extra enabled;
           input has `{...&...}` or `{...<...}`.
  F-C10-4  (proposed; the quantifier's "backslash-backtick adjacency") escaped backtick next to a code span inside emphasis/
           link text: STX digits ETX inside <code>; input contains backslash+backtick.
  F-C10-5  (proposed; the quantifier's "raw HTML") inline raw HTML (tag, comment, PI in running text) enclosing a link whose
           text carries inline markup (one-level `unescape` of HtmlInlineProcessor): complete inline placeholder in text;
           input has `[` inside `<...`, or -- when an inner tag is stashed first and the enclosing `<x</a>[*e*](u)>` becomes one match only
           then -- the root cause is observed directly: HtmlInlineProcessor.unescape returned text that still holds an inline placeholder.
  F-C10-6  abbr: an abbreviation whose key is a whole word of a placeholder is wrapped inside it: digits (stash index of `STX wzxhzdk:N ETX`,
           code point of an escape `STX N ETX`), `:`, `:N` (`STX wzxhzdk<abbr ...>:</abbr>N ETX`; raw HTML or a fence in the document), and the
           stem spellings `wzxhzdk`, `wzxhzdk:`, `wzxhzdk:N` (excluded by the property: the input spells the token).  Shape: a STX..ETX span that
           is a complete raw-HTML / escape placeholder once the `<abbr>` around a key DEFINED in the input is taken out; abbr/extra enabled;
           the definition `*[key]:` may sit anywhere (list item, quote, footnote body).
  F-C10-7  (proposed) after a stray `&#` (two-phase parse of html.parser, cf. F-C04-1/2) an end tag directly before a fenced block is
           re-spelt from the wrong offsets and swallows the head of the fence's placeholder: a proper suffix of it is left
           (`zxhzdk:N` ETX, `N` ETX, or the ETX alone); fenced_code/extra enabled; input has `&#` ... `</tag` ... line break, fence -- or, the
           root cause observed directly: a fence line in the input and a two-phase parse (gen/htmlstate.two_phase), whichever end tag is re-spelt.
  A leak inside the href of a wikilink (`<a class="wikilink" href=...>`) is never explained by a known region: the label class admits no
  placeholder character; `[[`, which the F-C10-1 trigger reads as a nested bracket, is the wikilink syntax itself.
  with toc enabled, copies of an F-C10-1/-5 leak of a heading in the toc div / heading id are knock-on effects of that leak.
REPORT_QUANTIFIER_EXCLUDED: F-C10-4/-5 are regions the property's quantifier excludes; when False they are only counted.

distinct / non-trivial: distinct (text, S, f) whose output contains an element other than `p` or an entity reference — the
outside-observable proxy for "something was stashed during this conversion" (inline stash, raw-HTML stash or escape)."""
import re

import markdown
from markdown import util as mdutil
from markdown.extensions import footnotes as mdfn
from gen import common as G
from gen import c10_docs as D

NEEDS_DRIVER = False
REPORT_QUANTIFIER_EXCLUDED = True
MULT = 3               # 0.4 ms-1 ms per conversion: three documents per unit of budget

STX, ETX = mdutil.STX, mdutil.ETX


def _stem(template):
    s = template.replace(STX, '').replace(ETX, '').replace('%s', '')
    return s.rstrip(':')


STEMS = sorted({_stem(mdutil.INLINE_PLACEHOLDER), _stem(mdutil.HTML_PLACEHOLDER), _stem(mdutil.TAG_PLACEHOLDER),
                _stem(mdfn.FN_BACKLINK_TEXT), _stem(mdfn.NBSP_PLACEHOLDER)})
LEAK = re.compile('[%s%s]|%s' % (STX, ETX, '|'.join(re.escape(s) for s in STEMS)))
INL = _stem(mdutil.INLINE_PLACEHOLDER); RAW = _stem(mdutil.HTML_PLACEHOLDER)

FINDINGS = [
    {'id': 'F-C10-1', 'property': 'C10', 'status': 'open',
     'what': 'a link with marked-up text inside another link/image destination, title or alt leaves its inner placeholder in the attribute (one-level unescape)',
     'witness': {'text': '[a]([`x`][foo])\n\n[foo]: /f', 'extensions': []}},
    {'id': 'F-C10-2', 'property': 'C10', 'status': 'open',
     'what': 'quote in an inline link destination that does not close as a title: href cut inside a placeholder, stray ETX',
     'witness': {'text': '[]("\\((', 'extensions': []}},
    {'id': 'F-C10-3', 'property': 'C10', 'status': 'open',
     'what': 'attr_list: entity/inline tag inside the braces makes the raw-HTML placeholder an attribute name (_wzxhzdk:0_)',
     'witness': {'text': '*x*{ &amp; }', 'extensions': ['attr_list']}},
    {'id': 'F-C10-4', 'property': 'C10', 'status': 'open',
     'what': '(region the quantifier excludes: backslash-backtick adjacency) escaped backtick next to a code span inside emphasis leaves STX 96 ETX in <code>',
     'witness': {'text': '***`\\``***', 'extensions': []}},
    {'id': 'F-C10-5', 'property': 'C10', 'status': 'open',
     'what': '(region the quantifier excludes: raw HTML) inline raw HTML enclosing a link with marked-up text leaves the inner placeholder in the output',
     'witness': {'text': 'a <!-- [*x*](u) --> b', 'extensions': []}},
    {'id': 'F-C10-6', 'property': 'C10', 'status': 'open',
     'what': 'abbr: a digits-only abbreviation is wrapped where it occurs inside a placeholder (code point of an escaped character, raw-HTML stash index); the placeholder is then never restored',
     'witness': {'text': 'a \\* b 42\n\n*[42]: the answer', 'extensions': ['abbr']}},
    {'id': 'F-C10-7', 'property': 'C10', 'status': 'open',
     'what': '(region the quantifier excludes: raw HTML) after a stray `&#` (html.parser two-phase parse, cf. F-C04-1/2) an unterminated end tag directly before a fenced block swallows the head of the fence placeholder: `zxhzdk:0` + ETX in the output, code block lost',
     'witness': {'text': 's\n&#;</s\n```\nx\n```\n>', 'extensions': ['fenced_code']}},
    {'id': 'F-C10-8', 'property': 'C10', 'status': 'open',
     'what': 'wikilinks: a blank label `[[ ]]` is replaced by an empty string that is stashed; when it is resolved two backtick runs join and a code span forms around an escape placeholder on the second visit (STX 42 ETX inside <code>)',
     'witness': {'text': '*_`[[ ]]`` \\* ```_*', 'extensions': ['wikilinks']}},
    {'id': 'F-C10-9', 'property': 'C10', 'status': 'open',
     'what': 'legacy_attrs: a backslash-escaped character inside the KEY of a `{@key=value}` definition leaves its placeholder STX n ETX in an attribute NAME of the output (UnescapeTreeprocessor restores texts, tails and attribute values, never names); kernel-checked on the model: Props/C16Legacy.lean C10_legacy_key_leak',
     'witness': {'text': 'para {@a\\_b=1} x', 'extensions': ['legacy_attrs']}},
]

# ------------------------------------------------------------------ classification of a leaking output
_NEST = re.compile(r'\[[^\]]*\[|\]\s?\([^)]*\[|\]\s?\((?s:.*?)["\'](?s:.*?)\[')      # a `[` nested in [..] or in ](..)
_QDEST = re.compile(r'\]\((?s:.*?)["\']')
_BRACE = re.compile(r'\{[^}]*[&<][^}]*\}|\{[^}]*[&<]')
_RAWBR = re.compile(r'<!--(?s:.*?)(?:\[|<[A-Za-z])|<\?(?s:.*?)(?:\[|<[A-Za-z])|<[/A-Za-z][^>]*(?:\[|<[A-Za-z])')    # a link or an autolink inside inline raw HTML
_BSESC = re.compile(r'\\.', re.S)
_ATTRNAME = re.compile(r'\s(?:[^\s=<>"%s%s]*?_?%s:[0-9]+)+_[^\s=<>"%s%s]*="' % (STX, ETX, RAW, STX, ETX))
_VALUE = re.compile(r'\s(href|src|title|alt)="([^"]*)"')
_VALUE_ANY = re.compile(r'\s([^\s=<>"]+)="([^"]*)"')
_CODE = re.compile(r'(<code[^>]*>)(.*?)</code>', re.S)
_ANYFULL = re.compile('%s[^%s%s]*%s' % (STX, STX, ETX, ETX))
_TRUNC2 = re.compile('%s[^%s%s"<>]*(?=")' % (STX, STX, ETX))
_AMPTAGFENCE = re.compile(r'&#(?s:.*?)</[A-Za-z][^\n]*\n[ ]*(?:```|~~~)')
_TAILPH = re.compile('([%s]?)((?:[wzxhdk]{0,7}:)?)([0-9]*)%s' % (STX, ETX))


_LEGACYKEY = re.compile(r'\{@[^}]*\\[^}]*=')        # a backslash between `{@` and a later `=` of the same brace group: an escape in the key


def _convert_keys_unescaped(text, exts, fmt):
    """the conversion with `LegacyAttrs.handleAttributes` unescaping the KEY before `el.set` (what a repair of F-C10-9 would do)"""
    from markdown.extensions import legacy_attrs as LA
    from markdown.treeprocessors import UnescapeTreeprocessor
    un = UnescapeTreeprocessor().unescape
    orig = LA.LegacyAttrs.handleAttributes

    def patched(self, el, txt):
        def cb(m):
            try: k = un(m.group(1))
            except (ValueError, OverflowError): k = m.group(1)
            el.set(k, m.group(2).replace('\n', ' '))
        return LA.ATTR_RE.sub(cb, txt)
    LA.LegacyAttrs.handleAttributes = patched
    try:
        return markdown.markdown(text, extensions=list(exts), output_format=fmt)
    except Exception:
        return None
    finally:
        LA.LegacyAttrs.handleAttributes = orig


def _drop_headless(work):
    """remove raw-HTML placeholders that lost their head: a proper suffix of `STX wzxhzdk:N ETX` -- how much the re-spelt end tag swallows
    depends on the stale offsets: part of the stem, the stem, or stem and index so that only the ETX is left"""
    def fix(m):
        if m.group(1) and m.group(2) == RAW + ':' and m.group(3):
            return m.group(0)                      # complete
        if m.group(1) and not m.group(2):
            return m.group(0)                      # an escape placeholder STX digits ETX: not this region
        if m.group(2) and not m.group(3):
            return m.group(0)                      # a stem without index: not a suffix of a placeholder
        if m.group(2) and not (RAW + ':').endswith(m.group(2)):
            return m.group(0)
        return ''
    return _TAILPH.sub(fix, work)


_WIKIHREF = re.compile(r'<a class="wikilink" href="([^"]*)"')
_BLANKWIKI = re.compile(r'\[\[ +\]\]')
# F-C10-6: the abbreviation keys that are a whole "word" (\b...\b) of a placeholder `STX wzxhzdk:N ETX` / `STX N ETX`: the index or code point
# (digits), `:`, `:N`, and -- only reachable when the input spells the stem, which the property excludes -- `wzxhzdk`, `wzxhzdk:`, `wzxhzdk:N`.
# The definition may sit inside a list item, quote, admonition, footnote body ...
_ABBRKEY = re.compile(r'[*]\[[ ]*([0-9]+|:[0-9]*|%s(?::[0-9]*)?)[ ]*\][ ]?:' % RAW)
_PHSPAN = re.compile('%s([^%s%s]*)%s' % (STX, STX, ETX, ETX))
_ABBREL = re.compile(r'<abbr title="[^"]*">([^<]*)</abbr>')
_RAWOREC = re.compile('(?:%s:)?[0-9]+' % RAW)


def _drop_abbr_in_placeholder(work, text):
    """remove every STX...ETX span that is a complete raw-HTML / escape placeholder once the `<abbr>` elements around keys DEFINED in the input
    (of the shapes above) are taken out again; a span without `<abbr>` or with anything else in it is left alone"""
    keys = set(_ABBRKEY.findall(text))

    def fix(m):
        inner = m.group(1)
        if '<abbr' not in inner: return m.group(0)
        plain = _ABBREL.sub(lambda a: a.group(1) if a.group(1) in keys else a.group(0), inner)
        return '' if _RAWOREC.fullmatch(plain) else m.group(0)
    return _PHSPAN.sub(fix, work)
_FULL_INL = re.compile('%s%s:[0-9]{4}%s' % (STX, INL, ETX))
_TRUNC = re.compile('%s[^%s"]*$' % (STX, ETX))
_ESC = re.compile('%s[0-9]+%s' % (STX, ETX))


def _strip_toc(out):
    """remove what toc derives from headings: the toc div and heading ids"""
    out = re.sub(r'<div class="toc">.*?</div>\n?', '', out, flags=re.S)
    out = re.sub(r'(<h[1-6][^>]*?) id="[^"]*"', r'\1', out)
    out = re.sub(r'<a class="(?:headerlink|toclink)"[^>]*>', '<a>', out)
    return out


def html_unescape_leaves_placeholder(text, exts, fmt='xhtml'):
    """The root cause of F-C10-5 observed directly (used when the syntactic trigger `_RAWBR` does not see it, e.g. `<x</a>[*e*](u)>`: the inner
    `</a>` is stashed first, then `<x ... >` is ONE inline-HTML match around the link): True iff during the conversion
    HtmlInlineProcessor.unescape -- the one-level expansion applied to the text of an inline raw-HTML match -- returned a string that still
    contains an inline placeholder."""
    from markdown.inlinepatterns import HtmlInlineProcessor
    hit = []
    try:
        md = markdown.Markdown(extensions=list(exts), output_format=fmt)
        for p in md.inlinePatterns:
            if isinstance(p, HtmlInlineProcessor):
                def wrapped(t, orig=p.unescape):
                    r = orig(t)
                    if mdutil.INLINE_PLACEHOLDER_RE.search(r): hit.append(1)
                    return r
                p.unescape = wrapped
        md.convert(text)
    except Exception:
        return False
    return bool(hit)


_FENCE_LINE = re.compile(r'^(?:`{3,}|~{3,})', re.M)


def two_phase_with_fence(text, exts, fmt='xhtml'):
    """The root cause of F-C10-7 observed directly (used when the syntactic trigger `_AMPTAGFENCE` does not see it: the end tag that is re-spelt
    need not stand next to the fence -- `&# ... <span>y</span> ...` paragraphs away from `<div>\n```\nx\n```\n</div>` copies `k:0` ETX into the
    paragraph): the document has a fence line, and html.parser's first pass stops early (gen/htmlstate.two_phase, evaluated with the
    preprocessors of THIS configuration, so the fence placeholders are already in the text the extractor scans)."""
    if not _FENCE_LINE.search(text): return False
    try:
        from gen import htmlstate
        return bool(htmlstate.two_phase(markdown.Markdown(extensions=list(exts), output_format=fmt), text))
    except Exception:
        return False


def classify(text, exts, out, fmt='xhtml'):
    """-> (finding id or None, shapes): None means at least one leaked occurrence is not explained by a known region.
    Works by elimination on the output string: each known region removes exactly the leak shapes it explains (and only if
    the input shows its syntactic trigger); whatever placeholder material is left afterwards is unexplained."""
    exts = set(exts)
    work = _strip_toc(out) if 'toc' in exts else out
    found = []; shapes = []

    def note(fid, shape):
        if fid not in found: found.append(fid)
        shapes.append(shape)

    # F-C10-9: legacy_attrs makes the text of a key an attribute NAME; escape placeholders in names are never restored.  Decided by ROOT CAUSE,
    # not by the shape of the output (a key may hold quotes, blanks, `=`, further `{@`): the conversion is repeated with the key unescaped
    # before `el.set`; the escape placeholders that disappear are this finding's, whatever is still there goes on to the other regions.
    legacy = 'legacy_attrs' in exts and '{@' in text
    if legacy and _LEGACYKEY.search(text):
        out2 = _convert_keys_unescaped(text, exts, fmt)
        if out2 is not None and len(_ESC.findall(out2)) < len(_ESC.findall(out)):
            note('F-C10-9', 'escape-in-attr-name')
            work = _strip_toc(out2) if 'toc' in exts else out2
    # The href of a wikilink (`<a class="wikilink" href="/label/">`, built from the label by the extension itself) is not a slot of any known
    # region: the label class (word characters, digits, `_`, space, `-`) admits no placeholder character, and `[[`, which the F-C10-1 trigger
    # reads as a nested bracket, is the wikilink syntax itself.  Placeholder material there is never explained.
    if 'wikilinks' in exts:
        for m in _WIKIHREF.finditer(work):
            if LEAK.search(m.group(1)):
                return None, ['unexplained:wikilink-href ' + repr(m.group(0)[:90])]
    # F-C10-3: attr_list re-spellings (STX/ETX -> `_`) of raw-HTML placeholders used as attribute NAMES: ` xx_wzxhzdk:0_yy="`
    if ({'attr_list', 'extra'} & exts) and _BRACE.search(text):
        w2 = _ATTRNAME.sub(' x="', work)
        if w2 != work:
            note('F-C10-3', 'attr-name'); work = w2
    # F-C10-6: abbr wraps a digits-only term where it occurs INSIDE a placeholder (code point of an escape, index of the raw-HTML stash)
    if ({'abbr', 'extra'} & exts) and _ABBRKEY.search(text):
        w2 = _drop_abbr_in_placeholder(work, text)
        if w2 != work:
            note('F-C10-6', 'abbr-in-placeholder'); work = w2
    # F-C10-7: after a stray `&#` an unterminated end tag right before a fenced block swallows the head of the fence's placeholder
    if ({'fenced_code', 'extra'} & exts) and (_AMPTAGFENCE.search(text) or two_phase_with_fence(text, exts, fmt)):
        w2 = _drop_headless(work)
        if w2 != work:
            note('F-C10-7', 'headless-raw-placeholder'); work = w2
    bare = _BSESC.sub('', text)        # backslash-escaped brackets are not brackets
    nest = bool(_NEST.search(bare)); qdest = bool(_QDEST.search(text))
    # F-C10-1 / F-C10-2: values of href/src/title/alt
    cuts = 0

    def fix_value(m):
        nonlocal cuts
        name, val = m.group(1), m.group(2)
        if not LEAK.search(val):
            return m.group(0)
        v = val
        t = _TRUNC.search(v)
        if t and qdest and (name in ('href', 'src') or nest):
            v = v[:t.start()]; cuts += 1; note('F-C10-2', 'truncated-in-' + name)
        if nest:
            v2 = _FULL_INL.sub('', v)
            if v2 != v:
                note('F-C10-1', 'full-in-' + name); v = v2
                if qdest and ETX in v and STX not in v:
                    # the cut of F-C10-2 happened inside the nested link; only its stray ETX is visible here
                    v = v.replace(ETX, ''); note('F-C10-2', 'stray-etx-in-' + name)
        return ' %s="%s"' % (name, v)

    # legacy_attrs reads `alt`: a definition inside an image alt moves text of the alt (with a placeholder F-C10-1 left there) into an attribute of any name
    work = (_VALUE_ANY if legacy else _VALUE).sub(fix_value, work)
    if qdest:
        # the same cut when the value also holds restored raw HTML with a `"` of its own (the value regex stops early):
        # a placeholder cut short and directly followed by the closing quote of the attribute
        w2, k = _TRUNC2.subn('', work)
        if k:
            cuts += k; note('F-C10-2', 'truncated-before-quote'); work = w2
    # the stray ETX each cut leaves behind (not the end of a complete placeholder)
    if cuts:
        complete = [m.span() for m in _ANYFULL.finditer(work)]
        outp = []; k = cuts
        for i, ch in enumerate(work):
            if ch == ETX and k and not any(a <= i < b for a, b in complete):
                k -= 1; shapes.append('stray-etx'); continue
            outp.append(ch)
        work = ''.join(outp)
    # F-C10-4: escape placeholders inside <code>
    if '\\`' in text:
        def fix_code(m):
            body = _ESC.sub('', m.group(2))
            if body != m.group(2): note('F-C10-4', 'escape-in-code')
            return m.group(1) + body + '</code>'
        work = _CODE.sub(fix_code, work)
    # F-C10-8: wikilinks turns a blank label into a stashed empty string; backtick runs join around an escape placeholder
    if ('wikilinks' in exts) and _BLANKWIKI.search(text) and '`' in text and '\\' in text:
        def fix_code8(m):
            body = _ESC.sub('', m.group(2))
            if body != m.group(2): note('F-C10-8', 'escape-in-code-after-blank-wikilink')
            return m.group(1) + body + '</code>'
        work = _CODE.sub(fix_code8, work)
    # F-C10-5: complete inline placeholders left by inline raw HTML that encloses a link
    if _RAWBR.search(text) or ('<' in text and _FULL_INL.search(work) and html_unescape_leaves_placeholder(text, exts, fmt)):
        w2 = _FULL_INL.sub('', work)
        if w2 != work:
            note('F-C10-5', 'full-in-raw-html'); work = w2
    m = LEAK.search(work)
    if m:
        return None, shapes + ['unexplained:' + repr(work[max(0, m.start() - 25):m.end() + 25])]
    if not found:
        return None, shapes + ['toc-copy-only']
    for fid in ('F-C10-1', 'F-C10-2', 'F-C10-3', 'F-C10-5', 'F-C10-4', 'F-C10-6', 'F-C10-7', 'F-C10-8', 'F-C10-9'):
        if fid in found:
            return fid, shapes
    return None, shapes


# ------------------------------------------------------------------ evaluation
def spells_placeholder(text):
    return bool(LEAK.search(text))


def evaluate(text, exts, fmt):
    """-> (status, out): ok | leak | skipped | exception"""
    if spells_placeholder(text):
        return 'skipped', None
    try:
        out = markdown.markdown(text, extensions=list(exts), output_format=fmt)
    except Exception as e:
        return 'exception', type(e).__name__
    return ('leak' if LEAK.search(out) else 'ok'), out


def long_document(k=10020):
    return '\n\n'.join('Entry %d is `v%d`.' % (i, i) for i in range(k))


def gen_case(rng):
    html = rng.random() < 0.45
    ext = rng.random() < 0.7
    kind, text = D.gen(rng, html, ext)
    if not html and kind in ('structured', 'soup'):
        text = text.replace('<', '')
    text = text.replace(STX, '').replace(ETX, '')
    if not ext:
        exts = []
    elif rng.random() < 0.5:
        exts = G.ext_subset(rng)
    else:
        exts = sorted(e for e in G.EXTENSIONS if rng.random() < rng.choice([0.2, 0.5, 0.8]))
    if rng.random() < 0.06 and not _NEST.search(_BSESC.sub('', text)) and not _QDEST.search(text):
        # (not inside the regions of F-C10-1/2: legacy_attrs reads `alt` and would move a placeholder left there into an attribute name)
        # `{@key=value}` definitions of legacy_attrs (keys over name characters and escapes; values over words, escapes, markup)
        for _ in range(rng.choice([1, 1, 2])):
            i = rng.randint(0, len(text))
            key = ''.join(rng.choice(['id', 'class', 'k', 'a', '-', '_', ':', '1', '\\_', '\\*', 'x']) for _ in range(rng.randint(1, 3)))
            val = ''.join(rng.choice(['v', 'w', ' ', '\\_', '*e*', '`c`', '&amp;', '&', '1', '"', "'", '\n', 'x y']) for _ in range(rng.randint(0, 3)))
            text = text[:i] + '{@' + key + '=' + val + '}' + text[i:]
        exts = sorted(set(exts) | {'legacy_attrs'})
        kind = kind + '+legacy'
    fmt = rng.choice(['xhtml', 'xhtml', 'html'])
    return kind, text, exts, fmt


def search(driver, rng, n):
    viol = []; seen = set(); samples = []
    dist = {'kinds': {}, 'exceptions': {}, 'skipped_spells_placeholder': 0, 'known': {}, 'excluded_region_hits': {}, 'with_html': 0, 'with_ext': 0,
            'ext_count': {}, 'formats': {'xhtml': 0, 'html': 0}, 'len_max': 0, 'out_a': 0, 'out_img': 0, 'out_code': 0, 'out_entity': 0, 'out_footnote': 0,
            'out_raw_tag': 0}
    cases = 0
    for i in range(-1, MULT * n):
        # i == -1: ONE long document (deterministic, not from rng): more than 10 000 stashed inline nodes in one conversion (the stash ids outgrow 4 digits)
        kind, text, exts, fmt = ('long-document', long_document(), [], 'xhtml') if i < 0 else gen_case(rng)
        status, out = evaluate(text, exts, fmt)
        if status == 'skipped':
            dist['skipped_spells_placeholder'] += 1; continue
        cases += 1
        dist['kinds'][kind] = dist['kinds'].get(kind, 0) + 1
        if status == 'exception':
            dist['exceptions'][out] = dist['exceptions'].get(out, 0) + 1; continue
        dist['formats'][fmt] += 1
        dist['ext_count'][len(exts)] = dist['ext_count'].get(len(exts), 0) + 1
        dist['len_max'] = max(dist['len_max'], len(text))
        if '<' in text: dist['with_html'] += 1
        if exts: dist['with_ext'] += 1
        if '<a ' in out: dist['out_a'] += 1
        if '<img ' in out: dist['out_img'] += 1
        if '<code' in out: dist['out_code'] += 1
        if '&' in out: dist['out_entity'] += 1
        if 'class="footnote' in out: dist['out_footnote'] += 1
        if re.search(r'<(?!/?(?:p|h[1-6]|ul|ol|li|blockquote|pre|code|hr|br|em|strong|a|img)\b)', out): dist['out_raw_tag'] += 1
        if '&' in out or re.search(r'<(?!/?p>)', out):
            seen.add((text, tuple(exts), fmt))
        if status == 'leak':
            fid, shapes = classify(text, exts, out, fmt)
            if fid in ('F-C10-4', 'F-C10-5') and not REPORT_QUANTIFIER_EXCLUDED:
                dist['excluded_region_hits'][fid] = dist['excluded_region_hits'].get(fid, 0) + 1
                continue
            if fid: dist['known'][fid] = dist['known'].get(fid, 0) + 1
            m = LEAK.search(out)
            viol.append({'input': text if kind != 'long-document' else 'long_document()', 'config': {'extensions': exts, 'output_format': fmt, 'kind': kind, 'shapes': shapes[:6]},
                         'observed': 'placeholder material %r in the output: …%s…' % (m.group(0), out[max(0, m.start() - 60):m.end() + 40]),
                         'required': 'no STX, ETX or placeholder stem (%s) in the output' % ', '.join(STEMS), 'finding': fid})
        if len(samples) < 5 and i >= 0 and i % max(1, MULT * n // 5) == 0:
            samples.append({'kind': kind, 'input': text[:300], 'extensions': exts, 'output_format': fmt, 'output': out[:300]})
    viol.sort(key=lambda v: (v['finding'] is not None, len(v['input'])))
    kept = []; per = {}
    for v in viol:
        per[v['finding']] = per.get(v['finding'], 0) + 1
        if v['finding'] is None or per[v['finding']] <= 3: kept.append(v)
    dist['ext_count'] = {str(k): v for k, v in sorted(dist['ext_count'].items())}
    return {'cases': cases, 'distinct': len(seen), 'violations': kept[:40], 'samples': samples, 'dist': dist}


def replay(witness):
    if witness['text'] == 'long_document()': witness = dict(witness, text=long_document())
    status, out = evaluate(witness['text'], witness.get('extensions', []), witness.get('output_format', 'xhtml'))
    return status == 'leak'


def replay_violation(v):
    c = v.get('config', {})
    return replay({'text': v['input'], 'extensions': c.get('extensions', []), 'output_format': c.get('output_format', 'xhtml')})
