r"""C03 search oracle -- code is literal.

A hostile BODY (gen/hostile.py) is placed as
  (a) an indented code block: top level (document start / after paragraph, heading, rule, raw HTML block / after a list
      with a separating non-list block -- directly after a list a 4-space block is a list-item continuation, not code),
      inside list items (8 spaces, also after a continuation paragraph, ordered/unordered, nested), inside block quotes
      (`>     code`, lazy `    code` lines, `>` or truly blank separator lines), and compositions of these to depth 3;
      directly under a horizontal rule without a blank line (`***\n    code`; top level, in quotes and items); directly under a `#` heading
      that starts a tight list item (`- # h\n        code`); directly under the last line of a raw HTML block (no blank line);
  (b) a fenced block (extension fenced_code; ``` / ~~~, length 3..5, with / without language), top level; the body may contain a line
      made only of fence characters that is LONGER than the fence (it does not close the block);
  (c) a backtick span (1..4 ticks, a length for which the body has no tick run of exactly that length; padded with a
      space when the body starts/ends with a tick; body not blank) inside paragraph text, ATX / Setext headings, emphasis /
      strong, link text, list items, block quotes; neighbours in the same block are tick-free markup that does not end in
      a backslash; multi-line bodies (newlines kept) whose continuation lines start with a letter (a continuation line that
      starts with block syntax -- `#`, `>`, `---`, `===`, `[x]: y`, `<div>`, `<!--` -- is cut off by the BLOCK parser /
      raw-HTML extractor before any span exists: block structure has precedence; this is not "text placed in a span").
The surrounding document (gen/docs.py blocks, with code of its own, optionally inline HTML/entities, a closed raw HTML block)
is varied; each case runs with or without fenced_code.  With fenced_code on, a quarter of the documents end with a REAL backtick-fenced block
at the left margin, and then a line of our code (block or multi-line span) often ends in a backtick run (a fence opens at a line start only).

How it is evaluated: the document is converted twice, with the hostile body and with the placebo body `QZQZ`.  The
placebo run tells which `<code>` element is ours (exactly one element must have the text `QZQZ`; otherwise the
placement is not a code position and the case is counted as a skip).  Required: the list of un-escaped texts of all
`<code>` elements of the hostile run equals that of the placebo run with `QZQZ` replaced by LAW(body).  (So the body
also must not disturb any other code element.)  Un-escaping = `&amp; &lt; &gt; &quot;` in ONE pass (fenced_code
escapes `"`, the core does not).

LAW, found on the unchanged tree (exact; a result that deviates from it only WITHIN the trimming the statement permits -- see
`allowed` -- is counted as `law-drift`, not reported):
  span :  body.strip()                         (both ends, newlines inside kept, trailing spaces of inner lines kept)
  block:  lines consisting of spaces only -> empty (input normalisation);  a line whose successor is empty, and the last
          line, is right-trimmed (= each run of lines -- blocks are split at blank lines -- is right-trimmed; inner lines
          of a run keep their trailing spaces);  the whole text is right-trimmed;  one "\n" is appended.  The number of blank
          lines between runs is kept at top level and in quotes written with `>` lines.
  fenced: lines consisting of spaces only -> empty;  nothing else;  "\n" appended.
Bodies do not start with a blank line (such lines would be separators, not code), contain no tab / CR / STX / ETX
(normalisation, C09) and, fenced, no line that is the closing fence.

Known regions (tagged, and not generated on purpose):
  F-C03-1  numeric character reference without `;` in code gains a `;`          (known)
  F-C03-2  NEW: `</>` inside code (span or block; not fenced) is deleted: '`a</>b`' -> <code>ab</code>
           (stdlib parse_endtag drops `</>`, the extractor never sees it).  Region: body contains `</>`.
  F-C03-5  NEW (same root cause as F-C04-2 / F-C09-2, see gen/htmlstate.py): html.parser's first pass stops at an incomplete
           construct (`<a b="` without closing quote, `<!--` without `-->`, `</x` without `>` ...) that is not at the very start
           of the document; the second pass (`close()`) reads line offsets against the truncated buffer, so later END TAGS are
           re-spelt from unrelated text and raw blocks are detected at wrong places -- also inside code:
           '\n    <a f="\n    ></c>\n    bklzz>'.  Region: htmlstate.two_phase(doc).
  F-C03-4  NEW: a comment close written `-- >` (white space before `>`) after a `<!--` is re-spelt `-->`, also inside code:
           '`<!-- a -- >`' -> <code>&lt;!-- a --&gt;</code> (stdlib `commentclose = --\s*>`, `handle_comment` re-spells).
  F-C03-3  NEW: two or more consecutive blank lines inside an indented code block that sits in a LIST ITEM (or between
           the `>` blocks of a quote when the separators are truly blank lines) collapse to one:
           '- a\n\n        x\n\n\n        y' -> 'x\n\ny'.  (The filler of the empty-block processor is only added when the
           *top-level* last child is the `pre`.)  Region: list-item placement and body has >= 2 consecutive blank lines.
  F-C03-6  NEW: inside a block quote a code line that consists only of white space and contains a Unicode white-space character other than
           the space (NBSP, FF, VT, EM SPACE, U+2028 ...) is emptied: '>     a\n>     \xa0\n>     b' -> 'a\n\nb' (BlockQuoteProcessor.clean
           tests `line.strip() == ">"`; at top level and in list items the line is kept).  Region: see `explained_by_quote_ws_line`.
  F-C03-7  NEW (not generated: raw blocks with omitted end tags are placed BEFORE our code only): an unterminated tag inside code (`<div`
           with no `>` before the end of the code) reaches over to the `>` of the start tag of a following raw block; if that block leaves an
           inner element open (`<div>\n<p>t\n</div>`), the `<p>` opens a raw block that never ends and all later code is emitted as raw
           text: '    x <div\n\n<div>\n<p>t\n</div>\n\n`c`'.

Unicode line boundaries and white space: a fifth of the bodies (gen/hostile.exotic) contain VT, FF, FS, GS, RS, NEL, U+2028, U+2029 (line ends for
`str.splitlines()`, ordinary characters for the converter, which splits at "\n" only) or NBSP / EM SPACE / IDEOGRAPHIC SPACE, mostly between two
non-white characters of a line, sometimes at a line start / end or as a whole line.  They are white space for the trimming (`str.strip`).
"""
import re
import markdown
from gen import docs2 as docs, hostile, htmlstate

NEEDS_DRIVER = False

FINDINGS = [
    {'id': 'F-C03-1', 'property': 'C03', 'status': 'open', 'what': 'numeric character reference without ; inside code gains a ;',
     'witness': {'kind': 'span', 'doc': '`&#12 z`', 'body': '&#12 z', 'extensions': []}},
    {'id': 'F-C03-1', 'property': 'C03', 'status': 'open', 'what': 'numeric character reference without ; inside an indented code block gains a ;',
     'witness': {'kind': 'block', 'doc': '    &#12 z', 'body': '&#12 z', 'extensions': []}},
    {'id': 'F-C03-2', 'property': 'C03', 'status': 'open', 'what': '`</>` inside a code span / indented code block is deleted',
     'witness': {'kind': 'span', 'doc': '`a</>b`', 'body': 'a</>b', 'extensions': []}},
    {'id': 'F-C03-4', 'property': 'C03', 'status': 'open', 'what': 'comment close `-- >` inside code is re-spelt `-->`',
     'witness': {'kind': 'span', 'doc': '`<!-- a -- >`', 'body': '<!-- a -- >', 'extensions': []}},
    {'id': 'F-C03-5', 'property': 'C03', 'status': 'open', 'what': 'after an incomplete HTML construct (two-phase parse) later end tags inside code are re-spelt from unrelated text',
     'witness': {'kind': 'block', 'doc': '\n    <a f="\n    ></c>\n    bklzz>', 'body': '<a f="\n></c>\nbklzz>', 'extensions': []}},
    {'id': 'F-C03-3', 'property': 'C03', 'status': 'open', 'what': '>= 2 consecutive blank lines inside a code block in a list item collapse to one',
     'witness': {'kind': 'block', 'doc': '- a\n\n        x\n\n\n        y', 'body': 'x\n\n\ny', 'extensions': []}},
    {'id': 'F-C03-6', 'property': 'C03', 'status': 'open', 'what': 'a code line inside a block quote that consists only of Unicode white space other than the space (NBSP, FF, EM SPACE ...) is emptied (`line.strip() == ">"`)',
     'witness': {'kind': 'block', 'doc': '>     a\n>     \xa0\n>     b', 'body': 'a\n\xa0\nb', 'extensions': []}},
    {'id': 'F-C03-7', 'property': 'C03', 'status': 'open', 'what': 'an unterminated tag inside code (`<div` with no `>` before the code ends) reaches over to the `>` of a following raw block\'s start tag; the block\'s unclosed inner element (`<p>` without `</p>`) then opens a raw block that never ends: later code is emitted as raw text',
     'witness': {'kind': 'span', 'doc': '    x <div\n\n<div>\n<p>t\n</div>\n\n`c`', 'body': 'c', 'extensions': []}},
]

PLACEBO = 'QZQZ'
EXOTIC_P = 0.2        # share of bodies that get VT / FF / FS / GS / RS / NEL / U+2028 / U+2029 / NBSP / EM SPACE (gen/hostile.exotic)
_CODE_RE = re.compile(r'<code[^>]*>(.*?)</code>', re.S)
_UNESC = {'amp': '&', 'lt': '<', 'gt': '>', 'quot': '"'}
_UNESC_RE = re.compile(r'&(amp|lt|gt|quot);')
_CHARREF_NOSEMI = re.compile(r'&#(?:[0-9]+|[xX][0-9a-fA-F]+)(?!;)')
# a `<!--` whose FIRST close candidate `--\s*>` (searched from 4 characters on, like the stdlib) contains white space -- possibly a
# line break followed by the `>` of a quote marker
_LOOSE_COMMENT = re.compile(r'<!--(?:(?!--\s*>).)*?--\s+>', re.S)
RAW_BLOCKS = ['<div>\n*x*\n</div>', '<!-- c -->', '<p>raw *p*</p>', '<hr>', '<table>\n<tr><td>[t](u)</td></tr>\n</table>',
              '<div class="a">\n\n# h\n\n</div>', '<?php x ?>']
# legal HTML that omits optional end tags / is not perfectly nested: the block still ends at its own end tag (the stack of open tags is
# unwound down to the matching tag); void elements inside.  Placed BEFORE our code only: after it, an unterminated tag in the hostile body
# (`<div` with no `>` before the end of the code) reaches over to the next `>` -- the `>` of the block's start tag -- and the block's inner
# unclosed elements then open a raw block that never ends (F-C03-7, registered with a witness, not generated).
RAW_BLOCKS_OPEN = ['<ul>\n<li>one\n<li>two\n</ul>', '<div>\n<p>intro\n</div>', '<table>\n<tr><td>a<td>b\n<tr><td>c<td>d\n</table>',
                   '<dl>\n<dt>t<dd>*d*\n</dl>', '<div><p>a<b>b</div>', '<div>\n<img src="a.png"><br>\n<input name="q">\n</div>',
                   '<ol>\n<li><p>x<br>\n\n<li>y</ol>', '<div><span><em>u</span></em></div>']


def unescape(s):
    return _UNESC_RE.sub(lambda m: _UNESC[m.group(1)], s)


def codes(out):
    return [unescape(t) for t in _CODE_RE.findall(out)]


# ---------------------------------------------------------------- the law
def _empty_ws(lines):
    return [l if l.strip(' ') else '' for l in lines]


def law_span(body):
    return body.strip()


def law_block(body):
    # runs = maximal groups of non-empty lines (after input normalisation); each run is right-trimmed AS A STRING (`str.rstrip`): with
    # Unicode white space (VT, FF, NEL, U+2028, NBSP ... -- not emptied by input normalisation, but white space for `rstrip`) a run can
    # lose whole trailing lines; the blank lines between runs are kept
    ls = _empty_ws(body.split('\n'))
    out, run = [], []
    for l in ls + ['']:
        if l == '':
            if run: out.append('\n'.join(run).rstrip()); run = []
            out.append(None)
        else:
            run.append(l)
    out.pop()                                   # the sentinel
    # join: every element (run text or blank line) is followed by a line break, except that a blank line IS only a line break
    text = ''
    for i, x in enumerate(out):
        text += ('' if x is None else x) + ('\n' if i < len(out) - 1 else '')
    return text.rstrip() + '\n'


def law_fenced(body):
    return '\n'.join(_empty_ws(body.split('\n'))) + '\n'


LAW = {'span': law_span, 'block': law_block, 'fenced': law_fenced}


def allowed(kind, body, obs):
    """What the STATEMENT allows (it permits the trimming, it does not prescribe it): a text that differs from the exact law above only
    in how much of the permitted trailing white space was removed is not a violation; it is counted as `law-drift` in dist (0 on the
    unchanged tree).  span: body.strip() <= obs <= body (as contiguous substrings).  block / fenced: equal after right-trimming every
    line and dropping trailing blank lines (lines of spaces are empty by input normalisation)."""
    if kind == 'span':
        return obs.strip() == body.strip() and obs in body
    t = lambda x: '\n'.join(l.rstrip() for l in x.split('\n')).rstrip()
    return t(obs) == t(body) or (kind == 'block' and t(obs) == t(law_block(body)))


# ---------------------------------------------------------------- bodies
def _body_lines(rng, n, lead=True):
    ls = []
    for i in range(n):
        l = hostile.line(rng)
        if lead and rng.random() < 0.3: l = ' ' * rng.randint(1, 5) + l
        if rng.random() < 0.3: l = l + ' ' * rng.randint(1, 3)
        ls.append(l)
    return ls


def block_body(rng):
    """lines; blank / whitespace-only lines between; never starts blank; may end with blank lines (trimmed by the law)"""
    n = rng.choice([1, 1, 2, 2, 3, 4, 5])
    ls = []
    for i, l in enumerate(_body_lines(rng, n)):
        if i and rng.random() < 0.35:
            for _ in range(rng.choice([1, 1, 1, 2, 3])):
                ls.append(rng.choice(['', '', ' ', '     ']))
        ls.append(l)
    if not ls[0].strip(' '): ls[0] = 'a' + ls[0]
    if rng.random() < 0.15: ls += rng.choice([[''], ['  '], ['', '']])
    b = hostile.clean('\n'.join(ls))
    if rng.random() < EXOTIC_P: b = hostile.exotic(rng, b)
    return b


def span_body(rng):
    n = rng.choice([1, 1, 1, 1, 2, 2, 3])
    ls = _body_lines(rng, n, lead=False)
    for i in range(1, n):
        ls[i] = rng.choice('abxyz') + rng.choice(['', ' ']) + ls[i]     # continuation lines start with a letter (docstring)
    b = hostile.clean('\n'.join(ls))
    if rng.random() < EXOTIC_P: b = hostile.exotic(rng, b)
    if rng.random() < 0.15: b = rng.choice([' ', '  ']) + b
    if rng.random() < 0.15: b = b + rng.choice([' ', '  '])
    return b


def tick_fence(rng, body):
    runs = set(len(m) for m in re.findall(r'`+', body))
    free = [n for n in (1, 2, 3, 4) if n not in runs]
    if not free: return None
    n = free[0] if rng.random() < 0.7 else rng.choice(free)
    return '`' * n


# ---------------------------------------------------------------- placements
NEIGH = ['foo', 'bar', 'a b', '*', '_', '**', '*e*', '_u_', '**s**', '[', ']', '(u)', '[l](/u)', '![i](/s)', '\\*', '\\\\', '\\_', '!', '.', ':',
         '"', "'", '#', '-', '>', '1.', 'é']
NEIGH_HTML = ['<b>', '</b>', '<span class="x">', '&amp;', '&copy;', '&#169;', '<br/>', '& ', '< ']     # a bare `<` glued to a word would open a TAG around the span


def neigh(rng, html, lo=0, hi=3):
    toks = [rng.choice(NEIGH + (NEIGH_HTML if html else [])) for _ in range(rng.randint(lo, hi))]
    s = ' '.join(toks) if rng.random() < 0.7 else ''.join(toks)
    while s.endswith('\\') and not s.endswith('\\\\'): s = s[:-1]
    if s.endswith('\\'):                         # even run of backslashes is fine only if really even
        k = len(s) - len(s.rstrip('\\'))
        if k % 2: s = s[:-1]
    return s


def span_in_text(rng, body, fence, html, fenced_on):
    """returns a function body -> inline text (so that the placebo gets the identical frame)"""
    pre, post = neigh(rng, html), neigh(rng, html)
    if pre and rng.random() < 0.8: pre += ' '
    if post and rng.random() < 0.8: post = ' ' + post
    if post.startswith('`'): post = ' ' + post
    wrap = rng.choice(['none'] * 4 + ['em*', 'em_', 'strong*', 'strong_', 'link', 'link_t', 'em_link'])
    if wrap in ('link', 'link_t', 'em_link'): pre = pre.rstrip('!')      # `![..](..)` is an image: its alt text is not link text
    if fenced_on and len(fence) >= 3 and not pre: pre = 'w '
    if ']:' in body and re.sub(r'^(?:\s*(?:[-+*>#]+|\d+\.))*\s*', '', pre + ('[' if wrap in ('link', 'link_t') else 'x')).startswith('['):
        pre = 'w ' + pre                           # a line `[...]: ...` is a reference DEFINITION (block level), not a paragraph with a span
        #                                            (also behind list / quote / heading markers of the neighbour text: `- [ ``x]: y`` (u)`)
    if '\n' in body: pre = pre.replace('#', '')   # an ATX heading (also inside `> 1. # x`) takes one line only: it would cut a multi-line span

    def frame(b):
        pad = ' ' if (b.startswith('`') or b.endswith('`')) else padr
        core = fence + pad + b + pad + fence
        if wrap == 'none': return pre + core + post
        if wrap == 'em*': return pre + '*' + 'e ' + core + ' f*' + post
        if wrap == 'em_': return pre + '_' + core + '_' + post
        if wrap == 'strong*': return pre + '**' + core + ' s**' + post
        if wrap == 'strong_': return pre + '__s ' + core + '__' + post
        if wrap == 'link': return pre + '[' + core + '](/u)' + post
        if wrap == 'link_t': return pre + '[t ' + core + ' t](/u "ti")' + post
        return pre + '*[' + core + '](u)*' + post
    padr = ' ' if rng.random() < 0.15 else ''
    return frame, wrap


def place_span(rng, body, fence, html, fenced_on):
    """-> (block text maker, label).  The maker maps a body to the source of ONE top-level block containing the span."""
    frame, wrap = span_in_text(rng, body, fence, html, fenced_on)
    multi = '\n' in body
    ctxs = ['para', 'para', 'para2', 'li', 'li_loose', 'li_para', 'quote', 'li_nested', 'quote_li']
    if not multi: ctxs += ['atx', 'atx', 'setext']
    ctx = rng.choice(ctxs)
    lvl = rng.randint(1, 6); close = rng.choice(['', ' #', ' ##'])
    marker = rng.choice(['- ', '* ', '+ ', '1. ', '12. ', '-   '])
    lazy = rng.random() < 0.5
    under = rng.choice(['===', '-', '------'])
    qm = rng.choice(['> ', '>', ' > '])

    def cont(text, pad):
        # continuation lines of the item's own text are always lazy: in `- a\n    b` the four spaces stay in the item text
        # (only blocks AFTER the first are detabbed), so an indented continuation would put the spaces into the span
        return text

    def cont_para(text):          # continuation paragraph of a loose item: every line that has the 4 spaces loses them
        ls = text.split('\n')
        return '\n'.join(['    ' + ls[0]] + [(l if lazy else '    ' + l) for l in ls[1:]])

    def make(b):
        t = frame(b)
        if ctx == 'para': return t
        if ctx == 'para2': return 'first line\n' + t + '\nlast line'
        if ctx == 'atx': return '#' * lvl + ' ' + t + close
        if ctx == 'setext': return t + '\n' + under
        if ctx == 'li': return 'i0\n\n' + marker + 'one\n' + marker + cont(t, '    ') + '\n' + marker + 'three'
        if ctx == 'li_loose': return marker + 'one\n\n' + marker + cont(t, '    ') + '\n\n    more'
        if ctx == 'li_para': return marker + 'one\n\n' + cont_para(t) + '\n\n' + marker + 'two'
        if ctx == 'li_nested': return marker + 'one\n    ' + marker + cont(t, '        ')
        if ctx == 'quote': return '\n'.join((l if (lazy and i) else qm + l) for i, l in enumerate(t.split('\n')))
        if ctx == 'quote_li': return '\n'.join((qm if i == 0 else '> ') + l for i, l in enumerate((marker + cont(t, '    ')).split('\n')))
    return make, 'span/' + ctx + '/' + wrap


def wrap_quote(rng, text, truly_blank_ok=True, innermost=False):
    out = []
    ls = text.split('\n')
    blank = [l.strip(' ') == '' for l in ls]
    for i, l in enumerate(ls):
        if l == '':
            single = (i > 0 and not blank[i - 1]) and (i + 1 < len(ls) and not blank[i + 1])
            out.append('' if (truly_blank_ok and single and rng.random() < 0.25) else '>')
        elif innermost and i and not blank[i] and l.startswith('    ') and not blank[i - 1] and l.strip() != '>' and rng.random() < 0.15:
            out.append(l)                                   # lazy code line (keeps its own 4 spaces); a lazy `    >` line is
            #                                                 an empty quote line for BlockQuoteProcessor.clean, hence excluded
        else:
            out.append(rng.choice(['> ', '> ', '> ', '>' if not l.startswith(' ') else '> ']) + l)
    return '\n'.join(out)


def wrap_item(rng, text):
    marker = rng.choice(['- ', '* ', '+ ', '1. ', '7. '])
    lead = rng.choice(['item', 'item *e*', 'it\n    lazy2'])
    mid = rng.choice(['', '', '\n\n    para in item'])
    pre_items = rng.choice(['', '', marker + 'zero\n\n'])
    return pre_items + marker + lead + mid + '\n\n' + docs.indent(text, 4)


def wrap_head_item(rng, text):
    """a TIGHT list item whose text starts with a `#` heading, the code (8 columns) on the line(s) directly below it: the lines after
    the heading are re-queued by HashHeaderProcessor inside the item (state `list`) and detabbed ONCE by ListIndentProcessor"""
    marker = rng.choice(['- ', '* ', '+ ', '1. ', '7. '])
    head = rng.choice(['# Usage', '## Step ##', '###### h', '# *e* h', '#x'])
    pre_items = rng.choice(['', '', marker + 'zero\n'])
    return pre_items + marker + head + '\n' + docs.indent(text, 4)


def place_block(rng):
    """-> (maker body->block source, label, in_list)"""
    chain = rng.choice([[], [], [], ['q'], ['q'], ['i'], ['i'], ['i', 'i'], ['q', 'q'], ['q', 'i'], ['i', 'q'], ['q', 'i', 'q'], ['i', 'q', 'i'],
                        ['h'], ['h', 'q'], ['h', 'i']])
    seeds = [rng.getrandbits(32) for _ in chain]
    import random as _r
    list_exposed = False
    for w in chain:                      # innermost first: a list wrapper before any quote wrapper sees the blank lines
        if w == 'q': break
        if w in 'ih': list_exposed = True; break
    # the code directly under a horizontal rule, no blank line between (HRProcessor re-queues the lines after the rule): at top
    # level, inside quotes and list items
    rule_led = 'h' not in chain and rng.random() < 0.12
    R = docs.rule(rng)

    def make(b):
        t = docs.indent(b, 4)
        if rule_led: t = R + '\n' + t
        for k, (w, s) in enumerate(zip(chain, seeds)):
            r = _r.Random(s)
            t = (wrap_quote(r, t, truly_blank_ok=True, innermost=(k == 0 and not rule_led)) if w == 'q' else wrap_head_item(r, t) if w == 'h'
                 else wrap_item(r, t))
        return t
    return make, 'block/' + (''.join(chain) or 'top') + ('/under-rule' if rule_led else ''), list_exposed, chain


def place_fenced(rng, body):
    ch = rng.choice('`~')
    fence = ch * rng.choice([3, 3, 3, 4, 5])
    lang = rng.choice(['', '', 'py', '.js', 'c++', ' py', 'py ', '{: .x #y }', '{.lang}'])
    closing = fence + rng.choice(['', '', ' ', '  '])

    def make(b):
        return fence + lang + '\n' + b + '\n' + closing
    return make, 'fenced/' + ('lang' if lang else 'nolang') + '/' + ch, fence


def closes_fence(body, fence):
    return any(re.fullmatch(re.escape(fence) + ' *', l) for l in body.split('\n'))


# ---------------------------------------------------------------- case assembly
def surroundings(rng, html):
    opt = docs.Opt(code=True, html=html)
    before = docs.blocks(rng, rng.choice([0, 0, 1, 1, 2, 3]), opt)
    after = docs.blocks(rng, rng.choice([0, 0, 1, 1, 2]), opt)
    if rng.random() < 0.2: before.insert(rng.randint(0, len(before)), ('raw', rng.choice(RAW_BLOCKS + RAW_BLOCKS_OPEN)))
    if rng.random() < 0.15: after.insert(rng.randint(0, len(after)), ('raw', rng.choice(RAW_BLOCKS)))
    return before, after


def gen_case(rng):
    kind = rng.choice(['block', 'block', 'span', 'span', 'span', 'fenced'])
    fenced_on = kind == 'fenced' or rng.random() < 0.35
    html = rng.random() < 0.4
    before, after = surroundings(rng, html)
    in_list = False
    # with fenced_code: a REAL backtick-fenced block at the left margin later in the document (its opening line must not pair with a
    # backtick run that stands in the middle of an earlier line, e.g. inside our code)
    real_fence = fenced_on and rng.random() < 0.25
    tick_tail = real_fence and kind != 'fenced' and rng.random() < 0.6
    if kind == 'span':
        body = span_body(rng)
        if tick_tail and '\n' in body:          # a line of the span that ENDS in a tick run (not the last line: the span's own fence follows it)
            ls = body.split('\n'); i = rng.randrange(len(ls) - 1)
            ls[i] = ls[i].rstrip(' `') + rng.choice([' ```', '```', ' ````', ' ```py'])
            body = '\n'.join(ls)
        if not body.strip(): body = 'a' + body
        fence = tick_fence(rng, body)
        if fence is None: return None
        make, label = place_span(rng, body, fence, html, fenced_on)
    elif kind == 'block':
        body = block_body(rng)
        if tick_tail:
            ls = body.split('\n'); i = rng.randrange(len(ls))
            if ls[i].strip(' '): ls[i] = ls[i].rstrip(' ') + rng.choice([' ```', '```', ' ````', ' ```py', ' ``` '])
            body = '\n'.join(ls)
        make, label, list_exposed, chain = place_block(rng)
        in_list = list_exposed
        if list_exposed:                   # F-C03-3: not generated on purpose
            body = re.sub(r'\n( *\n){2,}', '\n\n', body)
        if not chain:
            # top level: the previous block must not be a list (absorbs a 4-space block) nor code (merges); next not code
            if before and before[-1][0] in ('ulist', 'olist', 'code'):
                before.append((rng.choice(['para', 'rule', 'atx', 'raw']), rng.choice(['sep', '---', '# sep', '<!-- sep -->'])))
                label += '/after-list' if before[-2][0] != 'code' else '/after-code'
            elif before: label += '/after-' + before[-1][0]
            else: label += '/first'
        else:
            if before and before[-1][0] in ('ulist', 'olist', 'quote', 'code'):
                before.append(('para', 'sep'))
        if after and after[0][0] in ('code', 'quote', 'ulist', 'olist'):
            after.insert(0, ('para', 'sep2'))
    else:
        body = block_body(rng)
        make, label, fence = place_fenced(rng, body)
        if rng.random() < 0.12:                 # a code line made only of fence characters, LONGER than the fence: it does not close the block
            ls = body.split('\n')
            ls.insert(rng.randint(0, len(ls)), fence[0] * (len(fence) + rng.randint(1, 3)) + rng.choice(['', '', ' ']))
            body = '\n'.join(ls); label += '/longer-fence-line'
        if closes_fence(body, fence): return None
    # with fenced_code on, no stray fence line may open earlier / later in the surroundings
    if fenced_on:
        if any(re.search(r'^(~{3,}|`{3,})', t, re.M) for _, t in before + after): return None
        if kind != 'fenced' and re.search(r'^(~{3,}|`{3,})', make(body), re.M): return None
    glue = '\n\n'
    if kind == 'fenced' and before and before[-1][0] == 'para' and rng.random() < 0.1: glue = '\n'; label += '/glued'
    # directly under the last line of a raw HTML block, no blank line between (the extractor inserts the blank line itself; its
    # `intail` mode must end with that line)
    if kind == 'span' or (kind == 'block' and not chain and 'under-rule' not in label):
        if rng.random() < 0.08: before.append(('raw', rng.choice(RAW_BLOCKS + RAW_BLOCKS_OPEN)))
        if before and before[-1][0] == 'raw' and before[-1][1].startswith('<') and rng.random() < 0.6: glue = '\n'; label += '/glued-under-raw'
    if real_fence:
        after.append(('fenced', rng.choice(['```', '```', '````']).join(['', rng.choice(['', 'py']) + '\nreal *y* &lt; __z__\n', ''])))
    pre = docs.join(before, rng); post = docs.join(after, rng)

    def whole(b):
        return (pre + glue if pre else '') + make(b) + ('\n\n' + post if post else '')
    return {'kind': kind, 'body': body, 'doc': whole(body), 'doc_placebo': whole(PLACEBO), 'extensions': ['fenced_code'] if fenced_on else [],
            'label': label, 'in_list': in_list}


# ---------------------------------------------------------------- evaluation
def _md(exts, cache):
    k = tuple(exts)
    if k not in cache: cache[k] = markdown.Markdown(extensions=list(exts))
    return cache[k].reset()


_DEV = {   # known deviations, as rewrite rules on the REQUIRED text: (regex on required, replacement alternatives)
    'F-C03-1': (_CHARREF_NOSEMI, lambda m: re.escape(m.group(0)) + ';?'),
    'F-C03-2': (re.compile(r'</>'), lambda m: '(?:</>)?'),
    'F-C03-4': (re.compile(r'--\s+>'), lambda m: '(?:' + re.escape(m.group(0)) + '|-->)'),
    'F-C03-3': (re.compile(r'\n{3,}'), lambda m: '(?:' + m.group(0) + '|\n\n)'),
}


def _dev_pattern(required, ids):
    """regex matching `required` and every text obtained from it by the deviations `ids`"""
    toks = [(m.start(), m.end(), i, m) for i in ids for m in _DEV[i][0].finditer(required)]
    toks.sort(key=lambda t: (t[0], -t[1]))
    pat, last = '', 0
    for a, b, i, m in toks:
        if a < last: continue
        pat += re.escape(required[last:a]) + _DEV[i][1](m); last = b
    return pat + re.escape(required[last:]) + r'\s*'


def classify(case, observed, required):
    """narrow region predicates for the known findings; observed / required = un-escaped text of OUR code element.
    A finding id is returned only if the observed text is EXACTLY the required text changed by that finding's rewrite
    (up to trailing whitespace, which the rewrite can expose to the trimming)."""
    if observed is None or case['kind'] == 'fenced': return None
    ids = ['F-C03-1', 'F-C03-2', 'F-C03-4'] + (['F-C03-3'] if case['kind'] == 'block' and case.get('in_list') else [])
    for i in ids:
        if re.fullmatch(_dev_pattern(required, [i]), observed, re.S): return i
    if '</>' in case['body'] and LAW[case['kind']](case['body'].replace('</>', '')) == observed: return 'F-C03-2'
    if re.fullmatch(_dev_pattern(required, ids), observed, re.S):
        for i in ids:
            if _DEV[i][0].search(required): return i
    return None


INERT = 'QEZ'


def explained_by_deleted_empty_endtag(case, T1, cache):
    """F-C03-2 for the shapes the rewrite rule of `classify` cannot express (`</>` is the whole body or a whole line of it, so that a line or the
    code construct itself disappears; only some of several `</>` are deleted; the deletion joins two backtick runs of a span, or a run and
    the fence; the deletion happens AFTER input normalisation, so a line left with spaces only is not emptied; or it combines with another
    known region).  Region predicate: the body contains `</>`, and the SAME case with every `</>` replaced by the inert word `QEZ` (document
    and body alike) is fine or falls into a known region itself -- i.e. nothing but the presence of `</>` in the code makes it fail.
    -> 'F-C03-2' or None"""
    if case['kind'] == 'fenced' or '</>' not in case['body'] or INERT in case['doc']: return None
    try:
        st, d = evaluate(dict(case, body=case['body'].replace('</>', INERT), doc=case['doc'].replace('</>', INERT)), cache)
    except Exception:
        return None
    return 'F-C03-2' if (st in ('ok', 'drift') or (st == 'viol' and d.get('finding'))) else None


def _uws_line(l):
    """a line that is not empty after input normalisation (not made of spaces only) but is white space for `str.strip`"""
    return l.strip(' ') != '' and l.strip() == ''


def explained_by_quote_ws_line(case, obs):
    """F-C03-6.  Region predicate: indented-block placement with a block-quote wrapper, the body has a line made only of white space that
    contains a Unicode white-space character other than the space (VT, FF, FS, GS, RS, NEL, NBSP, EM SPACE, U+2028 ...), and the observed
    text is exactly what the law (plus the list-item blank-line collapse F-C03-3 where that applies) gives for the body with such lines
    (all of them, or all but the ones written as lazy lines without `>`) emptied."""
    if obs is None or case['kind'] != 'block' or 'q' not in case['label'].split('/')[1]: return None
    ls = case['body'].split('\n')
    idx = [i for i, l in enumerate(ls) if _uws_line(l)]
    if not idx or len(idx) > 6: return None
    for mask in range(1, 1 << len(idx)):
        drop = set(i for k, i in enumerate(idx) if mask >> k & 1)
        b2 = '\n'.join('' if i in drop else l for i, l in enumerate(ls))
        want2 = law_block(b2)
        if obs == want2 or allowed('block', b2, obs) or classify(case, obs, want2) is not None: return 'F-C03-6'
    return None


def evaluate(case, cache=None):
    """-> ('ok'|'skip'|'viol', detail dict)"""
    cache = {} if cache is None else cache
    md = _md(case['extensions'], cache)
    try:
        out0 = md.convert(case['doc_placebo']); md.reset()
        out1 = md.convert(case['doc'])
    except RecursionError:
        cache.clear()                    # F-C11-1: a raised conversion leaves parser state behind -> fresh instances
        return 'skip', {'why': 'recursion'}
    T0, T1 = codes(out0), codes(out1)
    P = PLACEBO if case['kind'] == 'span' else PLACEBO + '\n'
    idx = [i for i, t in enumerate(T0) if t == P or t.strip() == PLACEBO]
    if len(idx) > 1:
        return 'skip', {'why': 'placebo-ambiguous'}
    if not idx:
        # Even the harmless body `QZQZ` is not rendered as code.  For block / fenced placements (deterministic wrappers, separated from
        # the surroundings by blank lines) this never happens on the unchanged tree (0 in 350 000 cases): the code construct itself has been
        # lost -> violation.  For spans the random neighbours of the same block can, very rarely, form a construct that swallows the span
        # (e.g. an HTML tag `<foo [`x`](u) >`): counted as a skip.
        if case['kind'] == 'span': return 'skip', {'why': 'placebo-not-code'}
        return 'viol', {'observed': 'placebo document: no <code> element with text %r; code elements: %r' % (P, T0),
                        'required': 'the placement %s renders its body as a code element' % case['label'], 'finding': None}
    i = idx[0]
    want = LAW[case['kind']](case['body'])
    req = T0[:i] + [want] + T0[i + 1:]
    if T1 == req:
        return 'ok', {}
    obs = T1[i] if len(T1) == len(T0) else None
    others_same = len(T1) == len(T0) and T1[:i] + T1[i + 1:] == T0[:i] + T0[i + 1:]
    if others_same and allowed(case['kind'], case['body'], obs):
        return 'drift', {'observed': repr(obs), 'law': repr(want)}
    finding = classify(case, obs, want) if others_same else None
    if finding is None and others_same: finding = explained_by_quote_ws_line(case, obs)
    if finding is None and '</>' in case['body']: finding = explained_by_deleted_empty_endtag(case, T1, cache)
    if finding is None and _LOOSE_COMMENT.search(case['doc']): finding = 'F-C03-4'
    if finding is None:
        k = ('probe',) + tuple(case['extensions'])
        if k not in cache: cache[k] = markdown.Markdown(extensions=list(case['extensions']))
        if htmlstate.two_phase(cache[k], case['doc']): finding = 'F-C03-5'
    return 'viol', {'observed': repr(obs) if others_same else 'code elements: ' + repr(T1), 'required': repr(want) if others_same else 'code elements: ' + repr(req),
                    'finding': finding}


def _exc_violation(e, inp, config, text):
    """an unexpected exception is reported as a violation (the property cannot hold for an input that does not convert); nothing is
    tagged: the `<![` assertion F-C02-1 is repaired, a recurrence is an ordinary violation"""
    known = None
    return {'input': inp, 'config': config, 'observed': 'raised ' + repr(e), 'required': 'a conversion result', 'finding': known}


def search(driver, rng, n):
    """distinct / non-trivial: distinct (kind, body) whose body contains at least one character that Markdown or HTML would
    interpret outside code (any of  * _ ` \\ [ < & #  etc.), measured with a set."""
    cache = {}
    dist = {}
    def bump(k): dist[k] = dist.get(k, 0) + 1
    viol, samples, seen = [], [], set()
    cases = 0
    special = re.compile(r'[*_`\\\[<&#>!\-]')
    for _ in range(n):
        case = gen_case(rng)
        if case is None: bump('gen-rejected'); continue
        cases += 1
        bump(case['label'].split('/')[0]); bump('place:' + case['label'])
        bump('ext:' + ','.join(case['extensions']))
        if '\n' in case['body']: bump('multiline-body')
        if '<' in case['body']: bump('body-has-<')
        if '&' in case['body']: bump('body-has-&')
        if any(c in case['body'] for c in hostile.LINE_ENDS): bump('body-has-unicode-line-end')
        try:
            st, d = evaluate(case, cache)
        except Exception as e:
            cache.clear(); bump('exception:' + type(e).__name__)
            viol.append(_exc_violation(e, {k: case[k] for k in ('kind', 'body', 'doc', 'doc_placebo', 'label', 'in_list')}, {'extensions': case['extensions']}, case['doc'])); continue
        if st == 'skip': bump('skip:' + d['why']); continue
        if st == 'drift': bump('law-drift'); continue
        if special.search(case['body']): seen.add((case['kind'], case['body']))
        if st == 'viol':
            if d['finding']: bump('known:' + d['finding'])
            viol.append({'input': {k: case[k] for k in ('kind', 'body', 'doc', 'doc_placebo', 'label', 'in_list')},
                         'config': {'extensions': case['extensions']}, 'observed': d['observed'], 'required': d['required'], 'finding': d['finding']})
        elif len(samples) < 4 and rng.random() < 0.01:
            samples.append({'doc': case['doc'], 'body': case['body'], 'label': case['label'], 'extensions': case['extensions']})
    return {'cases': cases, 'distinct': len(seen), 'violations': viol, 'samples': samples, 'dist': dist}


def replay(witness):
    """True iff the witness still fails: no <code> element of the converted document has the text LAW(body)."""
    out = markdown.Markdown(extensions=list(witness.get('extensions', []))).convert(witness['doc'])
    return LAW[witness['kind']](witness['body']) not in codes(out)


def replay_violation(v):
    case = dict(v['input']); case['extensions'] = v['config']['extensions']
    try:
        st, d = evaluate(case)
    except Exception:
        return True
    return st == 'viol'
