r"""C08 search oracle -- top-level blocks separated by a blank line render independently.

Pairs (A, B);  required:  convert(A + "\n\n" + B) == J(convert(A), convert(B)),  J = the non-empty parts joined by "\n"
(the newline the serializer puts between top-level elements; `convert` strips its result).

A: arbitrary markup without `<`, `&` (raw HTML / entities are scanned document-wide) and without anything that could be a
   reference definition -- the two-character sequence `]:` never occurs (a definition needs it; definitions are global by
   design).  Sources: structured documents (gen/docs.py: nested lists / quotes / code, lazy lines, loose and tight items),
   token soups (unterminated emphasis, links, code spans, list and quote openers, trailing backslash / spaces / blank lines),
   line-structured documents from construct openers, spliced fixture fragments; optionally cut off in the middle ("unfinished").
   A may be empty, may end with blank lines, inside a code block, a list (tight or loose), a quote, a lazy line.
B: begins with a paragraph, an ATX heading, a Setext heading or a horizontal rule (by hypothesis), otherwise a small
   document of the same sources and exclusions.  "Begins with" is made precise on the first line L of B:
   L is not blank, has at most 3 leading spaces, and -- unless L is a rule -- does not start with a list marker
   (`*`, `+`, `-` or digits+`.` followed by a space) nor with `>`.  (A first line that is indented by 4, a list item or a quote
   line would continue A's list / code / quote by design.)  Reference-style links are allowed in A and B: with no definition
   anywhere they stay literal in all three conversions.

A whitespace-only A (any width, tabs, several lines) and an A whose FIRST line is whitespace-only are generated on purpose: F-C09-1 (such a
first line was not emptied: '    \n\nB' gave an empty code block) is repaired, convert(A) is '' and the combined document must equal
convert(B); nothing tags that shape any more.
Targeted shapes (small probabilities): A ending in a paragraph whose LAZY continuation line, indented by a full tab stop, looks like a
reference definition (`w\n    [r]: /u` -- not a definition: those are indented by at most 3 spaces; it is the only place where `]:` may occur);
A ending in a loose list whose later item is a `#` heading directly followed by another line; B starting with a heading directly followed by
an indented line (code), or spelling an inline placeholder with STX/ETX (removed by input normalisation); A ending in a Setext-underlined block whose
title line consists only of Unicode white space that normalisation does not empty (NBSP, FF, EM SPACE ...: an empty `<h1>` / `<h2>`).  Every search also evaluates ONE
long pair (`long_A()`: 2500 paragraphs, more than 10 000 stashed inline nodes; deterministic).
One other property's known finding can leak in and is tagged (as F-C08-1, registered for this property):
   * F-C10-1 / F-C10-2: a leaked inline placeholder (`[]("\((`) makes the output depend on the running stash counter; tagged when any of the
     three outputs contains STX, ETX or the stem `klzzwxh:` and the input does not spell that stem itself.
"""
import re
import markdown
from gen import docs2 as docs, common

NEEDS_DRIVER = False

FINDINGS = [
    # not a defect of block independence itself: the knock-on effect of the placeholder leaks F-C10-1 / F-C10-2 on this property.  (The
    # framework accepts a tag only if a finding with that id is registered for THIS property: hence an id of its own.)
    {'id': 'F-C08-1', 'property': 'C08', 'status': 'open',
     'what': 'knock-on of the placeholder leaks F-C10-1/F-C10-2: a leaked inline placeholder carries the document-wide stash index, so the rendering of B depends on how many inline nodes A stashed',
     'witness': {'A': '*x*', 'B': '[]("\\(('}},
]

_HR = re.compile(r'^[ ]{0,3}(?=(?P<atomicgroup>(-+[ ]{0,2}){3,}|(_+[ ]{0,2}){3,}|(\*+[ ]{0,2}){3,}))(?P=atomicgroup)[ ]*$')
_LISTQ = re.compile(r'^[ ]{0,3}(?:[*+-][ ]+|\d+\.[ ]+|>)')
ALPHA = [t for t in common.alphabet(html=False, amp=False, ext=False, ctrl=False, refs=False) if '<' not in t and '&' not in t]
OPENERS = [o for o in common.LINE_OPENERS if '<' not in o and '&' not in o and ']:' not in o]


def clean(s):
    s = s.replace('<', '').replace('&', '').replace('\r', '').replace('\x02', '').replace('\x03', '')
    while ']:' in s: s = s.replace(']:', ']')
    return s


def gen_text(rng, small=False):
    k = rng.random()
    if k < 0.4: t = docs.doc(rng, rng.choice([1, 1, 2]) if small else None, docs.Opt(code=True, html=False))
    elif k < 0.65: t = common.soup(rng, ALPHA, 1, 10 if small else 18)
    elif k < 0.85: t = common.lines_doc(rng, 1, 4 if small else 10, OPENERS)
    else: t = common.mutated(rng, 80 if small else 200)
    t = clean(t)
    if rng.random() < 0.15 and len(t) > 3: t = t[:rng.randint(1, len(t) - 1)]          # unfinished
    return clean(t)


# a paragraph whose LAZY continuation line, indented by a full tab stop, looks like a reference definition: it is NOT one (a definition is
# indented by at most 3 spaces; a block that starts with 4 is code) -- plain paragraph text; B may use the label (`[r]`, `[a]`)
LAZYDEF = ['w\n    [r]: /u', 'the list is kept\n    [a]: /u "T"\nand refreshed', 'p\n    [r]: http://x.y/z\n    [a]: /v', 'q *e*\n     [r]: /five']
# a loose list in which a later item is a `#` heading directly followed by another line (HashHeaderProcessor re-queues it inside the item)
HEADITEM = ['- First\n\n- ## Second\n    details', '1. a\n\n2. # b\n    c *d*', '* x\n\n* # h\n    t\n\n* z', '- a\n\n- # b\n    c\n\n    more']
# B: a heading directly followed by an indented line (code), a forged inline placeholder (STX/ETX are removed by input normalisation)
B_PROBES = ['## Install\n    pip install x', '# h\n    code *x*', 'Raw \x02klzzwxh:0000\x03 x', 'w \x02klzzwxh:0001\x03\x02klzzwxh:0000\x03']


# A ending in a Setext-underlined block whose title line holds no visible text: only Unicode white space that input normalisation does
# not empty (NBSP, FF, VT, EM SPACE, NEL, U+2028 ...; a line of plain spaces would be emptied) -- an empty heading on the unchanged tree
UWS_TITLES = ['\xa0', '\x0c', '\u2003', '\xa0 ', ' \xa0', '\u2003\xa0', '\x0b', '\u2028', '\u2029', '\x1c', '\x1d', '\x1e', '\x85', '\u3000', '\u2009', '   \xa0', '\xa0\xa0\xa0']
UNDERLINES = ['=====', '-----', '=', '-', '==', '---', '----------', '= ', '---  ', '=-', '-=', '=====\nmore *text*', '--\n    tail', '===\n===']


def strip_lazydef(a):
    for suf in LAZYDEF:
        if a == suf: return ''
        if a.endswith('\n\n' + suf): return a[:-len(suf)]
    return a


def gen_A(rng):
    if rng.random() < 0.03: return ''
    a = gen_text(rng)
    k = rng.random()
    if k < 0.04: return (a.rstrip('\n') + '\n\n' if a.strip() else '') + rng.choice(LAZYDEF)
    if k < 0.08: return (a.rstrip('\n') + '\n\n' if a.strip() else '') + rng.choice(HEADITEM) + rng.choice(['', '', '\n'])
    if k < 0.14: return (a.rstrip('\n') + '\n\n' if a.strip() else '') + rng.choice(UWS_TITLES) + '\n' + rng.choice(UNDERLINES) + rng.choice(['', '', '\n'])
    if rng.random() < 0.2: a += rng.choice(['\n', '\n\n', '\n\n\n', '  ', '\\', '\n    ', ' \n', '\n>', '\n- ', '\n\n    code\n\n'])
    k = rng.random()
    if k < 0.04:                                   # A consisting of white space only (any width, tabs, several lines): renders '' and must not disturb B
        return ''.join(rng.choice([' ', '  ', '    ', '     ', '\t', ' \t', '        ', '\n', '\n']) for _ in range(rng.randint(1, 4)))
    if k < 0.10:                                   # a whitespace-only FIRST line in front of real content
        a = rng.choice([' ', '  ', '    ', '      ', '\t', '  \t ']) + rng.choice(['\n', '\n\n']) + a
    return a


def first_line_ok(L):
    if not L.strip(): return False
    if L.startswith('    ') or L.startswith('\t') or L[:4].strip(' ') != L[:4].strip() : return False
    if len(L) - len(L.lstrip(' ')) > 3: return False
    if _HR.match(L): return True
    return not _LISTQ.match(L)


def gen_B(rng):
    k = rng.random()
    if k < 0.45:
        o = docs.Opt(code=True, html=False)
        first = rng.choice(['para', 'para', 'atx', 'setext', 'rule'])
        t = {'para': docs.para, 'atx': docs.atx, 'setext': docs.setext}[first](rng, o) if first != 'rule' else docs.rule(rng)
        rest = docs.blocks(rng, rng.choice([0, 0, 1, 2]), o)
        b = docs.join([(first, t)] + rest, rng)
    else:
        b = gen_text(rng, small=True)
        if rng.random() < 0.3:
            b = rng.choice(['# h', '## h ##', 'h\n===', 'h\n---', '---', '* * *', '___', 'p', ' p', '   p', '#', '=', '===', '-', '+', '1.', '\\- x', '**x',
                            '_a', '`c', '[l](', '![i][r]', '[r][]', '[r]', 'a  ', 'a\\']) + rng.choice(['', '\n', '\n\n', ' ']) + b
    b = clean(b).lstrip('\n')
    if rng.random() < 0.06: b = rng.choice(B_PROBES) + rng.choice(['', '\n\n' + b])
    ls = b.split('\n')
    L = ls[0].replace('\t', ' ')
    if not first_line_ok(L):
        L = L.lstrip(' ')
        if not first_line_ok(L): L = 'w' + L
        if rng.random() < 0.5: L = ' ' * rng.randint(0, 3) + L
        if not first_line_ok(L): L = 'w' + L.lstrip(' ')
    ls[0] = L
    return '\n'.join(ls)


LONG_B = 'Thanks to *all* contributors.\n\n# The End'


def long_A(k=2500):
    return '\n\n'.join('Entry %d: fixed a *bug* in `mod%d` (see [ticket](http://tracker.example/%d)) and **more**.' % (i, i, i) for i in range(k))


def J(a, b):
    return '\n'.join(p for p in (a, b) if p)


# extensions under which the statement is evaluated as well: they add or change block / inline syntax that is LOCAL to a block (no
# document-wide table, numbering or id space -- footnotes, abbr, toc, fenced_code, meta, md_in_html are not independent by design)
LOCAL_EXTS = ['sane_lists', 'nl2br', 'wikilinks', 'legacy_em']


def evaluate(A, B, md=None, exts=()):
    md = md or markdown.Markdown(extensions=list(exts))
    try:
        oa = md.reset().convert(A); ob = md.reset().convert(B); oab = md.reset().convert(A + '\n\n' + B)
    except RecursionError:
        return 'skip', None                # the caller replaces the instance (F-C11-1: a raised conversion leaves parser state behind)
    want = J(oa, ob)
    if oab == want: return 'ok', (oa, ob)
    finding = None
    if 'klzzwxh' not in A + B and any(('\x02' in o or '\x03' in o or 'klzzwxh:' in o) for o in (oa, ob, oab)): finding = 'F-C08-1'
    return 'viol', {'input': {'A': A, 'B': B}, 'config': ({'extensions': list(exts)} if exts else {}), 'observed': repr(oab), 'required': repr(want), 'finding': finding}


def _exc_violation(e, inp, config, text):
    """an unexpected exception is reported as a violation (the property cannot hold for an input that does not convert); nothing is
    tagged: the `<![` assertion F-C02-1 is repaired, a recurrence is an ordinary violation"""
    known = None
    return {'input': inp, 'config': config, 'observed': 'raised ' + repr(e), 'required': 'a conversion result', 'finding': known}


def search(driver, rng, n):
    """distinct / non-trivial: distinct pairs with both convert(A) and convert(B) non-empty; measured with a set."""
    md = markdown.Markdown()
    mdxs = {}
    dist = {}
    def bump(k): dist[k] = dist.get(k, 0) + 1
    viol, samples, seen, cases = [], [], set(), 0
    # ONE long document (deterministic, not from rng): A stashes more than 10 000 inline nodes (the stash is numbered per document)
    cases += 1
    st, d = evaluate(long_A(), LONG_B, md)
    if st == 'viol':
        i = next((k for k in range(min(len(d['observed']), len(d['required']))) if d['observed'][k] != d['required'][k]), 0)
        viol.append({'input': {'A': 'long_A()', 'B': LONG_B}, 'config': {}, 'observed': 'first difference at offset %d: …%s' % (i, d['observed'][max(0, i - 60):i + 80]),
                     'required': '…' + d['required'][max(0, i - 60):i + 80], 'finding': None})
    for _ in range(n):
        A, B = gen_A(rng), gen_B(rng)
        if not first_line_ok(B.split('\n')[0].replace('\t', ' ')) or '<' in A + B or '&' in A + B or ']:' in strip_lazydef(A) + B:
            bump('gen-rejected'); continue
        cases += 1
        exts = ()
        if rng.random() < 0.3:
            # the same statement with block-local extensions enabled; ordered lists that do not start at 1 matter to sane_lists
            exts = tuple(sorted(e for e in LOCAL_EXTS if rng.random() < 0.5)) or ('sane_lists',)
            if 'sane_lists' in exts and rng.random() < 0.5:
                k = rng.choice([2, 3, 5, 7, 10, 42])
                A = A + rng.choice(['\n\n', '\n']) + '%d. five\n%d. six' % (k, k + 1) + rng.choice(['', '\n', '\n    - n\n    - m'])
                if rng.random() < 0.6: B = B + '\n\n1. one\n2. two'
            bump('with-extensions'); bump('ext:' + '+'.join(exts))
        try:
            if exts:
                mdx = mdxs.get(exts)
                if mdx is None: mdx = mdxs[exts] = markdown.Markdown(extensions=list(exts))
                st, d = evaluate(A, B, mdx, exts)
            else:
                st, d = evaluate(A, B, md)
        except Exception as e:
            md = markdown.Markdown(); mdxs.clear(); bump('exception:' + type(e).__name__)
            viol.append(_exc_violation(e, {'A': A, 'B': B}, ({'extensions': list(exts)} if exts else {}), A + B)); continue
        if st == 'skip':
            bump('skip:recursion'); md = markdown.Markdown(); mdxs.clear(); continue
        if st == 'viol':
            if d['finding']: bump('known:' + d['finding'])
            viol.append(d); continue
        oa, ob = d
        if oa and ob: seen.add((A, B))
        # what A ends in / what B starts with
        m = re.search(r'<(?:/)?(\w+)[^<]*$', oa)
        bump('A-ends:' + (m.group(1) if m else 'empty'))
        m = re.match(r'<(\w+)', ob)
        bump('B-starts:' + (m.group(1) if m else 'empty'))
        if A.endswith('\n'): bump('A-trailing-newline')
        if len(samples) < 4 and rng.random() < 0.005: samples.append({'A': A, 'B': B})
    return {'cases': cases, 'distinct': len(seen), 'violations': viol, 'samples': samples, 'dist': dist}


def replay(witness):
    return evaluate(witness['A'], witness['B'], None, tuple(witness.get('extensions', ())))[0] == 'viol'


def replay_violation(v):
    try:
        A = v['input']['A']
        return evaluate(long_A() if A == 'long_A()' else A, v['input']['B'], None, tuple(v.get('config', {}).get('extensions', ())))[0] == 'viol'
    except Exception:
        return True
