r"""C08 search oracle -- top-level blocks separated by a blank line render independently.

Pairs (A, B);  required:  convert(A + "\n\n" + B) == J(convert(A), convert(B)),  J = the non-empty parts joined by "\n"
(the newline the serializer puts between top-level elements; `convert` strips its result).

A: arbitrary markup without `<`, `&` (raw HTML / entities are scanned document-wide) and without anything that could be a
   reference definition -- the two-character sequence `]:` never occurs (a definition needs it; definitions are global by
   design).  Sources: structured documents (gen/docs.py: nested lists / quotes / code, lazy lines, loose and tight items),
   token soups (unterminated emphasis, links, code spans, list and quote openers, trailing backslash / spaces / blank lines),
   line-structured documents from construct openers, spliced fixture fragments; optionally cut off in the middle ("unfinished").
   A may be empty, may end with blank lines, inside a code block, a list (tight or loose), a quote, a lazy line.
B: begins with a paragraph, an ATX heading, a Setext heading or a horizontal rule (by hypothesis), otherwise a small
   document of the same sources and exclusions.  "Begins with" is made precise on the first line L of B:
   L is not blank, has at most 3 leading spaces, and -- unless L is a rule -- does not start with a list marker
   (`*`, `+`, `-` or digits+`.` followed by a space) nor with `>`.  (A first line that is indented by 4, a list item or a quote
   line would continue A's list / code / quote by design.)  Reference-style links are allowed in A and B: with no definition
   anywhere they stay literal in all three conversions.

A whitespace-only A (any width, tabs, several lines) and an A whose FIRST line is whitespace-only are generated on purpose: F-C09-1 (such a
first line was not emptied: '    \n\nB' gave an empty code block) is repaired, convert(A) is '' and the combined document must equal
convert(B); nothing tags that shape any more.
One other property's known finding can leak in and is tagged:
   * F-C10-2: a leaked inline placeholder (`[]("\((`) makes the output depend on the running stash counter; tagged when any of the
     three outputs contains STX, ETX or the stem `klzzwxh:`.
"""
import re
import markdown
from gen import docs2 as docs, common

NEEDS_DRIVER = False

FINDINGS = []      # C08 has no known finding of its own

_HR = re.compile(r'^[ ]{0,3}(?=(?P<atomicgroup>(-+[ ]{0,2}){3,}|(_+[ ]{0,2}){3,}|(\*+[ ]{0,2}){3,}))(?P=atomicgroup)[ ]*$')
_LISTQ = re.compile(r'^[ ]{0,3}(?:[*+-][ ]+|\d+\.[ ]+|>)')
ALPHA = [t for t in common.alphabet(html=False, amp=False, ext=False, ctrl=False, refs=False) if '<' not in t and '&' not in t]
OPENERS = [o for o in common.LINE_OPENERS if '<' not in o and '&' not in o and ']:' not in o]


def clean(s):
    s = s.replace('<', '').replace('&', '').replace('\r', '').replace('\x02', '').replace('\x03', '')
    while ']:' in s: s = s.replace(']:', ']')
    return s


def gen_text(rng, small=False):
    k = rng.random()
    if k < 0.4: t = docs.doc(rng, rng.choice([1, 1, 2]) if small else None, docs.Opt(code=True, html=False))
    elif k < 0.65: t = common.soup(rng, ALPHA, 1, 10 if small else 18)
    elif k < 0.85: t = common.lines_doc(rng, 1, 4 if small else 10, OPENERS)
    else: t = common.mutated(rng, 80 if small else 200)
    t = clean(t)
    if rng.random() < 0.15 and len(t) > 3: t = t[:rng.randint(1, len(t) - 1)]          # unfinished
    return clean(t)


def gen_A(rng):
    if rng.random() < 0.03: return ''
    a = gen_text(rng)
    if rng.random() < 0.2: a += rng.choice(['\n', '\n\n', '\n\n\n', '  ', '\\', '\n    ', ' \n', '\n>', '\n- ', '\n\n    code\n\n'])
    k = rng.random()
    if k < 0.04:                                   # A consisting of white space only (any width, tabs, several lines): renders '' and must not disturb B
        return ''.join(rng.choice([' ', '  ', '    ', '     ', '\t', ' \t', '        ', '\n', '\n']) for _ in range(rng.randint(1, 4)))
    if k < 0.10:                                   # a whitespace-only FIRST line in front of real content
        a = rng.choice([' ', '  ', '    ', '      ', '\t', '  \t ']) + rng.choice(['\n', '\n\n']) + a
    return a


def first_line_ok(L):
    if not L.strip(): return False
    if L.startswith('    ') or L.startswith('\t') or L[:4].strip(' ') != L[:4].strip() : return False
    if len(L) - len(L.lstrip(' ')) > 3: return False
    if _HR.match(L): return True
    return not _LISTQ.match(L)


def gen_B(rng):
    k = rng.random()
    if k < 0.45:
        o = docs.Opt(code=True, html=False)
        first = rng.choice(['para', 'para', 'atx', 'setext', 'rule'])
        t = {'para': docs.para, 'atx': docs.atx, 'setext': docs.setext}[first](rng, o) if first != 'rule' else docs.rule(rng)
        rest = docs.blocks(rng, rng.choice([0, 0, 1, 2]), o)
        b = docs.join([(first, t)] + rest, rng)
    else:
        b = gen_text(rng, small=True)
        if rng.random() < 0.3:
            b = rng.choice(['# h', '## h ##', 'h\n===', 'h\n---', '---', '* * *', '___', 'p', ' p', '   p', '#', '=', '===', '-', '+', '1.', '\\- x', '**x',
                            '_a', '`c', '[l](', '![i][r]', '[r][]', '[r]', 'a  ', 'a\\']) + rng.choice(['', '\n', '\n\n', ' ']) + b
    b = clean(b).lstrip('\n')
    ls = b.split('\n')
    L = ls[0].replace('\t', ' ')
    if not first_line_ok(L):
        L = L.lstrip(' ')
        if not first_line_ok(L): L = 'w' + L
        if rng.random() < 0.5: L = ' ' * rng.randint(0, 3) + L
        if not first_line_ok(L): L = 'w' + L.lstrip(' ')
    ls[0] = L
    return '\n'.join(ls)


def J(a, b):
    return '\n'.join(p for p in (a, b) if p)


def evaluate(A, B, md=None):
    md = md or markdown.Markdown()
    try:
        oa = md.reset().convert(A); ob = md.reset().convert(B); oab = md.reset().convert(A + '\n\n' + B)
    except RecursionError:
        return 'skip', None                # the caller replaces the instance (F-C11-1: a raised conversion leaves parser state behind)
    want = J(oa, ob)
    if oab == want: return 'ok', (oa, ob)
    finding = None
    if any(('\x02' in o or '\x03' in o or 'klzzwxh:' in o) for o in (oa, ob, oab)): finding = 'F-C10-2'
    return 'viol', {'input': {'A': A, 'B': B}, 'config': {}, 'observed': repr(oab), 'required': repr(want), 'finding': finding}


def _exc_violation(e, inp, config, text):
    """an unexpected exception is reported as a violation (the property cannot hold for an input that does not convert); nothing is
    tagged: the `<![` assertion F-C02-1 is repaired, a recurrence is an ordinary violation"""
    known = None
    return {'input': inp, 'config': config, 'observed': 'raised ' + repr(e), 'required': 'a conversion result', 'finding': known}


def search(driver, rng, n):
    """distinct / non-trivial: distinct pairs with both convert(A) and convert(B) non-empty; measured with a set."""
    md = markdown.Markdown()
    dist = {}
    def bump(k): dist[k] = dist.get(k, 0) + 1
    viol, samples, seen, cases = [], [], set(), 0
    for _ in range(n):
        A, B = gen_A(rng), gen_B(rng)
        if not first_line_ok(B.split('\n')[0].replace('\t', ' ')) or '<' in A + B or '&' in A + B or ']:' in A + B:
            bump('gen-rejected'); continue
        cases += 1
        try:
            st, d = evaluate(A, B, md)
        except Exception as e:
            md = markdown.Markdown(); bump('exception:' + type(e).__name__)
            viol.append(_exc_violation(e, {'A': A, 'B': B}, {}, A + B)); continue
        if st == 'skip':
            bump('skip:recursion'); md = markdown.Markdown(); continue
        if st == 'viol':
            if d['finding']: bump('known:' + d['finding'])
            viol.append(d); continue
        oa, ob = d
        if oa and ob: seen.add((A, B))
        # what A ends in / what B starts with
        m = re.search(r'<(?:/)?(\w+)[^<]*$', oa)
        bump('A-ends:' + (m.group(1) if m else 'empty'))
        m = re.match(r'<(\w+)', ob)
        bump('B-starts:' + (m.group(1) if m else 'empty'))
        if A.endswith('\n'): bump('A-trailing-newline')
        if len(samples) < 4 and rng.random() < 0.005: samples.append({'A': A, 'B': B})
    return {'cases': cases, 'distinct': len(seen), 'violations': viol, 'samples': samples, 'dist': dist}


def replay(witness):
    return evaluate(witness['A'], witness['B'])[0] == 'viol'


def replay_violation(v):
    try:
        return evaluate(v['input']['A'], v['input']['B'])[0] == 'viol'
    except Exception:
        return True
