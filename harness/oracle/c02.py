"""C02 search oracle — totality: markdown.markdown(text, extensions=S, output_format=f) returns a str and terminates.

A case is (text, S, f).  Any exception is a violation (BaseException subclasses included, except KeyboardInterrupt from
outside); a conversion using more than CAP seconds of CPU time of this process (ITIMER_PROF/SIGPROF, user+system; wall clock is
NOT a criterion: a WALL_CAP backstop only keeps the search from hanging and is counted in dist as `wallclock_backstop`) is re-run once and,
if it hits the cap again, reported as a violation 'timeout'.  A non-str result is a violation.
Known regions (tagged with their finding id, narrow predicates in `classify`: exception type + raising frame + syntactic
trigger in the input): F-C02-1..F-C02-9 (F-C02-3 is not generated: pure list nesting stays <= 52 levels and the tag applies
only above 60; F-C02-8 needs Pygments, which the environment has).

distinct / non-trivial: distinct (text, S, f) whose text is not blank (a blank text takes the early return of convert)."""
import re
import signal
import threading
import time
import traceback

import markdown
from gen import common as G
from gen import c02_families as F

NEEDS_DRIVER = False
CAP = 60.0          # seconds of CPU time (user+system of this process) per conversion
WALL_CAP = 600.0    # wall-clock backstop: only so that the search itself cannot hang; never a violation by itself
MAX_TIMEOUTS = 2

FINDINGS = [
    # F-C02-1 and F-C02-4 were repaired in /repo (fix: commits); their witnesses stay as regression cases (status fixed: a
    # failure of the witness, or a generated case carrying the tag, is reported as a violation by the framework)
    {'id': 'F-C02-1', 'property': 'C02', 'status': 'fixed',
     'what': '`<![` not followed by `CDATA[` at a line start raises AssertionError from _markupbase (parse_marked_section/_scan_name)',
     'witness': {'text': '<![', 'extensions': [], 'output_format': 'xhtml'}},
    {'id': 'F-C02-2', 'property': 'C02', 'status': 'open',
     'what': 'footnotes: a footnote definition inside a non-last footnote body raises RuntimeError (OrderedDict mutated during iteration)',
     'witness': {'text': '[^a]: [^b]: x\n\n[^c]: y\n\n[^a][^c]', 'extensions': ['footnotes'], 'output_format': 'xhtml'}},
    {'id': 'F-C02-3', 'property': 'C02', 'status': 'open',
     'what': 'some hundred nested list levels (300-500 depending on the stack already in use; indented items, or markers repeated on one '
             'line `- - - x`; likewise some 330 nested admonitions with the admonition extension) raise RecursionError (block quotes are guarded, lists and admonitions are not)',
     'witness': {'build': 'nested_list_oneline', 'depth': 1500, 'extensions': [], 'output_format': 'xhtml'}},
    {'id': 'F-C02-4', 'property': 'C02', 'status': 'fixed',
     'what': "abbr: a definition with the title '' or \"\" (which removes an abbreviation) for a term that is not defined raises KeyError (dict.pop without default)",
     'witness': {'text': "*[X]: ''\n\nX y", 'extensions': ['abbr'], 'output_format': 'xhtml'}},
    {'id': 'F-C02-5', 'property': 'C02', 'status': 'open',
     'what': 'footnotes + md_in_html: a raw element with class "footnote" parsed as Markdown whose list items have no id: ValueError (not enough values to unpack) in FootnotePostTreeprocessor.get_num_duplicates',
     'witness': {'text': '<div class="footnote" markdown="1">\n1. x\n</div>', 'extensions': ['md_in_html', 'footnotes'], 'output_format': 'xhtml'}},
    {'id': 'F-C02-6', 'property': 'C02', 'status': 'open',
     'what': 'md_in_html: a raw <ul>/<ol> without items that md_in_html put into the tree, followed by a Markdown list (inside the container or right after it): IndexError (lst[-1]) in OListProcessor.run',
     'witness': {'text': '<div markdown="1">\n<ul>\n</ul>\n\n* a\n</div>', 'extensions': ['md_in_html'], 'output_format': 'xhtml'}},
    {'id': 'F-C02-7', 'property': 'C02', 'status': 'open',
     'what': 'md_in_html: an attribute name starting with `{` on a markdown= element: ValueError from ElementTree namespace handling (add_qname) at serialisation',
     'witness': {'text': '<hr markdown="1" {a>', 'extensions': ['md_in_html'], 'output_format': 'xhtml'}},
    {'id': 'F-C02-8', 'property': 'C02', 'status': 'open',
     'what': 'fenced_code + codehilite (Pygments installed): key=value pairs of the fence brace list are forwarded unvalidated: lang=/style= give TypeError (multiple values for keyword), '
             'Pygments options with unusable values give OptionError / ClassNotFound / LookupError / RuntimeError / OverflowError from Pygments',
     'witness': {'text': '```{.python linenostart=x}\nx\n```', 'extensions': ['fenced_code', 'codehilite'], 'output_format': 'xhtml'}},
    {'id': 'F-C02-9', 'property': 'C02', 'status': 'open',
     'what': 'fenced_code + attr_list without highlighting: a boolean option (linenums, guess_lang, noclasses, use_pygments) in the fence brace list is written as an attribute with a bool/None value: TypeError cannot serialize',
     'witness': {'text': '``` { .c guess_lang=2 }\nx\n```', 'extensions': ['fenced_code', 'attr_list'], 'output_format': 'xhtml'}},
]


class _Timeout(BaseException):
    pass


class _WallClock(BaseException):
    pass


def _on_alarm(signum, frame):
    if signum == signal.SIGALRM:
        raise _WallClock()
    raise _Timeout()


def _build(w):
    if 'text' in w:
        return w['text']
    if w.get('build') == 'nested_list':
        return '\n\n'.join('    ' * i + '- a' for i in range(int(w['depth'])))
    if w.get('build') == 'nested_list_oneline':
        return '- ' * int(w['depth']) + 'a'
    raise ValueError('unknown witness')


def _timers(on, cap=CAP):
    """the cap is on CPU time of this process (ITIMER_PROF): a conversion that does not terminate burns CPU, while a loaded
    machine (other checks running on all cores) must not turn a 1 s conversion into a reported timeout; a wall-clock
    backstop of WALL_CAP seconds catches a conversion that blocks without computing.  Both re-fire every second in case a
    bare `except:` inside the library swallows the first delivery."""
    if on:
        signal.setitimer(signal.ITIMER_PROF, cap, 1.0)
        signal.setitimer(signal.ITIMER_REAL, WALL_CAP, 1.0)
    else:
        signal.setitimer(signal.ITIMER_PROF, 0)
        signal.setitimer(signal.ITIMER_REAL, 0)


def run_one(text, exts, fmt, cap=CAP):
    """-> (status, detail, cpu seconds); status in ok | exception | timeout (CPU cap) | wallclock (backstop only) | nonstr"""
    timer = threading.current_thread() is threading.main_thread() and hasattr(signal, 'setitimer')
    old = old2 = None
    t0 = time.process_time()
    try:
        if timer:
            old = signal.signal(signal.SIGPROF, _on_alarm)
            old2 = signal.signal(signal.SIGALRM, _on_alarm)
            _timers(True, cap)
        try:
            r = markdown.markdown(text, extensions=list(exts), output_format=fmt)
        finally:
            if timer:
                _timers(False)
        dt = time.process_time() - t0
        if not isinstance(r, str):
            return 'nonstr', {'type': type(r).__name__}, dt
        return 'ok', None, dt
    except _Timeout:
        if timer:
            _timers(False)
        return 'timeout', {'type': 'timeout', 'cap': cap}, time.process_time() - t0
    except _WallClock:
        if timer:
            _timers(False)
        cpu = time.process_time() - t0
        # the backstop alone says nothing about the converter (a loaded or suspended machine): an infrastructure event
        return ('timeout' if cpu >= cap else 'wallclock'), {'type': 'wallclock_backstop', 'cap': WALL_CAP, 'cpu': round(cpu, 1)}, cpu
    except KeyboardInterrupt:
        raise
    except BaseException as e:  # noqa: the property is "never raises"
        if timer:
            _timers(False)
        tb = traceback.extract_tb(e.__traceback__)
        where = [(f.filename.replace('\\', '/').rsplit('/', 1)[-1], f.name) for f in tb[-6:]]
        stack = []
        for f in tb:
            key = (f.filename.replace('\\', '/').rsplit('/', 1)[-1], f.name)
            if key not in stack and len(stack) < 80: stack.append(key)
        last = '/'.join(tb[-1].filename.replace('\\', '/').split('/')[-3:]) if tb else ''
        return 'exception', {'type': type(e).__name__, 'module': type(e).__module__, 'msg': str(e)[:200], 'where': where, 'stack': stack, 'last_file': last}, time.process_time() - t0
    finally:
        if timer:
            try: _timers(False)
            except Exception: pass
            if old is not None: signal.signal(signal.SIGPROF, old)
            if old2 is not None: signal.signal(signal.SIGALRM, old2)


_FNDEF = re.compile(r'\[\^[^\]]*\]:')
_MARKED = re.compile(r'<!\[(?!CDATA\[)')


_MARKER = re.compile(r'(?:[*+-]|\d+\.)[ ]+')
_QUOTE = re.compile(r'>[ ]?')


def _list_depth(text):
    """deepest PURE list nesting a line asks for: the longest run of list levels — a list marker, or four columns of
    indentation (the continuation of an enclosing item) — that no block-quote marker interrupts.  `- - - x` nests three
    lists on one line; in `> - > - x` every list level is followed by a quote level, whose processor checks the distance
    to the recursion limit, so that nesting is NOT the F-C02-3 region however deep it is."""
    best = 0
    for ln in text.expandtabs(4).split('\n'):
        i = 0; run = 0; n = len(ln)
        while i < n:
            if ln.startswith('    ', i):
                run += 1; i += 4; continue
            j = i
            while j < n and ln[j] == ' ' and j - i < 3: j += 1
            m = _MARKER.match(ln, j)
            if m:
                run += 1; i = m.end()
                if run > best: best = run
                continue
            m = _QUOTE.match(ln, j)
            if m and m.end() > j:
                run = 0; i = m.end(); continue
            break
    return best


_BRACEFENCE = re.compile(r'^[ >\t]*(?:`{3,}|~{3,})[ ]*\{([^\n]*)\}', re.M)
_BOOLOPT = re.compile(r'(?<![^\s{:])(?:linenums|guess_lang|noclasses|use_pygments)(?![^\s=}])')
_FOOTCLASS = re.compile(r'<[A-Za-z][^<>]*\bclass\s*=\s*["\']?[^"\'<>]*\bfootnote\b', re.I)
_RAWLIST = re.compile(r'<(?:ul|ol)\b', re.I)
_BRACEATTR = re.compile(r'<[A-Za-z][^<>]*\{[^<>]*>')
_ABBR_POP = re.compile(r'^[*]\[[^\\\]]*?\][ ]?:[ ]*\n?[ ]*(?:\'\'|"")[ ]*$', re.M)


def classify(text, exts, detail):
    """known-finding id for an exception, or None.  Narrow: type + raising frame + the syntactic trigger in the input"""
    t = detail.get('type'); where = detail.get('where') or []
    files = {f for f, _ in where}
    if t == 'AssertionError' and '_markupbase.py' in files and _MARKED.search(text):
        return 'F-C02-1'
    if t == 'RuntimeError' and 'mutated during iteration' in detail.get('msg', '') and ({'footnotes', 'extra'} & set(exts)) \
            and any(f == 'footnotes.py' for f in files) and len(_FNDEF.findall(text)) >= 2:
        return 'F-C02-2'
    if t == 'RecursionError' and _list_depth(text) > 60:
        return 'F-C02-3'
    stack = [tuple(x) for x in (detail.get('stack') or where)]
    last = tuple(where[-1]) if where else None
    xs = set(exts)
    if t == 'ValueError' and 'not enough values to unpack' in detail.get('msg', '') and last == ('footnotes.py', 'get_num_duplicates') \
            and ({'footnotes', 'extra'} & xs) and _FOOTCLASS.search(text):
        return 'F-C02-5'
    if t == 'IndexError' and 'child index out of range' in detail.get('msg', '') and last == ('blockprocessors.py', 'run') \
            and ({'md_in_html', 'extra'} & xs) and _RAWLIST.search(text):
        return 'F-C02-6'
    if t == 'ValueError' and last == ('ElementTree.py', 'add_qname') and ({'md_in_html', 'extra'} & xs) and _BRACEATTR.search(text):
        return 'F-C02-7'
    opts = [m.group(1) for m in _BRACEFENCE.finditer(text)]
    has_option = any(any(tok and tok[0] not in '.#' for tok in o.replace(':', ' ', 1).split()) for o in opts)
    if ({'fenced_code', 'extra'} & xs) and ('fenced_code.py', 'run') in stack and has_option:
        if 'codehilite' in xs and ('pygments/' in detail.get('last_file', '')
                                    or (t == 'TypeError' and 'got multiple values for' in detail.get('msg', '') and last == ('fenced_code.py', 'run'))):
            return 'F-C02-8'
        if t == 'TypeError' and 'cannot serialize' in detail.get('msg', '') and last == ('serializers.py', '_raise_serialization_error') \
                and ('fenced_code.py', '<genexpr>') in stack and ({'attr_list', 'extra'} & xs) and any(_BOOLOPT.search(o) for o in opts):
            return 'F-C02-9'
    if t == 'KeyError' and ({'abbr', 'extra'} & set(exts)) and where and where[-1] == ('abbr.py', 'run') and _ABBR_POP.search(text):
        return 'F-C02-4'
    return None


KINDS = ['codepoints', 'soup', 'soup-ctrl', 'mutated', 'lines', 'long-run', 'deep', 'mixed', 'tiny', 'alternating', 'heading-html', 'md-in-html', 'code-options']
WEIGHTS = [12, 19, 7, 12, 10, 9, 9, 8, 9, 6, 10, 9, 12]
# short strings over single markup characters: one-character lines, one-character underlines, fences with broken attribute
# braces, empty labels — the inputs on which an index or a group of a regex is most easily out of range
TINY = list('*_`[]()<>&\\#-+=!.:|{}~^"\'/;1a \n\n\n\t') + ['```', '~~~', '    ', '[^', ']:', '[a]:', '*[', '!!!', '{:', '}}', '<!', '</', '<?', '&#', '--', ': ', '||', '[[', ']]',
                                                              '``` {', '```{.a} }', '~~~ {#i}}', '\n```', '\n: ', '\n===', '\n-', '\n=', '[TOC]', 'k:', '---\n', '0', '0. ', '00. ', '9. ', '10. ', '1.', '٣. ', '²', '0)']


def gen_case(rng):
    kind = rng.choices(KINDS, WEIGHTS)[0]
    fam = kind
    if kind == 'codepoints':
        text = F.codepoints(rng)
    elif kind == 'soup':
        text = G.soup(rng, G.alphabet(html=True, amp=True, ext=True), 1, rng.choice([8, 20, 60]))
    elif kind == 'soup-ctrl':
        text = G.soup(rng, G.alphabet(html=True, amp=True, ext=True, ctrl=True) + G.CTRL * 3, 1, 40)
    elif kind == 'mutated':
        text = G.mutated(rng, rng.choice([60, 200, 600]))
    elif kind == 'lines':
        text = G.lines_doc(rng, 1, rng.choice([4, 10, 25]))
        if rng.random() < 0.3:
            text = text.replace('\n', rng.choice(['\r\n', '\r', '\n\n']))
    elif kind == 'long-run':
        text, tok = F.long_run(rng); fam = 'long-run'
    elif kind == 'deep':
        text, sub = F.deep(rng); fam = 'deep:' + sub
    elif kind == 'tiny':
        text = ''.join(rng.choice(TINY) for _ in range(rng.randint(1, rng.choice([3, 5, 9]))))
    elif kind == 'alternating':
        text, fam = F.alternating(rng)
    elif kind == 'heading-html':
        text, fam = F.heading_html(rng)
    elif kind == 'md-in-html':
        text, fam = F.md_in_html_doc(rng)
    elif kind == 'code-options':
        text, fam = F.code_options(rng)
    else:
        parts = [rng.choice([lambda: G.soup(rng, G.alphabet(html=True, amp=True, ext=True, ctrl=True), 1, 12),
                             lambda: F.codepoints(rng, 1, 30), lambda: G.fragment(rng, 80),
                             lambda: G.lines_doc(rng, 1, 4), lambda: rng.choice(G.HTML + G.EXTTOK + G.AMP)])()
                 for _ in range(rng.randint(2, 5))]
        text = rng.choice(['', '\n', '\n\n', ' ']).join(parts)
    if rng.random() < 0.5:
        exts = G.ext_subset(rng)
    else:
        exts = sorted(e for e in G.EXTENSIONS if rng.random() < rng.choice([0.15, 0.5, 0.85]))
    # the families built around one extension get it in most of their cases (with any company), the bare subset otherwise
    if kind == 'heading-html' and rng.random() < 0.85:
        exts = sorted(set(exts) | {'toc'} | {e for e in F.TOC_FRIENDS if rng.random() < 0.25})
    elif kind == 'md-in-html' and rng.random() < 0.85:
        exts = sorted(set(exts) | {rng.choice(['md_in_html', 'md_in_html', 'extra'])})
    elif kind == 'code-options' and rng.random() < 0.85:
        exts = sorted(set(exts) | {rng.choice(['fenced_code', 'fenced_code', 'extra'])} | {e for e in ('codehilite', 'attr_list') if rng.random() < 0.5})
    fmt = rng.choice(['xhtml', 'html'])
    return text, exts, fmt, fam


def _violation(text, exts, fmt, status, detail, fam):
    fid = classify(text, exts, detail) if status == 'exception' else None
    if status == 'exception':
        obs = '%s: %s (raised in %s)' % (detail['type'], detail['msg'], ' > '.join('%s:%s' % w for w in detail['where'][-3:]))
    elif status == 'timeout':
        obs = 'timeout: no result after %.0f s of CPU time, twice' % CAP
    else:
        obs = 'returned a %s, not a str' % detail['type']
    return {'input': text, 'config': {'extensions': list(exts), 'output_format': fmt, 'family': fam}, 'observed': obs,
            'required': 'markdown.markdown returns a str (no exception, terminates)', 'finding': fid}


def search(driver, rng, n):
    viol = []; seen = set(); samples = []
    # max_seconds / slow_over_2s / max_cpu_by_family are CPU seconds of this process (time.process_time), not wall clock
    dist = {'kinds': {}, 'exceptions': {}, 'known': {}, 'timeouts_first': 0, 'wallclock_backstop': 0, 'max_seconds': 0.0, 'slow_over_2s': 0, 'max_cpu_by_family': {},
            'ext_count': {}, 'formats': {'html': 0, 'xhtml': 0}, 'len_max': 0, 'len_over_600': 0, 'blank': 0, 'no_timer': 0,
            'nonascii': 0, 'astral': 0}
    if threading.current_thread() is not threading.main_thread():
        dist['no_timer'] = 1
    confirmed_timeouts = 0
    done = 0
    for i in range(n):
        if confirmed_timeouts >= MAX_TIMEOUTS:
            # every further hit costs 2 x CAP seconds; the violations found are reported, the rest of the budget is counted, not run
            dist['not_run_after_%d_confirmed_timeouts' % MAX_TIMEOUTS] = n - i
            break
        done += 1
        text, exts, fmt, fam = gen_case(rng)
        k = fam.split(':')[0] if not fam.startswith(('deep', 'alternating')) else fam
        dist['kinds'][k] = dist['kinds'].get(k, 0) + 1
        dist['ext_count'][len(exts)] = dist['ext_count'].get(len(exts), 0) + 1
        dist['formats'][fmt] += 1
        dist['len_max'] = max(dist['len_max'], len(text))
        if len(text) > 600: dist['len_over_600'] += 1
        if not text.isascii(): dist['nonascii'] += 1
        if any(ord(c) > 0xffff for c in text): dist['astral'] += 1
        if text.strip(): seen.add((text, tuple(exts), fmt))
        else: dist['blank'] += 1
        status, detail, dt = run_one(text, exts, fmt)
        if status == 'timeout':
            dist['timeouts_first'] += 1
            status, detail, dt2 = run_one(text, exts, fmt)   # once more, alone
            dt = max(dt, dt2)
            if status == 'timeout': confirmed_timeouts += 1
        if status == 'wallclock':
            # infrastructure event (machine loaded/suspended): counted, never a violation
            dist['wallclock_backstop'] += 1
            continue
        dist['max_seconds'] = max(dist['max_seconds'], round(dt, 3))
        fk = fam.split(':')[0]
        if dt > dist['max_cpu_by_family'].get(fk, 0.0): dist['max_cpu_by_family'][fk] = round(dt, 3)
        if dt > 2: dist['slow_over_2s'] += 1
        if status != 'ok':
            v = _violation(text, exts, fmt, status, detail, fam)
            key = detail.get('type', status)
            dist['exceptions'][key] = dist['exceptions'].get(key, 0) + 1
            if v['finding']: dist['known'][v['finding']] = dist['known'].get(v['finding'], 0) + 1
            viol.append(v)
        if len(samples) < 6 and i % max(1, n // 6) == 0:
            samples.append({'text': text[:200], 'len': len(text), 'extensions': exts, 'output_format': fmt, 'family': fam, 'status': status})
    # keep the report small: at most 5 violations per (finding, exception type), shortest inputs first
    viol.sort(key=lambda v: len(v['input']))
    kept = []; per = {}
    for v in viol:
        key = (v['finding'], v['observed'].split(':')[0])
        per[key] = per.get(key, 0) + 1
        if per[key] <= 5: kept.append(v)
    dist['ext_count'] = {str(k): v for k, v in sorted(dist['ext_count'].items())}
    return {'cases': done, 'distinct': len(seen), 'violations': kept, 'samples': samples, 'dist': dist}


def replay(witness):
    status, detail, _ = run_one(_build(witness), witness.get('extensions', []), witness.get('output_format', 'xhtml'))
    return status not in ('ok', 'wallclock')


def replay_violation(v):
    c = v.get('config', {})
    status, detail, _ = run_one(v['input'], c.get('extensions', []), c.get('output_format', 'xhtml'))
    return status not in ('ok', 'wallclock')
