r"""C04 search oracle -- raw HTML passes through verbatim and unwrapped.

BLOCK half.  A raw block from gen/rawhtml.py (grammar 4.3) is put at the left margin (indent 0..3) of a document made of
gen/docs.py blocks: at the start, between paragraphs / headings / rules / code / quotes, after lists, at the end; preceded
by a blank line (or the start of the document, or -- indent 0 only -- glued directly under a paragraph / list / quote
line), its last line ends with the closing `>` (plus optional trailing spaces) and is followed by a blank line, by a
single newline + text, or by the end of input.  One or two raw blocks per document.
Required:  E = the block as written, after input normalisation (lines of spaces only -> empty; no tab/CR generated), from
its `<` on (the 0..3 spaces of indentation are not part of it); then
   * E occurs in the output exactly once,
   * at a line boundary on both sides (start of output or "\n" before; end of output or "\n" after),
   * not wrapped: the text before it (white space skipped) does not end with `<p>`, the text after it does not start
     with `</p>`.
Markdown inside being untouched is part of "verbatim".

Shapes that are "well-formed raw block" in the eyes of the code, found by experiment on the unchanged tree -- the generator
keeps to them:
   * elements `<tag attrs> content </tag>` for every name in BLOCK_LEVEL_ELEMENTS (case-insensitive), attributes bare /
     unquoted / "..." / '...' with line breaks, blank lines, `<`, `>` and Markdown inside quoted values, line breaks between
     attributes; end tag `</tag>` or `</tag >`; content: text lines, blank and whitespace-only lines, nested block elements
     (balanced, depth <= 3), inline elements, void `<hr>` / `<br>`, comments (which may contain tags), entities, bare `&` `<` `>`;
   * as CONTENT of an element, at every nesting depth: PIs, CDATA sections, DOCTYPE declarations and comments whose text contains start
     and end tags of the ENCLOSING elements and of other block elements (`<div>\n<?php echo "</div>"; ?>\n*x*\n</div>`,
     `<![CDATA[ a </div> b ]]>`); a PI / CDATA / declaration is consumed as one unit only when it STARTS a line (<= 3 spaces) -- it is
     generated only there (a comment is a unit anywhere); a declaration ends at its first `>`, so it carries exactly one tag;
   * `<script>` / `<style>` as the raw block itself, with tag-free content or with text that mentions start / end tags of block elements;
     NESTED as content of an open raw element at every depth, with text that mentions start and end tags of the ENCLOSING elements
     (`<div>\n<script>\ndocument.write("<p>*x*</p></div>");\n</script>\n*x*\n</div>`): inside a CDATA content element only its own end tag is
     markup, also when the element did not open the raw block; void `<hr ...>` / `<hr/>`;
   * content that is legal HTML but leaves out optional end tags or is not perfectly nested (`<li>one\n<li>two`, `<p>intro`, `<tr><td>a<td>b`,
     `<dt>t<dd>d`, `<span><em>u</span></em>`, void `<img>` / `<br>` / `<input>`), provided no unclosed name equals an enclosing element's name:
     the enclosing element still ends at its own end tag (the stack of open tags is unwound down to the matching name);
   * comments `<!-- ... -->` (multi-line, blank lines inside, close spelt exactly `-->`), PIs `<? ... ?>`, `<!DOCTYPE ...>` in any
     letter case, `<![CDATA[ ... ]]>`.
   NOT raw blocks for the code (not generated; not claimed by the property either): unknown / inline tag names at the left
   margin (stay paragraph text), declarations other than DOCTYPE (`<!ELEMENT x>` is a "bogus comment", stays text), text after
   the closing tag on its line (the "tail"), unbalanced nesting.
Known regions (tagged; generated only with small probability so that the tags stay exercised):
   F-C04-1  known: after a stray `&#` raw blocks are no longer extracted.  (No `&#` without digits+`;` is generated.)
   F-C04-2  NEW: two-phase parse (gen/htmlstate.py): after an incomplete construct the extractor reads positions from the wrong
            buffer: end tags re-spelt from unrelated text: '\n<a f="\n></c>\nbklzz>' -> `</c>` becomes `klzz>`.
   F-C04-3  NEW: a raw block indented 1..3 spaces DIRECTLY under a paragraph line (no blank line) is left inside that paragraph:
            'para\n  <div>\nx\n</div>' -> '<p>para\n<br />\n<div>...</div>\n</p>'   (indent 0 works).
   F-C04-4  NEW: a block start tag whose NAME is directly followed by a line break (`<div\nclass="x">`, `<div\n>`) is extracted
            verbatim but stays wrapped in `<p>`: RawHtmlPostprocessor.BLOCK_LEVEL_REGEX `^<\/?([^ >]+)` takes `div\nclass="x"` as
            the tag name.
   F-C04-5  NEW (inline): an inline tag with `>` inside a quoted attribute value (`<span title="a > b">`) is cut at that `>` by
            HTML_RE and the rest is escaped.

HISTORY mode (12 % of the cases; the per-instance `block_level_elements` list, core.py:116,302-313).  One instance first converts 1..2
warm-up documents (ordinary ones, ones with raw blocks, ones that already USE the tag under test; `reset()` between), possibly after
an earlier edit of its list; then the list is edited the ways user code does it -- append / insert / extend in place, remove in place,
or assignment of a new list -- adding a custom tag (`widget`, `x-card`, ...), adding an inline tag (`span`, `kbd`, ...), removing a
standard tag (`div`, `p`, `table`, ...), or taking an earlier addition back / re-adding a removed tag; then the raw-block document (whose
forced block uses that tag) is converted.  Required: the same output as a FRESH instance that gets the same edits before its first
conversion; and, when the tag is block-level at the end, the ordinary raw-block check for it.

INLINE half.  Inline elements / tags (`<span class="x">`, `<b>`, `<a href="u">`, `<kbd>`, `<br/>`, `<img ...>`, end tags) and entity
references (`&amp; &copy; &#169; &#xA9; &frac12;` ...; hexadecimal references with a lower-case `x`, the only spelling ENTITY_RE knows) are put
into ordinary text of paragraphs, ATX / Setext headings, tight / loose list items, quotes, between emphasis, inside emphasis
and link text.  Not inside code, link destinations, titles or image alt text, not right after a backslash, not at the very start of
a line (a comment there is a raw BLOCK), a comment never as the only content of its paragraph / list item (the `<p>` around a lone comment is
dropped by design); attribute values of inline tags contain no backtick, bracket, parenthesis, backslash or `!`
(link / code / escape syntax is recognised BEFORE inline HTML by design of the pattern order, so such a value is not protected).
White space inside a start tag is a regular shape: one or several spaces, a line break, a line break plus up to 3 spaces between the tag
name and the first attribute and between attributes (`<a\nhref="u">`, `<span\n  class="c">`, `<img\nsrc="s"\n/>`), a line break inside a
quoted value, spaces before `>`; flattened to one line in headings.  Not generated (the unchanged tree does not pass them through, by
block precedence / normalisation): a line break directly before the closing `>` (a `>` at a line start is a quote marker), 4 spaces of
continuation indentation inside list items (structural indentation), tabs.
Required: converting the document with the raw piece T and with the inert placebo word `§QZ§` in its place gives outputs that
differ exactly by that substitution:  out(T) == out(placebo).replace('§QZ§', T).  (The surrounding text is processed as if the
piece were an opaque word; the piece itself is unchanged.)
"""
import re
import markdown
from gen import docs2 as docs, rawhtml, htmlstate

NEEDS_DRIVER = False

FINDINGS = [
    {'id': 'F-C04-1', 'property': 'C04', 'status': 'open', 'what': 'after a stray &# (not a character reference, no ; later) raw blocks are not extracted',
     'witness': {'kind': 'block', 'doc': 'a &# b\n\n<div>*x*</div>', 'block': '<div>*x*</div>'}},
    {'id': 'F-C04-2', 'property': 'C04', 'status': 'open', 'what': 'two-phase parse: after an incomplete construct end tags are re-spelt from unrelated text',
     'witness': {'kind': 'inline', 'doc': '\n<a f="\n></c>\nbklzz>', 'doc_placebo': '\n<a f="\n>§QZ§\nbklzz>', 'piece': '</c>'}},
    {'id': 'F-C04-3', 'property': 'C04', 'status': 'open', 'what': 'raw block indented 1-3 spaces directly under a paragraph line stays inside the paragraph',
     'witness': {'kind': 'block', 'doc': 'para\n  <div>\nx\n</div>', 'block': '<div>\nx\n</div>'}},
    {'id': 'F-C04-4', 'property': 'C04', 'status': 'open', 'what': 'block start tag with a line break right after the tag name stays wrapped in <p>',
     'witness': {'kind': 'block', 'doc': 'a\n\n<div\nclass="x">\n*x*\n</div>\n\nb', 'block': '<div\nclass="x">\n*x*\n</div>'}},
    {'id': 'F-C04-5', 'property': 'C04', 'status': 'open', 'what': 'inline tag with > inside a quoted attribute value is cut at that >',
     'witness': {'kind': 'inline', 'doc': 'a <span title="a > b">*x*</span> b', 'doc_placebo': 'a §QZ§*x*</span> b', 'piece': '<span title="a > b">'}},
]

PLACEBO = '§QZ§'
_NAME_NL = re.compile(r'^<[A-Za-z][^\s>/]*\n')
_STRAY_AMPHASH = re.compile(r'&#(?![0-9]+;|[xX][0-9a-fA-F]+;)')


def normalise(block):
    return '\n'.join(l if l.strip(' ') else '' for l in block.split('\n'))


# ---------------------------------------------------------------- block half
def check_block(out, E):
    """-> None if fine, else a short description"""
    n = out.count(E)
    if n != 1: return 'occurs %d times' % n
    p = out.index(E); q = p + len(E)
    if not (p == 0 or out[p - 1] == '\n'): return 'not preceded by a line boundary'
    if not (q == len(out) or out[q] == '\n'): return 'not followed by a line boundary'
    if out[:p].rstrip().endswith('<p>') or out[q:].lstrip().startswith('</p>'): return 'wrapped in <p>'
    return None


def gen_block_case(rng, raws=None, html=None):
    html_around = rng.random() < 0.3
    if html is not None: html_around = html
    opt = docs.Opt(code=True, html=html_around)
    nraw = rng.choice([1, 1, 1, 2])
    raws = [(k, t, True) for k, t in (raws or [])]          # given by the caller ("forced")
    while len(raws) < nraw:
        kind, text = rawhtml.raw_block(rng)
        raws.append((kind, text, False))
    nraw = len(raws)
    if nraw == 2 and (raws[0][1] in raws[1][1] or raws[1][1] in raws[0][1]): raws = raws[:1]
    ctx = docs.blocks(rng, rng.choice([0, 1, 1, 2, 2, 3, 4]), opt)
    # positions for the raw blocks among the context blocks
    seq = [('md', k, t) for k, t in ctx]
    forced = set(t for k, t, f in raws if f)
    for kind, text, _f in raws:
        seq.insert(rng.randint(0, len(seq)), ('raw', kind, text))
    src = ''; labels = []; blocks = []; region = None
    for i, (what, kind, text) in enumerate(seq):
        if what == 'md':
            if i:
                prev_raw = seq[i - 1][0] == 'raw'
                # after a raw block: blank line(s), or a single newline (the code inserts the blank line itself)
                src += '\n' if (prev_raw and rng.random() < 0.15) else rng.choice(['\n\n', '\n\n', '\n\n\n'])
            src += text
            continue
        indent = rng.choice([0, 0, 0, 1, 2, 3])
        glued = False
        if i:
            prev = seq[i - 1]
            can_glue = prev[0] == 'md' and prev[1] in ('para', 'ulist', 'olist', 'quote', 'atx') or prev[0] == 'raw'
            if can_glue and rng.random() < 0.12:
                glued = True
                if indent and prev[0] == 'md' and prev[1] != 'atx' and rng.random() < 0.8: indent = 0      # F-C04-3: mostly avoided
                src += '\n'
            else:
                src += rng.choice(['\n\n', '\n\n', '\n\n\n', '\n \n'])
        if _NAME_NL.match(text) and rng.random() < 0.95:              # F-C04-4: mostly avoided
            text = re.sub(r'^(<[A-Za-z][^\s>/]*)\n', r'\1 ', text)
        is_forced = seq[i][2] in forced
        prevkind = (seq[i - 1][1] if seq[i - 1][0] == 'md' else 'raw') if i else 'start'
        src += ' ' * indent + text + rng.choice(['', '', '', ' ', '  '])
        blocks.append({'text': text, 'kind': kind, 'indent': indent, 'glued': glued, 'after': prevkind,
                       'last': i == len(seq) - 1, 'forced': is_forced})
        labels.append('%s/after-%s%s' % (kind, prevkind, '/glued' if glued else ''))
    without = '\n\n'.join(text for what, kind, text in seq if what == 'md')
    return {'kind': 'block', 'doc': src, 'doc_without': without, 'blocks': blocks, 'labels': labels}


# ---------------------------------------------------------------- history mode (per-instance block-level element list)
CUSTOM_TAGS = ['widget', 'x-card', 'mytag', 'app-root', 'w1', 'gizmo', 'o-k']
INLINE_AS_BLOCK = ['span', 'kbd', 'b', 'em', 'a', 'u']
REMOVABLE = ['div', 'p', 'section', 'table', 'pre', 'details', 'aside', 'ul', 'h2', 'blockquote', 'article']


def apply_op(md, op):
    """the ways user code edits the per-instance list: in place (append / insert / extend / remove) or by assigning a new list"""
    how, tag = op
    L = md.block_level_elements
    if how == 'append': L.append(tag)
    elif how == 'insert0': L.insert(0, tag)
    elif how == 'extend': L.extend([tag, tag + 'x'])
    elif how == 'assign+': md.block_level_elements = list(L) + [tag]
    elif how == 'remove':
        while tag in L: L.remove(tag)
    elif how == 'assign-': md.block_level_elements = [t for t in L if t != tag]


def gen_history_case(rng):
    """One instance converts 1..2 documents (reset between), possibly after an earlier edit of its list; then the list is edited
    (a custom tag or an inline tag added, a standard tag removed, an earlier addition taken back); then the raw-block document is
    converted.  Compared with a FRESH instance that gets the same edits before its first conversion; if the tag under test is
    block-level at the end, the ordinary raw-block check runs as well."""
    mode = rng.choice(['add-custom', 'add-custom', 'add-inline', 'remove-std', 'add-then-remove', 'remove-then-add'])
    if mode == 'add-custom': tag = rng.choice(CUSTOM_TAGS)
    elif mode == 'add-inline': tag = rng.choice(INLINE_AS_BLOCK)
    elif mode in ('remove-std', 'remove-then-add'): tag = rng.choice(REMOVABLE)
    else: tag = rng.choice(CUSTOM_TAGS + INLINE_AS_BLOCK)
    add = lambda: (rng.choice(['append', 'append', 'insert0', 'extend', 'assign+']), tag)
    rem = lambda: (rng.choice(['remove', 'remove', 'assign-']), tag)
    final_block = mode in ('add-custom', 'add-inline', 'remove-then-add')
    elem = rawhtml.element(rng, 1, 3, tag=tag)
    # an inline tag that becomes block-level: the Markdown around must not use it unbalanced (`<span class="c">` alone at a line start
    # would then open a raw block that runs to the end of input) -> no inline HTML in the surroundings for that mode
    case = gen_block_case(rng, raws=[('elem', elem)], html=False if tag in INLINE_AS_BLOCK else None)
    # warm-up documents: ordinary ones, documents with raw blocks, and -- so that any per-tag memo is filled with the OLD answer --
    # documents that already use the tag under test
    def warm():
        k = rng.random()
        if k < 0.4: return gen_block_case(rng, raws=[('elem', rawhtml.element(rng, 1, 2, tag=tag))])['doc']
        if k < 0.7: return gen_block_case(rng)['doc']
        return docs.doc(rng, rng.choice([1, 2, 3]), docs.Opt(code=True, html=rng.random() < 0.3))
    steps = []
    if mode == 'add-then-remove': steps.append(['op'] + list(add()))
    if mode == 'remove-then-add': steps.append(['op'] + list(rem()))
    for _ in range(rng.choice([1, 1, 2])): steps.append(['convert', warm()])
    if mode in ('add-custom', 'add-inline', 'remove-then-add'): steps.append(['op'] + list(add()))
    else: steps.append(['op'] + list(rem()))
    if rng.random() < 0.25:                                   # an unrelated edit after it
        steps.append(['op', 'append', 'zz-other'])
    case['history'] = {'mode': mode, 'tag': tag, 'steps': steps, 'final_block': final_block}
    case['labels'] = ['history/' + mode] + (case['labels'] if final_block else [])
    if not final_block: case['blocks'] = []      # the tag is not block-level at the end: only the comparison with the fresh instance (an inline
    #                                              element in front of / around the other raw block of the document changes what that one is)
    return case


def run_history(case):
    """-> (output of the instance with the history, output of the fresh instance)"""
    h = case['history']
    mdh, mdf = markdown.Markdown(), markdown.Markdown()
    for st in h['steps']:
        if st[0] == 'convert': mdh.convert(st[1]); mdh.reset()
        else: apply_op(mdh, (st[1], st[2])); apply_op(mdf, (st[1], st[2]))
    return mdh.convert(case['doc']), mdf.convert(case['doc'])


def block_region(case, b, md_probe):
    """narrow predicates of the known regions for a failing block b of the document"""
    doc = case['doc']
    if _STRAY_AMPHASH.search(doc): return 'F-C04-1'
    if b['glued'] and b['indent'] and b['after'] in ('para', 'ulist', 'olist', 'quote'): return 'F-C04-3'
    if _NAME_NL.match(b['text']): return 'F-C04-4'
    if htmlstate.two_phase(md_probe, doc): return 'F-C04-2'
    return None


# ---------------------------------------------------------------- inline half
ENTS = ['&amp;', '&copy;', '&#169;', '&#xA9;', '&lt;', '&gt;', '&quot;', '&nbsp;', '&#38;', '&#x26;', '&eacute;', '&frac12;']
TEXT_NEIGH = ['foo', 'bar', 'a b', '*e*', '**s**', '_u_', '__t__', '*', '_', '[l](/u)', '![i](/s)', '\\*', '!', '.', ',', 'é', '1 < 2', 'a & b', 'x > y']


def inline_piece(rng):
    k = rng.random()
    if k < 0.3: return 'entity', rng.choice(ENTS)
    if k < 0.45:
        t = rng.choice(rawhtml.INLINE_TAGS[:-1])
        return 'endtag', '</' + t + rng.choice(['', '', ' ']) + '>'
    if k < 0.55: return 'void', rng.choice(['<br>', '<br/>', '<br />', '<img src="s.png" alt="*a*">', '<img src=s />', '<wbr>', '<br\n/>', '<img\nsrc="s.png"\n  alt="*a*">',
                                            '<img   src=s\n/>', '<img\n  src="s"  alt="a" />'])
    if k < 0.62: return 'comment', rng.choice(['<!-- c -->', '<!--c-->', '<!-- *x* -->'])
    t = rng.choice(rawhtml.INLINE_TAGS[:-1])
    a = ''
    for _ in range(rng.choice([0, 0, 1, 1, 2])):
        at = rawhtml.attr(rng).replace('\n\n', '\n')            # a line break inside a quoted value is kept (a blank line would end the paragraph)
        # link / code / escape syntax inside an attribute value of an INLINE tag is processed before the tag is recognised
        # (pattern order: backtick, escape, links, then inline HTML) -- not "ordinary text", excluded
        at = re.sub(r'[`\[\]()\\!]', '', at)
        if rng.random() < 0.97: at = at.replace('>', ')').replace('<', '(')        # F-C04-5: mostly avoided
        # white space between tag name and attributes / between attributes: one or several spaces, a line break, a line break plus
        # indentation (`<a\nhref="u">`, `<span\n  class="c">`) -- all passed through unchanged by the unchanged tree.  NOT before the closing
        # `>`: a `>` at the start of a line is a block-quote marker (block precedence); no tab (input normalisation expands it)
        # (continuation lines indented by at most 3 spaces: 4 spaces inside a list item are the item's structural indentation and are removed)
        a += rng.choice([' ', ' ', '  ', '   ', '\n', '\n', '\n  ', '\n   ', ' \n']) + at
    return 'starttag', '<' + (t if rng.random() < 0.9 else t.upper()) + a + rng.choice(['', '', ' ', '  ']) + '>'


def gen_inline_case(rng):
    kind, T = inline_piece(rng)
    pre = ' '.join(rng.choice(TEXT_NEIGH) for _ in range(rng.randint(0, 3)))
    post = ' '.join(rng.choice(TEXT_NEIGH) for _ in range(rng.randint(0, 3)))
    while pre.endswith('\\') or pre.endswith('!'): pre = pre[:-1]      # `\<` is an escape, `![..](..)` an image (alt text is not ordinary text)
    glue_l = rng.choice([' ', ' ', '']) if pre else ''
    glue_r = rng.choice([' ', ' ', '']) if post else ''
    wrap = rng.choice(['none'] * 5 + ['em', 'strong', 'em_', 'link', 'em-around'])
    ctx = rng.choice(['para', 'para', 'para2', 'atx', 'setext', 'li', 'li', 'li_loose', 'li_para', 'quote', 'quote_li', 'li_nested'])
    if ctx in ('atx', 'setext') and kind == 'comment' and not pre: pre = 'w'
    if ctx in ('atx', 'setext'): T = re.sub(r' *\n *', ' ', T)          # headings are one line
    lvl = rng.randint(1, 6)
    marker = rng.choice(['- ', '* ', '+ ', '1. ', '12. '])
    opt = docs.Opt(code=True, html=rng.random() < 0.3)
    before = docs.blocks(rng, rng.choice([0, 0, 1, 2]), opt)
    after = docs.blocks(rng, rng.choice([0, 0, 1, 2]), opt)
    if before and before[-1][0] in ('ulist', 'olist', 'quote', 'code'): before.append(('para', 'sep'))
    if after and after[0][0] in ('code',): after.insert(0, ('para', 'sep2'))
    # a comment / tag at the very start of a line may be taken as a raw BLOCK (comments are block-level): keep it off the margin
    lead = kind  # decided on the real piece, applied to both documents

    def frame(x):
        core = x
        # a comment that is the ONLY content of its paragraph / list item is block-level for the code (RawHtmlPostprocessor drops the <p> around
        # a lone comment or PI, also when it was stashed by the inline pattern: `* <!--c-->` in a loose list): that is the "not wrapped" half of
        # the statement, not "inside ordinary text" -> a comment always gets a word next to it (piece and placebo alike)
        if kind == 'comment': x = core = 'c0 ' + x
        if wrap == 'em': core = '*' + x + ' e*'
        elif wrap == 'strong': core = '**s ' + x + '**'
        elif wrap == 'em_': core = '_u ' + x + ' u_'
        elif wrap == 'link': core = '[t ' + x + ' t](/u "ti")'
        elif wrap == 'em-around': core = '*a* ' + x + ' *c*'
        t = pre + glue_l + core + glue_r + post
        if not (pre + glue_l).strip() and wrap in ('none', 'em-around') or wrap == 'none' and not pre: t = 'w ' + t
        if ctx == 'para': b = t
        elif ctx == 'para2': b = 'first line\n' + t + '\nlast'
        elif ctx == 'atx': b = '#' * lvl + ' ' + t
        elif ctx == 'setext': b = t + '\n' + '='
        elif ctx == 'li': b = marker + 'one\n' + marker + t + '\n' + marker + 'three'
        elif ctx == 'li_loose': b = marker + 'one\n\n' + marker + t + '\n\n    more'
        elif ctx == 'li_para': b = marker + 'one\n\n    ' + t + '\n\n' + marker + 'two'
        elif ctx == 'li_nested': b = marker + 'one\n    ' + marker + t
        elif ctx == 'quote': b = '> ' + t
        else: b = '> ' + marker + t
        return docs.join(before + [('x', b)] + after)
    return {'kind': 'inline', 'doc': frame(T), 'doc_placebo': frame(PLACEBO), 'piece': T, 'labels': ['inline/%s/%s/%s' % (kind, ctx, wrap)]}


def inline_region(case, md_probe):
    doc = case['doc']
    if _STRAY_AMPHASH.search(doc): return 'F-C04-1'
    if re.search(r'[<>]', case['piece'][1:-1]): return 'F-C04-5'
    if htmlstate.two_phase(md_probe, doc): return 'F-C04-2'
    return None


# ---------------------------------------------------------------- evaluation
def evaluate(case, md=None, md_probe=None):
    """-> list of violation dicts (empty = fine) or None for a skip"""
    md = md or markdown.Markdown()
    md_probe = md_probe or markdown.Markdown()
    v = []
    try:
        if case.get('history'):
            out, out_fresh = run_history(case)
            if out != out_fresh:
                h = case['history']
                return [{'input': case, 'config': {'block_level_elements': '%s: %s' % (h['mode'], h['tag'])}, 'observed': 'instance with history: ' + repr(out),
                         'required': 'as a fresh instance with the same block_level_elements: ' + repr(out_fresh), 'finding': None}]
            md = markdown.Markdown()
            for st in case['history']['steps']:
                if st[0] == 'op': apply_op(md, (st[1], st[2]))
        else:
            out = md.reset().convert(case['doc'])
        if case['kind'] == 'inline': out0 = md.reset().convert(case['doc_placebo'])
    except RecursionError:
        return 'recursion'
    if case['kind'] == 'block':
        for b in case['blocks']:
            E = normalise(b['text'])
            why = check_block(out, E)
            if why and why.startswith('occurs') and out.count(E) > 1 and case.get('doc_without') is not None:
                # the same text can also be what MARKDOWN renders (`<h3></h3>` for `###`, `<blockquote>\n</blockquote>` for `>`): then the
                # occurrences cannot be told apart -> not evaluated
                n_ctx = md.reset().convert(case['doc_without']).count(E)
                if n_ctx and out.count(E) == 1 + n_ctx: return None
            if why:
                v.append({'input': case, 'config': {}, 'observed': why + ': ' + repr(out), 'required': 'exactly once, at line boundaries, unwrapped: ' + repr(E),
                          'finding': block_region(case, b, md_probe)})
                break
    else:
        want = out0.replace(PLACEBO, case['piece'])
        if out0.count(PLACEBO) != 1: return None
        if out != want:
            v.append({'input': case, 'config': {}, 'observed': repr(out), 'required': repr(want), 'finding': inline_region(case, md_probe)})
    return v


def _exc_violation(e, inp, config, text):
    """an unexpected exception is reported as a violation (the property cannot hold for an input that does not convert); nothing is
    tagged: the `<![` assertion F-C02-1 is repaired, a recurrence is an ordinary violation"""
    known = None
    return {'input': inp, 'config': config, 'observed': 'raised ' + repr(e), 'required': 'a conversion result', 'finding': known}


def search(driver, rng, n):
    """distinct / non-trivial: distinct raw blocks with at least one attribute or some content (block half), distinct
    (piece, context, wrapper) triples (inline half); measured with a set."""
    md, md_probe = markdown.Markdown(), markdown.Markdown()
    dist = {}
    def bump(k): dist[k] = dist.get(k, 0) + 1
    viol, samples, seen, cases = [], [], set(), 0
    for _ in range(n):
        k = rng.random()
        case = gen_history_case(rng) if k < 0.12 else gen_block_case(rng) if k < 0.68 else gen_inline_case(rng)
        cases += 1
        for l in case['labels']: bump('inline' if case['kind'] == 'inline' else l)
        if case['kind'] == 'inline':
            parts = case['labels'][0].split('/'); bump('inline-kind:' + parts[1]); bump('inline-ctx:' + parts[2]); bump('inline-wrap:' + parts[3])
        try:
            r = evaluate(case, md, md_probe)
        except Exception as e:
            md, md_probe = markdown.Markdown(), markdown.Markdown(); bump('exception:' + type(e).__name__)
            viol.append(_exc_violation(e, case, {}, case['doc'])); continue
        if r == 'recursion':            # F-C11-1: a raised conversion leaves parser state behind -> fresh instance
            md = markdown.Markdown(); bump('skip:recursion'); continue
        if r is None: bump('skip:placebo-missing'); continue
        if case['kind'] == 'block':
            for b in case['blocks']:
                bump('indent:%d' % b['indent'])
                if '\n\n' in normalise(b['text']): bump('blank-line-inside')
                if len(b['text']) > 12: seen.add(b['text'])
        else:
            seen.add((case['piece'], case['labels'][0]))
        for x in r:
            if x['finding']: bump('known:' + x['finding'])
            viol.append(x)
        if not r and len(samples) < 4 and rng.random() < 0.01: samples.append({'doc': case['doc'], 'labels': case['labels']})
    return {'cases': cases, 'distinct': len(seen), 'violations': viol, 'samples': samples, 'dist': dist}


def replay(witness):
    md = markdown.Markdown()
    if witness['kind'] == 'block':
        return check_block(md.convert(witness['doc']), normalise(witness['block'])) is not None
    out0 = md.convert(witness['doc_placebo']); out = md.reset().convert(witness['doc'])
    return out != out0.replace(PLACEBO, witness['piece'])


def replay_violation(v):
    try:
        r = evaluate(v['input'])
    except Exception:
        return True
    return bool(r) and r != 'recursion'
