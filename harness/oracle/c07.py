"""C07 search oracle — a backslash-escaped character is always that literal character.

Two relations are evaluated on the real converter, for the core and for the extensions that extend the escapable set
(tables: `|`; smarty: `"` and `'`); the escapable set is read from `Markdown(extensions=S).ESCAPED_CHARS` of a fresh
instance; the characters the statement enumerates (core) and those the quantifier names for tables and smarty must be in it
(STATED_*), anything the code adds on top is tested as well:

 (all)    t in Domain  ==>  convert(escAll(t)) == '<p>' + cdata(t) + '</p>'
          escAll puts a backslash before every escapable character of t; cdata escapes `>` (no `<`/`&` in the domain).
 (single) pre + '\\' + c + post, pre/post inert (letters, single inner spaces), c escapable, in a paragraph and inside a
          heading / list item / block quote / emphasis / strong: the character renders as c and the construct is intact.
          Also inside real markup: link / image title, link text, image alt text, directly after a hard line break, in front of and
          inside a reference link that has a definition; with tables: in a body / header cell directly in front of the column separator, and in
          a row of a would-be ONE-COLUMN table (border pipe on the right or on the left; last row, middle row, header row): a row whose only
          pipe is escaped (`b \\|`) has no border pipe, so the block is a paragraph in which the escaped character is literal.
 (options) both relations also with the documented boolean options of the two extensions at their NON-default value (OPTION_CONFIGS: smarty
          smart_quotes / smart_dashes / smart_ellipses = False, smart_angled_quotes = True, all four at once; tables use_align_attribute = True):
          which substitutions an extension performs does not change which characters it makes escapable (short exhaustive strings, every
          single-escape context with 4 of the 10 shapes, a share of the random texts; late registration WITH options in history mode).
 (long)   (all) on ONE text with more than 10 000 escaped characters in a single paragraph (`long_text()`, deterministic): the inline
          stash is numbered per document and its ids outgrow four digits.

Domain (from the property's quantifier; the last two lines are the reading fixed in DESIGN 5/C07): characters are
escapables, other punctuation, letters, digits, space, line break — no `<`, no `&`, no tab/control character (tabs are
expanded, not kept); no blank or whitespace-only line; no line starts with white space (leading indentation); no line
of the form `=+ *` (Setext underline, not escapable); no line ends with two or more spaces before a line break (hard
break: documented meaning, not escapable); the text neither starts nor ends with white space (the output is stripped;
inner and line-final single spaces are kept and compared).

History mode (the escapable list is PER INSTANCE and may change during its life): one instance, 1-3 conversions (texts
with backslashes, `reset()` before each), then the escapable set is extended late — `md.registerExtensions(['tables'|'smarty'],
{})` or `md.ESCAPED_CHARS.append(c)` — then (all) and (single) are evaluated on that instance against its CURRENT
`md.ESCAPED_CHARS` (plus the characters stated for the extensions registered so far).

distinct / non-trivial: distinct (extensions, t) of the domain that contain at least one escapable character."""
import itertools
import json
import re

import markdown
from gen import common as G

NEEDS_DRIVER = False
MULT = 4
FINDINGS = []          # no known finding for C07
CONFIGS = [[], ['tables'], ['smarty'], ['smarty', 'tables']]
# the same extensions with their documented boolean options set to the NON-default value (smarty: smart_quotes / smart_dashes /
# smart_ellipses default True, smart_angled_quotes default False; tables: use_align_attribute default False): the escapable set an
# extension adds does not depend on which of its substitutions are switched on (`\"` is a literal `"` also with smart_quotes off)
OPTION_CONFIGS = [(['smarty'], {'smarty': {'smart_quotes': False}}),
                  (['smarty'], {'smarty': {'smart_dashes': False}}),
                  (['smarty'], {'smarty': {'smart_ellipses': False}}),
                  (['smarty'], {'smarty': {'smart_angled_quotes': True}}),
                  (['smarty'], {'smarty': {'smart_quotes': False, 'smart_dashes': False, 'smart_ellipses': False, 'smart_angled_quotes': True}}),
                  (['tables'], {'tables': {'use_align_attribute': True}}),
                  (['smarty', 'tables'], {'smarty': {'smart_quotes': False}, 'tables': {'use_align_attribute': True}})]
LATE_OPTIONS = {'smarty': [{'smart_quotes': False}, {'smart_dashes': False, 'smart_ellipses': False}, {'smart_angled_quotes': True},
                           {'smart_quotes': False, 'smart_angled_quotes': True}],
                'tables': [{'use_align_attribute': True}]}
# what the statement itself enumerates (core) and what the quantifier names for the two extensions: these characters
# MUST be escapable; a character the running code adds on top is tested too (the set used is the union)
STATED_CORE = list('\\`*_{}[]()>#+-.!')
STATED_EXT = {'tables': ['|'], 'smarty': ['"', "'"]}
OTHER_SMALL = ['a', ' ', '\n', '=', '"', '|', '1', ':']
OTHER = ['a', 'b', 'Z', 'é', '1', '0', ' ', ' ', ' ', '\n', '\n', '=', '~', ':', '"', "'", '|', ';', '/', '^', '@', '$', '%', ',', '?', '«', '—']
_SETEXT = re.compile(r'=+[ ]*')


def esc_all(t, esc):
    return ''.join('\\' + c if c in esc else c for c in t)


def cdata(t):
    return t.replace('>', '&gt;')


def in_domain(t):
    if not t or t != t.strip() or '<' in t or '&' in t or '  \n' in t:
        return False
    for c in t:
        if c != '\n' and (ord(c) < 32 or ord(c) == 127 or c in '\x85  '):
            return False
    for ln in t.split('\n'):
        if not ln.strip() or ln[0] in ' \t' or _SETEXT.fullmatch(ln):
            return False
    return True


def repair(t):
    """nearest text of the domain (used by the random generator so that few draws are wasted)"""
    t = t.replace('<', '(').replace('&', '+').replace('\t', ' ')
    t = ''.join(c for c in t if c == '\n' or not (ord(c) < 32 or ord(c) == 127 or c in '\x85  '))
    out = []
    for ln in t.split('\n'):
        ln = ln.lstrip(' ')
        if not ln.strip(): continue
        if _SETEXT.fullmatch(ln): ln = ln.rstrip(' ') + '.'
        if ln.endswith('  '): ln = ln.rstrip(' ') + ' '
        out.append(ln)
    return '\n'.join(out).strip()


SNIPPETS = ['# heading', '## h ##', '- item', '* item', '+ item', '1. item', '12. x', '> quote', '> > q', '*em*', '**strong**', '***both***', '_em_', '__strong__',
            '`code`', '``co`de``', '[a](b)', '[a](b "t")', '![alt](src)', "![a](s 't')", '[a][b]', '[a]', '[a]: /url', '[a]: /url "T"', '***', '---', '___', '* * *', '- - -',
            'a\n---', 'a\n===', 'a\n= =', '=a', '==', '= a', 'a =', '\\', '\\\\', '\\\\\\', 'a\\', '\\a', '`', '``', '` `', '\\`', '\\\\`', '\\\\`a`', '`\\`', '{#id}', '{: .c }',
            '(paren)', '!bang', 'a.b', 'a-b', 'a_b_c', 'a*b*c', 'snake_case_word', '2 * 3 * 4', '1.', '1)', '#', '#a', '+1', '-1', '>', '>a', '!', '![', '](', ')',
            '| a | b |\n|---|---|\n| c | d |', 'a | b\n- | -\nc | d', '|', '||', 'a|b', '|-|', '"quoted"', "'single'", "it's", '"', "'", "''", '""', '``q\'\'', '--', '---',
            '...', '. . .', ">>", '>> a', "'80s", '"\'a\'"', 'a -- b', 'a --- b', 'a...', '~~~', '```', '``` py', ': def', 'term\n: def', '[^1]', '[^1]: fn', '*[A]: B',
            '!!! note', '[[wiki]]', '[TOC]', 'k: v', 'http://a.b/c_d_e', 'a@b.c', 'a  b', 'a \nb', 'a\\\nb']


def rand_text(rng, esc):
    r = rng.random()
    if r < 0.35:
        alpha = list(esc) * 2 + OTHER
        t = ''.join(rng.choice(alpha) for _ in range(rng.randint(4, rng.choice([8, 20, 60]))))
    elif r < 0.75:
        parts = [rng.choice(SNIPPETS) if rng.random() < 0.7 else rng.choice(list(esc) + OTHER) for _ in range(rng.randint(1, 6))]
        t = ''.join(p + rng.choice(['', ' ', ' ', '\n', '\n']) for p in parts)
    elif r < 0.9:
        t = G.fragment(rng, 120).replace('\n\n', '\n')
    else:
        t = G.soup(rng, [x for x in G.MARKUP + G.WORDS + [' ', ' ', '\n'] + G.EXTTOK if '<' not in x and '\t' not in x], 1, 14)
    return repair(t)


def exhaustive(esc, L, must=None):
    alpha = list(esc) + [c for c in OTHER_SMALL if c not in esc]
    if must: alpha = alpha + [c for c in must if c not in alpha]
    for n in range(1, L + 1):
        for tup in itertools.product(alpha, repeat=n):
            if must and n == L and not any(c in must for c in tup):
                continue
            t = ''.join(tup)
            if in_domain(t):
                yield t


# single escape: (name, template for the source, template for the expected output); X is replaced
CONTEXTS = [('para', 'X', '<p>X</p>'), ('h1', '# X', '<h1>X</h1>'), ('h3-closed', '### X ###', '<h3>X</h3>'), ('setext', 'X\n---', '<h2>X</h2>'),
            ('quote', '> X', '<blockquote>\n<p>X</p>\n</blockquote>'), ('ul', '- X', '<ul>\n<li>X</li>\n</ul>'), ('ol', '1. X', '<ol>\n<li>X</li>\n</ol>'),
            ('em', '*X*', '<p><em>X</em></p>'), ('strong', '**X**', '<p><strong>X</strong></p>'), ('em_', '_X_', '<p><em>X</em></p>'),
            ('second-para', 'lead\n\nX', '<p>lead</p>\n<p>X</p>')]
# contexts in which the escaped character sits inside real markup (still the first sentence of the statement: it renders as that literal
# character and the construct around it is intact): link / image titles, link text, image alt text (attribute values: `"` is written
# &quot;), directly after a hard line break, in front of / inside a reference link that has a definition
CONTEXTS += [('title', '[t](/u "X")', '<p><a href="/u" title="X">t</a></p>', 'attr'),
             ('img-title', '![a](/s "X")', '<p><img alt="a" src="/s" title="X" /></p>', 'attr'),
             ('link-text', '[X](/u)', '<p><a href="/u">X</a></p>'),
             ('img-alt', '![X](/s)', '<p><img alt="X" src="/s" /></p>', 'attr'),
             ('after-hardbreak', 'lead  \nX', '<p>lead<br />\nX</p>'),
             ('before-reflink', 'X[a][id]\n\n[id]: /u', '<p>X<a href="/u">a</a></p>'),
             ('glued-before-ref', 'Xtext][id]\n\n[id]: /u', '<p>Xtext]<a href="/u">id</a></p>'),
             ('reflink-text', '[a X b][id]\n\n[id]: /u', '<p><a href="/u">a X b</a></p>')]
_TABLE = '<table>\n<thead>\n<tr>\n<th>%s</th>\n<th>%s</th>\n</tr>\n</thead>\n<tbody>\n<tr>\n<td>%s</td>\n<td>%s</td>\n</tr>\n</tbody>\n</table>'
# with the tables extension: the character in a body / header cell, directly in front of the column separator (cells are stripped: 'strip')
CONTEXTS_EXT = {'tables': [('table-cell', 'h1 | h2\n--- | ---\nX| b', _TABLE % ('h1', 'h2', 'X', 'b'), 'strip'),
                           ('table-head', 'X| h2\n--- | ---\na | b', _TABLE % ('X', 'h2', 'a', 'b'), 'strip'),
                           # one-column tables: EVERY row needs a real border pipe.  A row whose only pipe is escaped (`b \\|`, `\\| b`) -- or that
                           # has no pipe at all -- has none, so the block is no table but a paragraph in which the escaped character is literal;
                           # the row is the last one, a middle one, or the header; border on the right or on the left
                           ('table-1col-last', 'h |\n- |\nX', '<p>h |\n- |\nX</p>'),
                           ('table-1col-last-l', '| h\n| -\nX', '<p>| h\n| -\nX</p>'),
                           ('table-1col-mid', 'h |\n- |\nX\nr2 |', '<p>h |\n- |\nX\nr2 |</p>'),
                           ('table-1col-mid-l', '| h\n| -\n| r1\nX\n| r3', '<p>| h\n| -\n| r1\nX\n| r3</p>'),
                           ('table-1col-head', 'X\n- |\nb |', '<p>X\n- |\nb |</p>'),
                           ('table-1col-head-l', 'X\n| -\n| b', '<p>X\n| -\n| b</p>')]}
ONE_LINE = ('h1', 'h3-closed', 'setext', 'quote', 'ul', 'ol', 'title', 'img-title', 'img-alt', 'table-cell', 'table-head')
SHAPES = [('', ''), ('foo ', ' bar'), ('foo', 'bar'), ('foo ', ''), ('', ' bar'), ('foo', ''), ('', 'bar'), ('foo\n', ' bar'), ('foo bar\nbaz ', '\nqux'), ('fo o', 'b ar')]


def single_cases(esc, rng=None, k=None, exts=(), shapes=None):
    """(context, source X, rendered X) — all of them, or k random ones"""
    ctxs = CONTEXTS + [c for e in exts for c in CONTEXTS_EXT.get(e, [])]
    allc = [(ctx, pre, c, post) for ctx in ctxs for (pre, post) in (shapes or SHAPES) for c in esc]
    if k is not None and rng is not None:
        allc = [rng.choice(allc) for _ in range(k)]
    for ctx, pre, c, post in allc:
        if not single_ok_domain(ctx, pre, post):
            continue
        yield ctx, pre + '\\' + c + post, pre + c + post


def single_ok_domain(ctx, pre, post):
    """the contexts where start/end matter: emphasis delimiters need a non-space neighbour; headings strip; setext body is one line"""
    name = ctx[0]
    if name in ONE_LINE and '\n' in pre + post:
        return False
    return True


def long_text(lines=400):
    ln = 'ab ' + ''.join(STATED_CORE) + ' cd ' + ''.join(STATED_CORE[:10])
    return '\n'.join([ln] * lines)


class Conv:
    def __init__(self, exts, cfg=None):
        self.exts = list(exts); self.cfg = cfg or {}
        self.md = markdown.Markdown(extensions=self.exts, extension_configs=self.cfg)
        self.read = list(markdown.Markdown(extensions=self.exts, extension_configs=self.cfg).ESCAPED_CHARS)
        self.stated = STATED_CORE + [c for e in self.exts for c in STATED_EXT.get(e, [])]
        self.esc = self.read + [c for c in self.stated if c not in self.read]
        self.missing = [c for c in self.stated if c not in self.read]
        self.key = ('+'.join(self.exts) or 'core') + (''.join('/%s.%s=%s' % (e, k, v) for e, d in sorted(self.cfg.items()) for k, v in sorted(d.items())))

    def config(self, **kw):
        d = {'extensions': self.exts}
        if self.cfg: d['extension_configs'] = self.cfg
        d.update(kw)
        return d

    def __call__(self, src):
        self.md.reset()
        try:
            return self.md.convert(src)
        except Exception as e:
            self.md = markdown.Markdown(extensions=self.exts, extension_configs=self.cfg)
            return 'EXCEPTION %s: %s' % (type(e).__name__, str(e)[:100])


def check_all(conv, t):
    src = esc_all(t, conv.esc)
    out = conv(src)
    want = '<p>' + cdata(t) + '</p>'
    return (out == want), src, out, want


def adata(t):
    return cdata(t).replace('"', '&quot;')


def check_single(conv, ctx, sx, rx):
    src = ctx[1].replace('X', sx)
    how = ctx[3] if len(ctx) > 3 else 'text'
    want = ctx[2].replace('X', adata(rx) if how == 'attr' else cdata(rx.strip()) if how == 'strip' else cdata(rx))
    out = conv(src)
    return (out == want), src, out, want



# ---------------------------------------------------------------- history mode
LATE_CHARS = ['|', '~', '^', ':', '@', '=', '/', ',', ';', '?', '%', '"', "'", 'q', '$']
PRIOR = ['a \\* b', '\\\\', 'x\\', '\\| \\" \\~', '`\\`', '\\a', '*e* \\_ `c`', '# h \\#', '| a | b |\n|---|---|\n| c \\| d | e |', '"q" \\"r\\"', 'no escape here', '[l](u\\)) \\[', '\\']


def run_history(h):
    """h = {'base': [ext], 'prior': [source...], 'late': [['register', ext] | ['append', c] ...], 'text': t}
    -> (ok, source, output, required, escapables used)"""
    md = markdown.Markdown(extensions=list(h['base']))
    stated = STATED_CORE + [c for e in h['base'] for c in STATED_EXT.get(e, [])]
    try:
        for src in h['prior']:
            md.reset(); md.convert(src)
        for act in h['late']:
            if act[0] == 'register':
                md.registerExtensions([act[1]], {act[1]: act[2]} if len(act) > 2 and act[2] else {})
                stated = stated + [c for c in STATED_EXT.get(act[1], []) if c not in stated]
            else:
                if act[1] not in md.ESCAPED_CHARS: md.ESCAPED_CHARS.append(act[1])
        esc = list(md.ESCAPED_CHARS) + [c for c in stated if c not in md.ESCAPED_CHARS]
        src = esc_all(h['text'], esc)
        md.reset()
        out = md.convert(src)
    except Exception as e:
        return False, h.get('text', ''), 'EXCEPTION %s: %s' % (type(e).__name__, str(e)[:100]), '', []
    want = '<p>' + cdata(h['text']) + '</p>'
    return out == want, src, out, want, esc


def gen_history(rng):
    base = rng.choice([[], [], [], ['tables'], ['smarty']])
    late = []
    for _ in range(rng.randint(1, 2)):
        r = rng.random()
        if r < 0.55:
            cand = [e for e in ('tables', 'smarty') if e not in base and not any(a[:2] == ['register', e] for a in late)]
            if cand:
                e = rng.choice(cand)
                late.append(['register', e] + ([rng.choice(LATE_OPTIONS[e])] if rng.random() < 0.4 else [])); continue
        late.append(['append', rng.choice(LATE_CHARS)])
    prior = []
    for _ in range(rng.randint(1, 3)):
        prior.append(rng.choice(PRIOR) if rng.random() < 0.5 else esc_all(rand_text(rng, STATED_CORE), STATED_CORE) or 'a\\*')
    new = [c for a in late for c in (STATED_EXT.get(a[1], []) if a[0] == 'register' else [a[1]])]
    esc_now = STATED_CORE + [c for e in base for c in STATED_EXT.get(e, [])] + new
    if rng.random() < 0.35:
        c = rng.choice(new)
        pre, post = rng.choice(SHAPES)
        t = repair(pre + c + post)
    else:
        t = rand_text(rng, esc_now)
        for _ in range(rng.randint(1, 3)):      # make sure the late characters occur
            i = rng.randint(0, len(t)); t = t[:i] + rng.choice(new) + t[i:]
        t = repair(t)
    return {'base': base, 'prior': prior, 'late': late, 'text': t}


def search(driver, rng, n):
    viol = []; seen = set(); samples = []
    dist = {'configs': {}, 'escapables': {}, 'exhaustive_maxlen': 0, 'exhaustive_cases': 0, 'random_cases': 0, 'single_cases': 0, 'multi_line': 0,
            'len_max': 0, 'exceptions': 0, 'repaired_empty': 0, 'esc_chars_hit': {}}
    L = 3 if n < 20000 else 4
    dist['exhaustive_maxlen'] = L
    cases = 0
    convs = [Conv(c) for c in CONFIGS] + [Conv(e, c) for e, c in OPTION_CONFIGS]
    core_esc = convs[0].esc

    def report(kind, conv, t, src, out, want):
        if out.startswith('EXCEPTION'): dist['exceptions'] += 1
        viol.append({'input': src, 'config': conv.config(kind=kind, unescaped_text=t), 'observed': out[:600], 'required': want, 'finding': None})

    for conv in convs:
        key = conv.key
        dist['escapables'][key] = ''.join(conv.read)
        if conv.missing:
            viol.append({'input': '\\' + conv.missing[0], 'config': conv.config(kind='escapable-set', unescaped_text=conv.missing[0]),
                         'observed': 'ESCAPED_CHARS = %r lacks %r' % (''.join(conv.read), ''.join(conv.missing)),
                         'required': '<p>' + cdata(conv.missing[0]) + '</p>', 'finding': None})
        extra = [c for c in conv.esc if c not in core_esc]
        # exhaustive short strings; for the extension configs the longest length only with one of the added characters in it
        # (the others are the core's cases again), and at n < 20000 length 3 only for the core
        Lc = L if not conv.exts else L - 1 if n < 20000 else L
        if conv.cfg: Lc = min(Lc, 2 if n < 20000 else 3)        # option configs: the short strings + every single-escape context
        for t in exhaustive(conv.esc, Lc, must=extra or None):
            cases += 1; dist['exhaustive_cases'] += 1
            ok, src, out, want = check_all(conv, t)
            if any(c in conv.esc for c in t): seen.add((key, t))
            if not ok: report('all-escaped/exhaustive', conv, t, src, out, want)
        # single escape, every escapable x context x shape
        for ctx, sx, rx in single_cases(conv.esc, exts=conv.exts, shapes=SHAPES[:4] if conv.cfg else None):     # option configs: 4 of the 10 shapes
            cases += 1; dist['single_cases'] += 1
            ok, src, out, want = check_single(conv, ctx, sx, rx)
            seen.add((key, ctx[0], sx))
            if not ok: report('single/' + ctx[0], conv, rx, src, out, want)
    # ONE long text: more than 10 000 escaped characters in a single paragraph (the inline stash is numbered per document; its ids outgrow
    # four digits); deterministic, not from rng
    t = long_text()
    cases += 1; dist['long_text_escapes'] = sum(1 for c in t if c in convs[0].esc)
    ok, src, out, want = check_all(convs[0], t)
    if not ok:
        i = next((k for k in range(min(len(out), len(want))) if out[k] != want[k]), min(len(out), len(want)))
        viol.append({'input': 'long_text()', 'config': {'extensions': [], 'kind': 'all-escaped/long', 'unescaped_text': 'long_text()'},
                     'observed': 'first difference at offset %d: %r' % (i, out[max(0, i - 40):i + 60]), 'required': '<p> + long_text() + </p>: %r' % want[max(0, i - 40):i + 60], 'finding': None})
    pick = [0, 0, 0, 0, 1, 1, 2, 2, 3, 3] + list(range(len(CONFIGS), len(convs)))
    for i in range(MULT * n):
        conv = convs[rng.choice(pick)]
        key = conv.key
        t = rand_text(rng, conv.esc)
        if not in_domain(t):
            dist['repaired_empty'] += 1; continue
        cases += 1; dist['random_cases'] += 1
        dist['configs'][key] = dist['configs'].get(key, 0) + 1
        if '\n' in t: dist['multi_line'] += 1
        dist['len_max'] = max(dist['len_max'], len(t))
        ok, src, out, want = check_all(conv, t)
        if any(c in conv.esc for c in t):
            seen.add((key, t))
            for c in set(t):
                if c in conv.esc: dist['esc_chars_hit'][c] = dist['esc_chars_hit'].get(c, 0) + 1
        if not ok: report('all-escaped/random', conv, t, src, out, want)
        if len(samples) < 5 and i % max(1, MULT * n // 5) == 0:
            samples.append({'extensions': conv.exts, 'extension_configs': conv.cfg, 'text': t, 'source': src, 'output': out})
    # history mode: one case per unit of budget
    dist['history_cases'] = 0; dist['history_late'] = {}
    for i in range(n):
        h = gen_history(rng)
        if not in_domain(h['text']):
            dist['repaired_empty'] += 1; continue
        ok, src, out, want, esc = run_history(h)
        cases += 1; dist['history_cases'] += 1
        for a in h['late']:
            k = a[0] + ':' + (a[1] if a[0] == 'register' else 'char'); dist['history_late'][k] = dist['history_late'].get(k, 0) + 1
        seen.add(('history', json.dumps(h, sort_keys=True)))
        if not ok:
            if out.startswith('EXCEPTION'): dist['exceptions'] += 1
            viol.append({'input': dict(h, source=src), 'config': {'extensions': h['base'], 'kind': 'history', 'unescaped_text': h['text']},
                         'observed': out[:600], 'required': want, 'finding': None})
        if i == 0:
            samples.append({'history': h, 'source': src, 'output': out})
    viol.sort(key=lambda v: len(json.dumps(v['input'])))
    return {'cases': cases, 'distinct': len(seen), 'violations': viol[:20], 'samples': samples, 'dist': dist}


def replay(witness):
    if 'late' in witness:
        return not run_history(witness)[0]
    if witness.get('source') == 'long_text()':
        return not check_all(Conv([]), long_text())[0]
    conv = Conv(witness.get('extensions', []), witness.get('extension_configs'))
    return conv(witness['source']) != witness['required']


def replay_violation(v):
    if isinstance(v['input'], dict):
        return replay(v['input'])
    return replay({'extensions': v['config']['extensions'], 'extension_configs': v['config'].get('extension_configs'), 'source': v['input'], 'required': v['required']})
