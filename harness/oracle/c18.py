"""C18 search oracle: extension API contracts (AtomicString, htmlStash placeholders, priority order, run() -> False).

The probe extensions are defined HERE (nothing in /repo is touched).  Two families of cases:

 A. PAYLOAD cases (a, b of the statement; ~70 % of n).  A document (gen/docs pieces) gets 1-3 *slots*: a block marker
    `%%B<i>%%` (own block; also inside a quote or a list item), an inline marker `%%I<i>%%` (in a paragraph, inside
    emphasis / link text / list item / table cell / heading) or a tree-processor target.  A probe block processor /
    inline pattern / tree processor (the latter at a priority before the inline processor, between inline and prettify,
    between prettify and unescape, or after unescape) fills the slot with a hostile PAYLOAD
       mode 'atomic': `util.AtomicString(payload)` as element text / text of an inline child / tail of a child,
       mode 'attr'  : the payload as an attribute value (title, data-x, href) - plain str, serializer escaping only,
       mode 'stash' : `md.htmlStash.store(payload)` (the stash looked up at the call, or the stash OBJECT the extension was handed in
                      extendMarkdown - slot['stash_ref']); the placeholder alone or inside other text, as element text / child
                      text / tail, wrapped as plain str or AtomicString.
    ORACLE (metamorphic, exact): the same conversion with the payload replaced by a neutral alphanumeric TOKEN (for a
    block-level raw payload: `<div TOKEN>`, which is block-level too) gives `twin`; then
       real output == twin.replace(token, f(payload)),   f = lenient cdata escaping (& < >, `"` kept) for atomic text,
       attribute escaping (& < > ") for attribute values, identity for stashed raw text.
    and every token that was inserted IS in the twin output (absolute part: twin and real cannot both lose the text unnoticed).
    I.e. the payload is where the token is, changed by nothing but the serializer's escaping, and nothing else moved;
    `<p>placeholder</p>` unwrapping for block-level raw HTML is on both sides.  Escaping is re-implemented here.
    In 35 % of the cases ONE instance converts the twin, is reset(), and then converts the real document (what a probe
    stored for an earlier document must not come back).
    Payloads: markup-dense, entity-like (incl. `&#12`, `&ſ;`), non-ASCII, attr-list / toc-marker / abbreviation / smarty
    look-alikes; never STX/ETX or a placeholder stem; first and last character are not white space.
    With and without a random subset of the bundled extensions.  Bundled tree processors that re-read such text on the
    UNCHANGED tree are the findings F-C18-1 (attr_list) and F-C18-2 (toc marker); their regions are narrow predicates.

 B. ORDER cases (c, d; ~30 %).  Every processor of the five registries (preprocessors, block processors, inline
    patterns, tree processors, postprocessors) of an instance is wrapped with a recorder; 2-4 inert probes per registry
    are registered at random priorities (ints, floats, negatives, ties with each other and with built-ins).  Checked:
      * pre/tree/post-processors run exactly in stable-descending-priority order (postprocessors possibly several
        rounds: toc renders with them);
      * block processors: every dispatch tests the processors in that order, from the top, without skipping, stops at
        the first whose test() is true and whose run() does not return False, and after a run() that returned False
        continues with the NEXT processor on the same block (nested parseBlocks calls are followed recursively);
        probe block processors answer test() = True on some blocks and return False from run() without touching
        anything;
      * in 45 % of these cases probes CHANGE the block registry while the document is parsed: one-shot processors that
        deregister themselves in run() (then return False, or consume the block and return True/None) and a directive
        processor (`%%ON<j>%%` / `%%OFF<j>%%` blocks, also inside a quote) that registers / deregisters further probes;
        required: each block is offered to the processors of the registry in force when its dispatch starts;
      * inline patterns are tried in that order without skipping;
      * the output equals the output without any probe.
    The expected order is computed here (own stable sort on the registered priorities), not read from the registry.

distinct = number of different (payload, insertion point kind/where/tag, extension set) for A plus different
(document, extension set, probe priorities) for B.
"""
import re
import xml.etree.ElementTree as etree
from gen import docs as D
from gen import common as C

NEEDS_DRIVER = False

FINDINGS = [
    {'id': 'F-C18-1', 'property': 'C18', 'status': 'open',
     'what': 'attr_list re-reads AtomicString text: an attribute list at the end of an atomic block text (or at the start of '
             'an atomic tail of an inline element) is consumed and applied',
     'witness': {'doc': '%%B0%%', 'exts': ['attr_list'], 'configs': {}, 'fmt': 'xhtml', 'probe_first': True,
                 'slots': [{'i': 0, 'kind': 'block', 'mode': 'atomic', 'where': 'text', 'tag': 'p', 'ctag': 'span', 'payload': 'x\n{: .c }', 'prio': 95,
                            'alone': True, 'atomic_wrap': True, 'attr': 'title'}]}},
    {'id': 'F-C18-2', 'property': 'C18', 'status': 'open',
     'what': 'toc replaces an element whose AtomicString text equals the marker ([TOC]) by the table of contents',
     'witness': {'doc': '%%B0%%', 'exts': ['toc'], 'configs': {}, 'fmt': 'xhtml', 'probe_first': True,
                 'slots': [{'i': 0, 'kind': 'block', 'mode': 'atomic', 'where': 'text', 'tag': 'p', 'ctag': 'span', 'payload': '[TOC]', 'prio': 95,
                            'alone': True, 'atomic_wrap': True, 'attr': 'title'}]}},
    {'id': 'F-C18-3', 'property': 'C18', 'status': 'open',
     'what': "PrettifyTreeprocessor rebuilds the tail of every <br> as a plain str ('\\n%s' % br.tail), dropping the AtomicString "
             'type: tree processors that run later (smarty, abbr) then process the text',
     'witness': {'doc': '%%B0%%', 'exts': ['smarty'], 'configs': {}, 'fmt': 'xhtml', 'probe_first': True,
                 'slots': [{'i': 0, 'kind': 'block', 'mode': 'atomic', 'where': 'tail', 'tag': 'p', 'ctag': 'br', 'payload': 'a -- b', 'prio': 95,
                            'alone': True, 'atomic_wrap': True, 'attr': 'title'}]}},
    {'id': 'F-C18-5', 'property': 'C18', 'status': 'open',
     'what': 'an AtomicString put in the TAIL OF THE ELEMENT AN INLINE PROCESSOR RETURNS loses its type (InlineProcessor.__processPlaceholders '
             're-attaches the tail as a slice, a plain str): nested in another inline element (`*a X b*`) it is joined with the following text '
             'and inline-parsed again when that element is visited (likewise when the block already had element children); at the top of a block later tree processors (smarty, abbr, attr_list) read it',
     'witness': {'doc': '*a %%I0%% b*', 'exts': [], 'configs': {}, 'fmt': 'xhtml', 'probe_first': True,
                 'slots': [{'i': 0, 'kind': 'inline', 'mode': 'atomic', 'where': 'own_tail', 'tag': 'p', 'ctag': 'kbd', 'payload': '**s** `k`', 'prio': 95,
                            'alone': True, 'atomic_wrap': True, 'attr': 'title', 'nested': True}]}},
    {'id': 'F-C18-6', 'property': 'C18', 'status': 'open',
     'what': 'an AtomicString that an inline processor returns AS A BARE STRING (no element) is inline-parsed again when its marker stands inside an inline '
             'element found in the TAIL of a block child (a list item holding a heading followed by text): `* # H` / `*a X c*`; in a text, or directly in the tail, it is kept',
     'witness': {'doc': '* # H\n*a %%I0%% c*', 'exts': [], 'configs': {}, 'fmt': 'xhtml', 'probe_first': True,
                 'slots': [{'i': 0, 'kind': 'inline', 'mode': 'atomic', 'where': 'bare', 'tag': 'p', 'ctag': 'kbd', 'payload': '*x* `k`', 'prio': 95,
                            'alone': True, 'atomic_wrap': True, 'attr': 'title', 'nested': True}]}},
    {'id': 'F-C18-4', 'property': 'C18', 'status': 'open',
     'what': 'footnotes looks for its PLACE_MARKER in every text and tail without skipping AtomicString: an atomic text containing '
             'the marker is replaced by / followed by the footnote block',
     'witness': {'doc': '%%B0%%\n\nx[^1]\n\n[^1]: note', 'exts': ['footnotes'], 'configs': {}, 'fmt': 'xhtml', 'probe_first': True,
                 'slots': [{'i': 0, 'kind': 'block', 'mode': 'atomic', 'where': 'text', 'tag': 'p', 'ctag': 'span', 'payload': 'a ///Footnotes Go Here/// b', 'prio': 95,
                            'alone': True, 'atomic_wrap': True, 'attr': 'title'}]}},
]

STEMS = ('klzzwxh', 'wzxhzdk', 'hzzhzkh', 'zz1337820767766393qq', 'qq3936677670287331zz')

# ----------------------------------------------------------------------------------------------------------------------
# independent escaping (what the statement allows to happen to an inserted text)

_ALNUM_I = set('0123456789abcdefghijklmnopqrstuvwxyzABCDEFGHIJKLMNOPQRSTUVWXYZſK')   # [0-9a-z] under re.I (no re.ASCII)
_HEX = set('0123456789abcdefABCDEF')
_DEC = set('0123456789')


def _is_ref(s, i):
    """does an entity / character reference start at the '&' at s[i]?  (&#d+; | &#xh+; | &alnum+;)"""
    j = i + 1
    n = len(s)
    if j < n and s[j] == '#':
        k = j + 1
        while k < n and s[k] in _DEC: k += 1
        if k > j + 1 and k < n and s[k] == ';': return True
        if j + 1 < n and s[j + 1] in 'xX':
            k = j + 2
            while k < n and s[k] in _HEX: k += 1
            if k > j + 2 and k < n and s[k] == ';': return True
        return False
    k = j
    while k < n and s[k] in _ALNUM_I: k += 1
    return k > j and k < n and s[k] == ';'


def esc_cdata(s):
    out = []
    for i, ch in enumerate(s):
        if ch == '&': out.append('&' if _is_ref(s, i) else '&amp;')
        elif ch == '<': out.append('&lt;')
        elif ch == '>': out.append('&gt;')
        else: out.append(ch)
    return ''.join(out)


def esc_attr(s):
    return esc_cdata(s).replace('"', '&quot;')


# ----------------------------------------------------------------------------------------------------------------------
# payloads

HOSTILE = (['*', '**', '_', '__', '`', '``', '\\', '\\*', '\\\\', '![', '[', ']', '(', ')', '[a]', '[x][a]', '[l](/u)', '![i](/s "t")', '<http://a.b>',
            '<b>', '</b>', '<div>', '<br />', '<!-- c -->', '<', '>', '"', "'", '&', '&amp;', '&lt;', '&#12', '&#12;', '&#x1f;', '&#X1F;', '&#', '&a', '&a;',
            '&ſ;', '&copy', ';', '{: .c }', '{: #i k=v }', '{#j}', '{@id=q}', '[TOC]', '[^1]', '[[w]]', '--', '---', '...', '<<', '>>', '|', '#', '# ',
            '- ', '1. ', '> ', '    ', '\n', '\n\n', ' ', ' ', '  \n', 'HTML', 'W3C', 'é', 'ß', '٣', '日本', ' ', '\U0001F600', 'á', 'x', 'foo', 'Bar', '1',
            '///Footnotes Go Here///', '$', '%%', '~~', '==', '\t'])
RAW_EXTRA = ['<div class="r">', '</div>', '<p>', '</p>', '<span title="q">', '</span>', '<hr />', '<script>', '</script>', '<?php x ?>', '<!DOCTYPE x>', '<ul><li>',
             '<table>', '<h2 id="z">', '</h2>', '<%= x %>', '<@ y @>', '<details open>']


def payload(rng, raw=False):
    alpha = HOSTILE + (RAW_EXTRA * 2 if raw else [])
    k = rng.random()
    if k < 0.08: s = rng.choice(['[TOC]', 'x\n{: .c }', 'x {: #i }', '{: .c }rest', 'HTML', '"q" -- \'s\'...', '&#12 z', '*a **b** c*', '[^1]', '<b>*x*</b>'])
    else: s = ''.join(rng.choice(alpha) for _ in range(rng.randint(1, 7)))
    if raw and rng.random() < 0.5:
        s = rng.choice(['<div>', '<p>', '<!-- ', '<?', '<div class="a b">', '</div>', '<span>', '<hr>', '<x-custom>', '<%', '<@', '<Table>', '<em>', '<math>', '<summary>']) + s
    s = s.strip(' \t\n\r\x0b\x0c ')
    if not s or s.isspace(): s = rng.choice(['&', '*x*', '<b>'])
    return s


def payload_ok(s, padded=False):
    if padded: s = s.strip(' \n')
    return s and '\x02' not in s and '\x03' not in s and not any(st in s for st in STEMS) and s[0].strip() != '' and s[-1].strip() != ''


# my own reading of "block-level raw html" (postprocessors.RawHtmlPostprocessor.isblocklevel): only used to choose the
# shape of the twin token, the unwrapping itself is done by the code on both sides
def raw_is_block(md, raw):
    m = re.match(r'^\</?([^ >]+)', raw)
    if not m: return False
    if m.group(1)[0] in '!?@%': return True
    return m.group(1).lower().rstrip('/') in md.block_level_elements


# ----------------------------------------------------------------------------------------------------------------------
# probe extension (payload cases)

def _make_probe_ext(slots, fill):
    """slots: list of slot dicts; fill(md, slot) -> the string to insert (payload or twin token; for stash mode it stores
    and returns the placeholder text).  Returns an Extension instance."""
    from markdown.extensions import Extension
    from markdown.blockprocessors import BlockProcessor
    from markdown.inlinepatterns import InlineProcessor
    from markdown.treeprocessors import Treeprocessor
    from markdown import util

    held = {}    # what the extension kept when it was set up (extendMarkdown): the HtmlStash OBJECT of the instance

    def content(md, slot):
        """the str object to put at the insertion point"""
        v = fill(md, slot)
        if slot['mode'] == 'stash':
            # 'setup': the probe calls store() on the stash object it was handed when the extension was set up (`md.htmlStash` is a
            # documented attribute; an extension may keep it) - 'call': it looks `md.htmlStash` up at every call
            stash = held['stash'] if slot.get('stash_ref') == 'setup' else md.htmlStash
            ph = stash.store(v)
            s = ph if slot['alone'] else 'pre *e* ' + ph + ' post'
            return util.AtomicString(s) if slot['atomic_wrap'] else s
        if slot['mode'] == 'atomic':
            return util.AtomicString(v)
        return v   # attr: plain

    def build(md, parent, slot):
        """create the probe element(s) under `parent` (block and tree probes)"""
        x = content(md, slot); w = slot['where']; tag = slot['tag']
        if slot['mode'] == 'attr':
            el = etree.SubElement(parent, tag); el.text = 'v'; el.set(slot['attr'], x); return el
        if w == 'text':
            el = etree.SubElement(parent, tag); el.text = x
            if slot.get('sibling'):   # an element with atomic text AND a child
                c = etree.SubElement(el, slot['ctag'] if slot['ctag'] not in ('br', 'img', 'hr') else 'i'); c.text = 's *m*'; c.tail = ' t'
        elif w == 'child_text':
            el = etree.SubElement(parent, tag); el.text = 'pre *m* '
            c = etree.SubElement(el, slot['ctag']); c.text = x; c.tail = ' post `c`'
        elif w == 'tail':
            el = etree.SubElement(parent, tag); el.text = 'pre '
            c = etree.SubElement(el, slot['ctag'])
            if slot['ctag'] not in ('br', 'img', 'hr'): c.text = 'in *m*'
            c.tail = x
        elif w == 'child_tail':   # tail of a grand-child
            el = etree.SubElement(parent, tag)
            c = etree.SubElement(el, 'span'); c.text = 'o'
            g = etree.SubElement(c, slot['ctag'])
            if slot['ctag'] not in ('br', 'img', 'hr'): g.text = 'g'
            g.tail = x
        else:
            raise ValueError(w)
        return el

    class BlockProbe(BlockProcessor):
        RE = re.compile(r'^[ ]{0,3}%%B(\d+)%%[ ]*$')

        def __init__(self, parser, md, slot):
            super().__init__(parser); self.md_ = md; self.slot = slot

        def test(self, parent, block):
            m = self.RE.match(block.split('\n')[0])
            return bool(m) and int(m.group(1)) == self.slot['i']

        def run(self, parent, blocks):
            block = blocks.pop(0)
            rest = block.split('\n', 1)
            build(self.md_, parent, self.slot)
            if len(rest) > 1 and rest[1].strip(): blocks.insert(0, rest[1])

    class InlineProbe(InlineProcessor):
        def __init__(self, md, slot):
            super().__init__(r'%%%%I%d%%%%' % slot['i'], md); self.slot = slot

        def handleMatch(self, m, data):
            slot = self.slot; x = content(self.md, slot); w = slot['where']
            if w == 'bare':   # the processor returns the string itself instead of an element (as SimpleTextInlineProcessor does)
                return x, m.start(0), m.end(0)
            el = etree.Element(slot['ctag'])
            if slot['mode'] == 'attr':
                el.text = 'v'; el.set(slot['attr'], x)
            elif w == 'text':
                el.text = x
                if slot.get('sibling'):
                    c = etree.SubElement(el, 'kbd'); c.text = 's *m*'; c.tail = ' t'
            elif w == 'child_text':
                el.text = 'o *m* '
                c = etree.SubElement(el, 'kbd'); c.text = x; c.tail = ' t'
            elif w == 'tail':   # tail of a child of the returned element
                el.text = 'o '
                c = etree.SubElement(el, 'kbd'); c.text = 'k'; c.tail = x
            elif w == 'child_tail':
                c = etree.SubElement(el, 'kbd'); c.text = util.AtomicString('k')
                g = etree.SubElement(c, 'i'); g.text = 'g'; g.tail = x
            elif w == 'own_tail':   # the RETURNED element carries a tail of its own
                el.text = 'k'; el.tail = x
            return el, m.start(0), m.end(0)

    class TreeProbe(Treeprocessor):
        def __init__(self, md, slot):
            super().__init__(md); self.slot = slot

        def run(self, root):
            slot = self.slot
            hosts = [e for e in root.iter() if isinstance(e.tag, str) and e.tag in slot['hosts']] or [root]
            host = hosts[slot['target'] % len(hosts)]
            build(self.md, host, slot)

    class ProbeExt(Extension):
        def extendMarkdown(self, md):
            held['stash'] = md.htmlStash
            for slot in slots:
                name = 'probe%d' % slot['i']
                if slot['kind'] == 'block': md.parser.blockprocessors.register(BlockProbe(md.parser, md, slot), name, slot['prio'])
                elif slot['kind'] == 'inline': md.inlinePatterns.register(InlineProbe(md, slot), name, slot['prio'])
                else: md.treeprocessors.register(TreeProbe(md, slot), name, slot['prio'])
    return ProbeExt()


BLOCK_TAGS = ['p', 'p', 'div', 'section', 'x-probe', 'blockquote', 'li', 'dd', 'h3', 'td', 'pre']
INLINE_TAGS = ['span', 'em', 'strong', 'a', 'kbd', 'code', 'x-i', 'b', 'del', 'br', 'sup']
EXT_POOL = ['attr_list', 'abbr', 'smarty', 'toc', 'footnotes', 'legacy_attrs', 'md_in_html', 'codehilite', 'nl2br', 'tables', 'def_list', 'admonition',
            'sane_lists', 'wikilinks', 'legacy_em', 'fenced_code', 'meta', 'extra']


def gen_slot(rng, i, exts):
    kind = rng.choice(['block', 'block', 'inline', 'inline', 'tree', 'tree'])
    mode = rng.choice(['atomic', 'atomic', 'atomic', 'stash', 'stash', 'attr'])
    where = rng.choice(['text', 'text', 'child_text', 'tail', 'child_tail'])
    tag = rng.choice(BLOCK_TAGS); ctag = rng.choice(INLINE_TAGS)
    if 'toc' in exts and tag == 'h3': tag = 'p'        # toc derives the id of a header from its text (reads, legitimately)
    if 'codehilite' in exts and tag == 'pre': tag = 'p'  # codehilite takes over pre/code blocks (its documented job)
    if tag == 'pre':
        where = 'child_text'; ctag = 'code'
    if where == 'text' and kind != 'inline' and mode != 'attr': ctag = 'span'
    if kind == 'inline' and ctag in ('br',) : ctag = 'span'
    if kind == 'inline' and mode != 'attr' and rng.random() < 0.22: where = 'own_tail'   # a tail on the element the inline processor returns
    if where in ('text', 'child_text') and ctag in ('br',): ctag = 'span'
    slot = {'i': i, 'kind': kind, 'mode': mode, 'where': where, 'tag': tag, 'ctag': ctag, 'attr': rng.choice(['title', 'data-x', 'href', 'class']),
            'alone': rng.random() < 0.5, 'atomic_wrap': rng.random() < 0.5}
    if kind == 'block': slot['prio'] = rng.choice([200, 101, 95, 85, 75, 25, 17.5, 12])
    elif kind == 'inline': slot['prio'] = rng.choice([200, 191, 185, 175.5, 165, 125, 95, 65, 45, 15, 5])
    else:
        slot['prio'] = rng.choice([100, 30, 21, 15, 12, 9, 6.5, 2, -1, -10])
        slot['target'] = rng.randrange(50)
        slot['hosts'] = ['p', 'li', 'td', 'th', 'dd', 'blockquote', 'div'] + ([] if 'toc' in exts else ['h1', 'h2', 'h3'])
    slot['sibling'] = rng.random() < 0.35
    if mode == 'stash': slot['stash_ref'] = rng.choice(['call', 'call', 'setup'])
    slot['payload'] = payload(rng, raw=(mode == 'stash'))
    if mode == 'stash' and not slot['alone'] and rng.random() < 0.3:
        # raw text with white space at its ends (only when embedded in other text: the final strip() of convert cannot reach it)
        slot['payload'] = rng.choice(['', ' ', '\n', '  ']) + slot['payload'] + rng.choice(['', ' ', '\n', ' \n'])
    return slot


def gen_doc(rng, slots, exts, counters):
    parts = [rng.choice([D.p_para, D.p_para, D.p_list, D.p_heading, D.p_table, D.p_quote, D.p_refdef, D.p_footnote_def, D.p_abbr, D.p_rawhtml, D.p_deflist,
                         D.p_admonition, D.p_fence, D.p_soup])(rng) for _ in range(rng.randint(0, 3))]
    for s in slots:
        if s['kind'] == 'block':
            m = '%%%%B%d%%%%' % s['i']
            k = rng.randrange(6)
            if k == 0: m = '> ' + m
            elif k == 1: m = '- item\n\n    ' + m
            elif k == 2: m = m + '\nfollowing *line*'
            elif k == 3: m = '> quote\n>\n> ' + m + '\n>\n> more'
            counters['blockctx%d' % k] = counters.get('blockctx%d' % k, 0) + 1
            parts.insert(rng.randint(0, len(parts)), m)
        elif s['kind'] == 'inline':
            m = '%%%%I%d%%%%' % s['i']
            k = rng.randrange(12)
            if k >= 9:
                # the trigger INSIDE a construct whose text the built-in pattern wraps in an AtomicString (code span, automatic link):
                # a probe of higher priority (backtick 190, autolink 120) has already put its placeholder there, which must still be
                # expanded; a probe of lower priority never sees the marker (slot not reached)
                s['ctx'] = 'code' if k < 11 else 'autolink'
                s['prio'] = rng.choice([200, 191, 195.5, 300, 190, 185] if k < 11 else [200, 191, 185, 175.5, 165, 125, 121, 120, 95])
            if k == 9: t = 'see `x %s y` ok' % m
            elif k == 10: t = rng.choice(['``a ` %s``', '`%s`', '- item `%s` *e*\n- two', '*em `c %s` em*'] + ([] if 'toc' in exts else ['# H `%s`'])) % m
            elif k == 11: t = rng.choice(['go <http://e.com/%s> now', '<https://e.com/a?b=%s>', '*em <ftp://h/%s/x> em*']) % m
            elif k == 0: t = 'a %s b' % m
            elif k == 1: t = '*a %s b*' % m
            elif k == 2: t = '[a %s](/u "t") c' % m
            elif k == 3: t = '- x\n- y %s z\n' % m
            elif k == 4: t = '| h | g |\n|---|---|\n| %s | c |' % m
            elif k == 5: t = ('# H %s' % m) if 'toc' not in exts else ('**%s**' % m)
            elif k == 6: t = '%s' % m
            elif k == 7: t = '> q %s `c` *e*\n> next' % m
            else: t = 'a **b %s** `c` &amp; %s' % (m, D.inline(rng))
            s['nested'] = k in (1, 2, 8, 9, 10, 11) or (k == 5 and 'toc' in exts)      # the marker lies inside an inline element (em, strong, link text, code, automatic link)
            counters['inlinectx%d' % k] = counters.get('inlinectx%d' % k, 0) + 1
            parts.insert(rng.randint(0, len(parts)), t)
    if not parts: parts = [D.p_para(rng)]
    return '\n\n'.join(parts)


def _configs(rng, exts):
    cfg = {}
    if 'abbr' in exts: cfg['abbr'] = {'glossary': {'HTML': 'Hyper Text', 'W3C': 'World Wide'}}
    if 'toc' in exts and rng.random() < 0.4: cfg['toc'] = {'permalink': rng.choice([True, 'P']), 'anchorlink': rng.random() < 0.3}
    if 'smarty' in exts and rng.random() < 0.5: cfg['smarty'] = {'smart_angled_quotes': True}
    return cfg


def run_payload_case(case):
    """-> (real output, expected output, tokens map) ; raises whatever the conversion raises"""
    import markdown
    slots = case['slots']; exts = case['exts']
    tokens = {}

    def convert(twin):
        def fill(md, slot):
            if not twin: return slot['payload']
            tok = 'Qz%dtokenX' % slot['i']
            if slot['mode'] == 'stash' and raw_is_block(md, slot['payload']):
                tok = '<div %s>' % tok
            tokens[slot['i']] = tok
            return tok
        probe = _make_probe_ext(slots, fill)
        lst = ([probe] + list(exts)) if case.get('probe_first', True) else (list(exts) + [probe])
        md = markdown.Markdown(extensions=lst, extension_configs={k: dict(v) for k, v in case.get('configs', {}).items()}, output_format=case.get('fmt', 'xhtml'))
        return md.convert(case['doc'])
    if case.get('reuse'):
        # ONE instance: it converts the twin first, is reset(), then converts the real thing (same number of stashed strings,
        # same placeholders): what the probe stored for the earlier document must not come back
        mode = {'twin': True}

        def fill2(md, slot):
            if not mode['twin']: return slot['payload']
            tok = 'Qz%dtokenX' % slot['i']
            if slot['mode'] == 'stash' and raw_is_block(md, slot['payload']): tok = '<div %s>' % tok
            tokens[slot['i']] = tok
            return tok
        probe = _make_probe_ext(slots, fill2)
        lst = ([probe] + list(exts)) if case.get('probe_first', True) else (list(exts) + [probe])
        md = markdown.Markdown(extensions=lst, extension_configs={k: dict(v) for k, v in case.get('configs', {}).items()}, output_format=case.get('fmt', 'xhtml'))
        twin = md.convert(case['doc'])
        md.reset(); mode['twin'] = False
        real = md.convert(case['doc'])
    else:
        real = convert(False)
        twin = convert(True)
    expected = twin
    missing = []
    for s in slots:
        tok = tokens.get(s['i'])
        if tok is None: continue    # slot not reached (e.g. marker swallowed by a code block): nothing inserted on either side
        # absolute part of the oracle: the neutral token (alphanumeric, or `<div TOKEN>` for a block-level raw string) that was inserted /
        # stashed must BE in the twin output verbatim - otherwise twin and real could both lose the inserted text and still agree
        if tok not in twin: missing.append(s)
        f = esc_attr if s['mode'] == 'attr' else (lambda x: x) if s['mode'] == 'stash' else esc_cdata
        if s.get('ctx') == 'autolink' and s['mode'] == 'atomic':
            # the automatic link copies the text content of what it encloses into its href: there the inserted text is an attribute value
            expected = _replace_by_position(expected, tok, s['payload'])
        else:
            expected = expected.replace(tok, f(s['payload']))
    for s in missing:
        expected += '\n<<slot %d (%s, %s): the inserted token %s is not in the output of the twin conversion: %r>>' % (s['i'], s['mode'], s['kind'], tokens[s['i']], twin[:600])
    return real, expected, tokens


def _replace_by_position(out, tok, payload):
    """replace each occurrence of the alphanumeric token: inside a tag (an attribute value) by the attribute escaping of the payload,
    in character data by the text escaping.  Serializer output: a literal `<` / `>` occurs only as a tag delimiter."""
    res = []; pos = 0
    while True:
        k = out.find(tok, pos)
        if k < 0: break
        lt, gt = out.rfind('<', 0, k), out.rfind('>', 0, k)
        res.append(out[pos:k]); res.append(esc_attr(payload) if lt > gt else esc_cdata(payload))
        pos = k + len(tok)
    res.append(out[pos:])
    return ''.join(res)


_ATTR_BASE = r'\{\:?[ ]*([^\}\n ][^\n]*)[ ]*\}'
_ATTR_START = re.compile('^' + _ATTR_BASE)                         # attr_list INLINE_RE: start of the tail of an inline element
_ATTR_END = re.compile(r'(\n|[ ])[ ]*' + _ATTR_BASE + r'[ ]*$')   # BLOCK_RE / HEADER_RE: end of a block's text or last tail
LATE_READERS = {'smarty', 'abbr', 'attr_list', 'extra', 'legacy_attrs', 'toc', 'footnotes'}   # tree processors that run after prettify


def known_region(case, real, expected):
    """narrow predicates for the findings of the unchanged tree (None if the case is outside all of them)"""
    exts = set(case['exts'])
    attr_on = bool(exts & {'attr_list', 'extra'})
    fn_on = bool(exts & {'footnotes', 'extra'})
    for s in case['slots']:
        if s['mode'] != 'atomic': continue
        p = s['payload']
        # F-C18-5: atomic tail OF THE ELEMENT AN INLINE PROCESSOR RETURNS, and either the marker is nested in another inline element
        # (the text is parsed again when that element is visited), or the host block has element children before `inline` runs (a tree probe of
        # priority > 20 put them there: the block is then visited as a parent too), or a tree processor that runs after `inline` reads texts
        if s['kind'] == 'inline' and s['where'] == 'own_tail' and (s.get('nested') or exts & LATE_READERS or any(t['kind'] == 'tree' and t['prio'] > 20 for t in case['slots'])):
            return 'F-C18-5'
        # F-C18-6: the inline processor returned the atomic string itself (only the witness does: `gen_slot` draws no such slot)
        if s['kind'] == 'inline' and s['where'] == 'bare':
            return 'F-C18-6'
        # F-C18-3: atomic TAIL OF A <br> (prettify makes it a plain str) and some later tree processor is loaded
        if s['ctag'] == 'br' and s['where'] in ('tail', 'child_tail') and s['kind'] != 'inline' and exts & LATE_READERS:
            return 'F-C18-3'
        # F-C18-1: attr_list (or extra) loaded and the atomic text starts with / ends in an attribute list
        if attr_on and (_ATTR_START.search(p) or _ATTR_END.search(p)):
            return 'F-C18-1'
        # F-C18-2: toc loaded and the atomic text IS the marker
        marker = (case.get('configs', {}).get('toc', {}) or {}).get('marker', '[TOC]')
        if 'toc' in exts and marker and p.strip() == marker:
            return 'F-C18-2'
        # F-C18-4: footnotes (or extra) loaded and the atomic text CONTAINS the place marker
        if fn_on and '///Footnotes Go Here///' in p:
            return 'F-C18-4'
    return None


# ----------------------------------------------------------------------------------------------------------------------
# order cases

EVENT_CAP = 100000   # block events per conversion (documents here produce a few hundred)


class Runaway(Exception):
    pass


def stable_desc(items):
    """items: [(name, priority)] in registration order -> names in stable descending priority order (own insertion sort)"""
    out = []
    for name, pr in items:
        k = len(out)
        while k > 0 and out[k - 1][1] < pr: k -= 1
        out.insert(k, (name, pr))
    return [n for n, _ in out]


def _registered(reg):
    """(name, priority) in REGISTRATION order, from the public-ish data of the registry: names from the mapping (insertion
    order = registration order), priorities from the priority records"""
    pr = {p.name: p.priority for p in reg._priority}
    return [(n, pr[n]) for n in reg._data.keys()]


def run_order_case(case):
    """-> list of problems (strings); [] = fine"""
    import markdown
    from markdown.extensions import Extension
    from markdown.blockprocessors import BlockProcessor
    from markdown.inlinepatterns import InlineProcessor
    from markdown.treeprocessors import Treeprocessor
    from markdown.preprocessors import Preprocessor
    from markdown.postprocessors import Postprocessor
    probes = case['probes']   # {'pre': [prio...], 'block': [[prio, k, mod]...], 'inline': [...], 'tree': [...], 'post': [...]}
    ev = {'pre': [], 'block': [], 'inline': [], 'tree': [], 'post': []}

    class BP(BlockProcessor):
        def __init__(self, parser, k, mod):
            super().__init__(parser); self.k = k; self.mod = mod

        def test(self, parent, block):
            return self.mod > 0 and len(block) % self.mod == self.k % self.mod

        def run(self, parent, blocks):
            return False

    dyn = case.get('dyn')

    def reg_event(kind, name, prio=None):
        ev['block'].append((kind, name, prio))

    class OneShot(BlockProcessor):
        """deregisters ITSELF the first time it runs; then leaves the block to the others (False) or consumes it"""
        def __init__(self, parser, name, k, mod, consume):
            super().__init__(parser); self.name = name; self.k = k; self.mod = mod; self.consume = consume

        def test(self, parent, block):
            return len(block) % self.mod == self.k % self.mod

        def run(self, parent, blocks):
            reg_event('DEREG', self.name); self.parser.blockprocessors.deregister(self.name)
            if not self.consume: return False
            blocks.pop(0); etree.SubElement(parent, 'p').text = 'ONESHOT ' + self.name
            return rng_free_choice(self.k)

    def rng_free_choice(k):
        return True if k % 2 else None

    class Toggled(BlockProcessor):
        def __init__(self, parser, name, k, mod, consume):
            super().__init__(parser); self.name = name; self.k = k; self.mod = mod; self.consume = consume

        def test(self, parent, block):
            return len(block) % self.mod == self.k % self.mod

        def run(self, parent, blocks):
            if not self.consume: return False
            blocks.pop(0); etree.SubElement(parent, 'p').text = 'TOGGLED ' + self.name

    class Switch(BlockProcessor):
        """directive blocks %%ON<j>%% / %%OFF<j>%% register / deregister the probe zt<j> while the document is being parsed"""
        RE = re.compile(r'^%%(ON|OFF)(\d)%%[ ]*(\n|$)')

        def test(self, parent, block):
            return bool(self.RE.match(block))

        def run(self, parent, blocks):
            block = blocks.pop(0); m = self.RE.match(block)
            rest = block[m.end():]
            if rest.strip(): blocks.insert(0, rest)
            j = int(m.group(2)) % len(dyn['toggles'])
            pr, k, mod, consume, _ = dyn['toggles'][j]; name = 'zt%d' % j
            reg = self.parser.blockprocessors
            if m.group(1) == 'ON':
                obj = Toggled(self.parser, name, k, mod, consume); wrap_block(name, obj)
                reg_event('REG', name, pr); reg.register(obj, name, pr)
            elif name in reg:
                reg_event('DEREG', name); reg.deregister(name)

    class IP(InlineProcessor):
        def handleMatch(self, m, data):  # never reached: the pattern cannot match
            return None, None, None

    class TP(Treeprocessor):
        def run(self, root): return None

    class PreP(Preprocessor):
        def run(self, lines): return lines

    class PostP(Postprocessor):
        def run(self, text): return text

    class Probes(Extension):
        def extendMarkdown(self, md):
            for j, p in enumerate(probes['pre']): md.preprocessors.register(PreP(md), 'zp%d' % j, p)
            for j, (p, k, mod) in enumerate(probes['block']): md.parser.blockprocessors.register(BP(md.parser, k, mod), 'zp%d' % j, p)
            if dyn:
                for j, (p, k, mod, consume) in enumerate(dyn['oneshots']): md.parser.blockprocessors.register(OneShot(md.parser, 'zo%d' % j, k, mod, consume), 'zo%d' % j, p)
                for j, (p, k, mod, consume, initially) in enumerate(dyn['toggles']):
                    if initially: md.parser.blockprocessors.register(Toggled(md.parser, 'zt%d' % j, k, mod, consume), 'zt%d' % j, p)
                md.parser.blockprocessors.register(Switch(md.parser), 'zswitch', dyn['switch_prio'])
            for j, p in enumerate(probes['inline']): md.inlinePatterns.register(IP(r'(?!)', md), 'zp%d' % j, p)
            for j, p in enumerate(probes['tree']): md.treeprocessors.register(TP(md), 'zp%d' % j, p)
            for j, p in enumerate(probes['post']): md.postprocessors.register(PostP(md), 'zp%d' % j, p)

    def mk(with_probes):
        lst = list(case['exts'])
        if with_probes: lst.insert(case['probe_pos'] % (len(lst) + 1), Probes())
        return markdown.Markdown(extensions=lst, extension_configs={k: dict(v) for k, v in case.get('configs', {}).items()}, output_format=case.get('fmt', 'xhtml'))

    base = None if dyn else mk(False).convert(case['doc'])   # dynamic probes consume the directive blocks: no probe-free twin
    md = mk(True)
    regs = {'pre': md.preprocessors, 'block': md.parser.blockprocessors, 'inline': md.inlinePatterns, 'tree': md.treeprocessors, 'post': md.postprocessors}
    order = {k: stable_desc(_registered(r)) for k, r in regs.items()}
    model = [list(x) for x in _registered(regs['block'])]    # the block registry as registered, kept up to date from the REG/DEREG events
    depth = {'tree': 0, 'pre': 0, 'post': 0}

    def wrap_run(kind, name, obj):
        orig = obj.run

        def run(*a, **kw):
            if depth[kind] == 0: ev[kind].append(name)
            depth[kind] += 1
            try: return orig(*a, **kw)
            finally: depth[kind] -= 1
        obj.run = run

    def wrap_block(name, obj):
        t0, r0 = obj.test, obj.run

        def test(parent, block):
            if len(ev['block']) > EVENT_CAP: raise Runaway()
            r = t0(parent, block); ev['block'].append(('T', name, bool(r))); return r

        def run(parent, blocks):
            ev['block'].append(('R+', name))
            r = r0(parent, blocks)
            ev['block'].append(('R-', name, r is not False)); return r
        obj.test, obj.run = test, run

    def wrap_inline(name, obj):
        g0 = obj.getCompiledRegExp

        def g():
            ev['inline'].append(name); return g0()
        obj.getCompiledRegExp = g

    for kind, reg in regs.items():
        for name in list(reg._data.keys()):
            obj = reg._data[name]
            if kind in ('pre', 'tree', 'post'): wrap_run(kind, name, obj)
            elif kind == 'block': wrap_block(name, obj)
            else: wrap_inline(name, obj)

    try:
        out = md.convert(case['doc'])
    except Runaway:
        return ['block dispatch does not progress: more than %d test() calls (a block whose processor returned False from run() is offered again from the top?); last events %r' % (EVENT_CAP, ev['block'][-6:])]
    problems = []
    if base is not None and out != base:
        problems.append('output with inert probes differs from the output without: %r vs %r' % (out[:300], base[:300]))
    if not case['doc'].strip():
        return problems
    # pre / tree: exactly once each in order; post: one or more full rounds
    for kind in ('pre', 'tree'):
        if ev[kind] != order[kind]: problems.append('%sprocessors ran as %r, registered order is %r' % (kind, ev[kind], order[kind]))
    F = order['post']
    if len(ev['post']) % max(1, len(F)) or any(ev['post'][i] != F[i % len(F)] for i in range(len(ev['post']))) or not ev['post']:
        problems.append('postprocessors ran as %r, registered order is %r' % (ev['post'], F))
    # block dispatch: every dispatch (one pass of `while blocks`) offers the block to the processors of the registry AS IT IS WHEN THE
    # DISPATCH STARTS, in stable descending priority order; REG/DEREG events (probes changing the registry while parsing) update the model
    E = ev['block']

    def apply(e):
        if e[0] == 'REG':
            model[:] = [x for x in model if x[0] != e[1]] + [[e[1], e[2]]]
        else:
            model[:] = [x for x in model if x[0] != e[1]]

    def level(i):
        F = None; pos = 0
        while i < len(E):
            e = E[i]
            if e[0] == 'R-': return i
            if e[0] in ('REG', 'DEREG'):
                apply(e); i += 1; continue
            if F is None or pos >= len(F):
                F = stable_desc([tuple(x) for x in model]); pos = 0
            if e[0] != 'T' or e[1] != F[pos]:
                raise AssertionError('event %d: expected test of %r (position %d of the registry in force %r), got %r; previous events %r' % (i, F[pos], pos, F, e, E[max(0, i - 5):i]))
            if e[2]:
                if i + 1 >= len(E) or E[i + 1] != ('R+', F[pos]): raise AssertionError('event %d: test of %r was true but run did not follow: %r' % (i, F[pos], E[i + 1:i + 2]))
                j = level(i + 2)
                if j >= len(E) or E[j][0] != 'R-' or E[j][1] != F[pos]: raise AssertionError('event %d: unbalanced run of %r' % (i, F[pos]))
                if E[j][2]: F = None; pos = 0       # accepted: the next block is a new dispatch
                else: pos += 1                      # run() returned False: the NEXT processor of the same pass gets the block
                i = j + 1
            else:
                pos += 1; i += 1
        return i
    try:
        end = level(0)
        if end != len(E): problems.append('block events: stray run exit at %d' % end)
    except AssertionError as a:
        problems.append('block processors: ' + str(a))
    # inline: successor or retry, restart only after the last one
    F = order['inline']; idx = {n: i for i, n in enumerate(F)}; E = ev['inline']
    for a, b in zip(E, E[1:]):
        if a != F[-1] and idx[b] not in (idx[a], idx[a] + 1):
            problems.append('inline patterns: %r tried right after %r; registered order %r' % (b, a, F)); break
    case['_stats'] = {'registry_changes': sum(1 for e in ev['block'] if e[0] in ('REG', 'DEREG')), 'block_events': len(ev['block']), 'false_runs': sum(1 for e in ev['block'] if e[0] == 'R-' and not e[2]), 'inline_events': len(E), 'post_rounds': len(ev['post']) // max(1, len(order['post']))}
    return problems


def gen_order_case(rng, counters):
    exts = sorted(rng.sample(C.EXTENSIONS, rng.choice([0, 0, 1, 2, 4, 8, len(C.EXTENSIONS)])))
    pr = lambda pool: rng.choice(pool)
    bp = [200, 100, 100.5, 95, 90, 85, 80, 70, 65, 50, 40, 35, 30, 20, 17, 15, 12, 10, 10.5]   # >= 10: a block processor below `paragraph` is never reached
    ip = [300, 200, 190, 185, 180, 175, 170, 165, 160, 150, 125, 120, 100, 90, 75, 70, 60, 50, 40, 30, 20, 10, 5, 0, -5]
    tp = [100, 50, 30, 20, 20.5, 15, 10, 8, 7, 6, 5, 2, 0, -1, -10]
    pp = [100, 30, 27, 25, 20, 15, 10, 0, -3]
    probes = {'pre': [pr(pp) for _ in range(rng.randint(1, 3))],
              'block': [[pr(bp), rng.randrange(5), rng.choice([0, 1, 2, 3, 5])] for _ in range(rng.randint(2, 4))],
              'inline': [pr(ip) for _ in range(rng.randint(2, 4))],
              'tree': [pr(tp) for _ in range(rng.randint(2, 4))],
              'post': [pr(pp) for _ in range(rng.randint(1, 3))]}
    case = {'kind': 'order', 'doc': D.document(rng, 1, 5, counters=counters), 'exts': exts, 'configs': _configs(rng, exts), 'probes': probes, 'probe_pos': rng.randrange(20),
            'fmt': rng.choice(['xhtml', 'html'])}
    if rng.random() < 0.45:
        # probes that change the block registry WHILE the document is parsed
        mods = [1, 1, 2, 3]
        case['dyn'] = {'oneshots': [[pr(bp + [105, 150]), rng.randrange(6), rng.choice(mods), rng.random() < 0.4] for _ in range(rng.randint(0, 2))],
                       'toggles': [[pr(bp + [105, 12, 16]), rng.randrange(6), rng.choice(mods), rng.random() < 0.4, rng.random() < 0.3] for _ in range(rng.randint(1, 3))],
                       'switch_prio': rng.choice([300, 150, 97, 96.5])}
        parts = [f(rng) for f in (rng.choice(D._PIECE_POOL) for _ in range(rng.randint(2, 6)))]
        for _ in range(rng.randint(1, 4)):
            d = '%%%%%s%d%%%%' % (rng.choice(['ON', 'ON', 'OFF']), rng.randrange(len(case['dyn']['toggles'])))
            if rng.random() < 0.15: d += '\n' + D.words(rng)            # directive with a remainder that is re-queued
            if rng.random() < 0.1: d = '> ' + d                        # inside a quote: a nested parseBlocks call
            parts.insert(rng.randint(0, len(parts)), d)
        case['doc'] = '\n\n'.join(parts)
    return case


# ----------------------------------------------------------------------------------------------------------------------

def _converts_without_probe(case):
    import markdown
    try:
        markdown.Markdown(extensions=list(case['exts']), extension_configs={k: dict(v) for k, v in case.get('configs', {}).items()},
                          output_format=case.get('fmt', 'xhtml')).convert(case['doc'])
        return True
    except Exception:
        return False


def _check_payload(case):
    """None if fine, else (observed, required)"""
    real, expected, tokens = run_payload_case(case)
    if real != expected: return real, expected
    return None


def replay(witness):
    try:
        return _check_payload(witness) is not None
    except RecursionError:
        return False
    except Exception:
        return _converts_without_probe(witness)


def replay_violation(v):
    case = v['input']
    if case.get('kind') == 'order':
        return bool(run_order_case(dict(case)))
    return replay(case)


def search(driver, rng, n):
    dist = {'payload_cases': 0, 'order_cases': 0, 'skipped_exception': {}, 'kind': {}, 'mode': {}, 'where': {}, 'ctx': {}, 'pieces': {}, 'slot_unreached': 0,
            'with_exts': 0, 'reused_instance': 0, 'block_events': 0, 'registry_changes': 0, 'dynamic_cases': 0, 'run_false': 0, 'inline_events': 0, 'known': {}, 'slots_filled': 0}
    viol = []; samples = []; seen = set(); cases = 0
    n_order = n * 3 // 10
    n_pay = n - n_order
    while cases < n_pay:
        exts = sorted(rng.sample(EXT_POOL, rng.choice([0, 0, 0, 1, 1, 2, 3, 5, len(EXT_POOL)])))
        slots = []
        for i in range(rng.choice([1, 1, 1, 2, 3])):
            s = gen_slot(rng, i, exts)
            if payload_ok(s['payload'], padded=(s['mode'] == 'stash' and not s['alone'])): slots.append(s)
        if not slots: continue
        case = {'kind': 'payload', 'slots': slots, 'exts': exts, 'configs': _configs(rng, exts), 'fmt': rng.choice(['xhtml', 'xhtml', 'html']), 'probe_first': rng.random() < 0.5, 'reuse': rng.random() < 0.35}
        case['doc'] = gen_doc(rng, slots, exts, dist['ctx'])
        cases += 1; dist['payload_cases'] += 1
        if exts: dist['with_exts'] += 1
        if case['reuse']: dist['reused_instance'] += 1
        try:
            real, expected, tokens = run_payload_case(case)
        except RecursionError:
            dist['skipped_exception']['RecursionError'] = dist['skipped_exception'].get('RecursionError', 0) + 1; continue
        except Exception as e:
            # an exception is C02's business unless the probe caused it: the same document under the same extensions WITHOUT the probe
            # (markers are then plain text) converts -> what the probe inserted did not reach the output: reported
            k = type(e).__name__
            if _converts_without_probe(case):
                dist['probe_raised'] = dist.get('probe_raised', 0) + 1
                if len(viol) < 40:
                    viol.append({'input': case, 'config': {'extensions': exts, 'extension_configs': case['configs'], 'output_format': case['fmt']},
                                 'observed': 'conversion with the probe extension raised %s: %s (the same document converts without the probe)' % (k, str(e)[:300]),
                                 'required': 'the inserted text / stashed string reaches the output', 'finding': None})
            else:
                dist['skipped_exception'][k] = dist['skipped_exception'].get(k, 0) + 1
            continue
        for s in slots:
            if s['i'] in tokens:
                dist['slots_filled'] += 1
                for key in ('kind', 'mode', 'where'): dist[key][s[key]] = dist[key].get(s[key], 0) + 1
                seen.add((s['payload'], s['kind'], s['mode'], s['where'], s['tag'], s['ctag'], tuple(exts)))
            else: dist['slot_unreached'] += 1
        if real != expected:
            fid = known_region(case, real, expected)
            if fid: dist['known'][fid] = dist['known'].get(fid, 0) + 1
            if len(viol) < 40 and (fid is None or sum(1 for v in viol if v['finding'] == fid) < 3):
                viol.append({'input': case, 'config': {'extensions': exts, 'extension_configs': case['configs'], 'output_format': case['fmt']},
                             'observed': real[:1500], 'required': expected[:1500], 'finding': fid})
        elif len(samples) < 3 and tokens:
            samples.append({'case': case, 'output': real[:400]})
    done = 0
    while done < n_order:
        case = gen_order_case(rng, dist['pieces'])
        done += 1; cases += 1; dist['order_cases'] += 1
        try:
            problems = run_order_case(case)
        except RecursionError:
            dist['skipped_exception']['RecursionError'] = dist['skipped_exception'].get('RecursionError', 0) + 1; continue
        except Exception as e:
            k = 'order:' + type(e).__name__; dist['skipped_exception'][k] = dist['skipped_exception'].get(k, 0) + 1; continue
        st = case.pop('_stats', None) or {}
        dist['registry_changes'] += st.get('registry_changes', 0); dist['dynamic_cases'] += 1 if case.get('dyn') else 0
        dist['block_events'] += st.get('block_events', 0); dist['run_false'] += st.get('false_runs', 0); dist['inline_events'] += st.get('inline_events', 0)
        seen.add((case['doc'], tuple(case['exts']), repr(case['probes'])))
        if problems and len(viol) < 40:
            viol.append({'input': case, 'config': {'extensions': case['exts'], 'extension_configs': case['configs'], 'output_format': case['fmt']},
                         'observed': '; '.join(problems)[:2000], 'required': 'processors run in stable descending priority order; run() == False hands the block to the next one; inert probes change nothing',
                         'finding': None})
    return {'cases': cases, 'distinct': len(seen), 'violations': viol, 'samples': samples, 'dist': dist}
