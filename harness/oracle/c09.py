r"""C09 search oracle -- the output depends only on the normalised text.

Metamorphic pairs (base, variant):  convert(variant) must equal convert(base), same instance configuration
(tab_length in {2, 4, 8}; 25 % of the cases with a subset of the bundled extensions).  The base document contains no
tab, CR, STX, ETX (they are removed from the generated text); the variant is made from it by 1..3 of the clauses,
applied in this order:

  tabs     in a line, a segment of 1..t spaces that ENDS at a tab stop (column % t == 0, every character = one column, as
           `str.expandtabs`) is replaced by one `\t`; any number of non-overlapping segments, anywhere in the line (indentation,
           between words, inside code, inside raw HTML attributes);
  wslines  empty lines -- the first line of the text included -- are replaced by lines of spaces and/or tabs (also a final line
           without line terminator);
  pad      blank lines added before and/or after the document; the added lines may be whitespace-only, the very first line of the
           text too, also in front of a document whose own first line is whitespace-only; only for documents WITHOUT `<` (an unterminated raw HTML block runs to the end of input by design; the
           property excludes it) and never with the `meta` extension (whose syntax is anchored at the first line by design);
  eol      every line terminator independently LF / CRLF / CR, the last line with or without terminator (as in the base), with the
           one inherent exception: a CR directly followed by the LF of an EMPTY next line would spell CRLF = one line break;
           that combination is not produced (hypothesis `splitsCRLF` of the Lean lemma);
  ctl      STX / ETX inserted at arbitrary positions (also between CR and LF, at the very start, inside words).

"For the configured tab length": in 30 % of the cases with a `tabs` variation the variant is first converted by ANOTHER instance (same
process) configured with another tab length; that must not influence the instance under test (`pre_tab` in the violation input).

Known region, tagged (rare: about one case in 300 000 falls into it; not avoided):
  F-C09-2  the blank-document shortcut of `convert` (`if not source.strip(): return ''`, core.py:341) looks at the source BEFORE STX/ETX are
           removed.  A document of white space only gives ''; the same document with a stray STX/ETX is not "blank", is normalised to the same
           white space and goes through the pipeline, which makes `<pre><code>\n</code></pre>` of an indented line whose content is white space
           other than space/tab (`'    \x0b'`; VT FF FS GS RS US NEL NBSP and the Unicode spaces are `str.isspace` but are not emptied by
           NormalizeWhitespace).  Region (narrow): base and variant are both white space only after removing STX/ETX, exactly one of them is
           blank for `str.strip`, and one output is ''.  (Same finding as the kernel-checked counterexample `C09_doc_ctl_counterexample`.)

F-C09-1 (a whitespace-only first line was not emptied) is REPAIRED (regex `(?<![^\n]) +\n`): nothing avoids or tags that region any
more -- base documents with a whitespace-only first line, `wslines` on line 1 and `pad` in front of such documents are generated on
purpose; the FINDINGS witnesses are kept (status fixed: `replay` is False on the repaired tree, True if the defect returns).  Likewise an
exception other than RecursionError -- also one raised for base and variant alike (formerly the `<![` assertion F-C02-1) -- is reported.

Documents: structured core documents (gen/docs.py, indentation rescaled to the tab length, with / without inline HTML),
token soups (markup, ampersand shapes, HTML tokens, extension tokens, control and non-ASCII characters), line-structured
documents from construct openers, spliced fixture fragments.
"""
import re
import markdown
from gen import docs2 as docs, common

NEEDS_DRIVER = False

FINDINGS = [
    {'id': 'F-C09-1', 'property': 'C09', 'status': 'fixed', 'what': 'a whitespace-only FIRST line is not emptied (code block instead of nothing)',
     'witness': {'base': '\nfoo', 'variant': '    \nfoo', 'tab_length': 4, 'extensions': []}},
    {'id': 'F-C09-1', 'property': 'C09', 'status': 'fixed', 'what': 'whitespace-only first line followed by === gives an empty h1',
     'witness': {'base': '\n===', 'variant': '  \n===', 'tab_length': 4, 'extensions': []}},
    {'id': 'F-C09-1', 'property': 'C09', 'status': 'fixed', 'what': 'a blank line padded in front of a document whose first line is whitespace-only changes the output',
     'witness': {'base': '    \nfoo', 'variant': '\n    \nfoo', 'tab_length': 4, 'extensions': []}},
    {'id': 'F-C09-2', 'property': 'C09', 'status': 'open',
     'what': 'the blank-document shortcut of convert (`not source.strip()`) is tested BEFORE STX/ETX are removed: a document of white space only is answered with the empty string, the same document with a stray STX/ETX goes through the pipeline, which renders an indented white-space character other than space/tab (VT, FF, FS, NBSP ...) as an empty code block (kernel-checked in Props/C09Doc.lean: C09_doc_ctl_counterexample)',
     'witness': {'base': '    \x0b', 'variant': '\x02    \x0b', 'tab_length': 4, 'extensions': []}},
]

STX, ETX = '\x02', '\x03'
SAFE_EXT = ['abbr', 'admonition', 'attr_list', 'def_list', 'fenced_code', 'footnotes', 'meta', 'nl2br', 'sane_lists', 'smarty', 'tables', 'toc',
            'wikilinks', 'extra', 'legacy_em', 'md_in_html']


def base_clean(s):
    return s.replace('\t', ' ').replace('\r\n', '\n').replace('\r', '\n').replace(STX, '').replace(ETX, '')


def rescale(text, t):
    """indentation unit 4 of gen/docs.py -> t"""
    if t == 4: return text
    out = []
    for l in text.split('\n'):
        n = len(l) - len(l.lstrip(' '))
        out.append(' ' * ((n // 4) * t + n % 4) + l[n:])
    return '\n'.join(out)


def gen_base(rng, t):
    k = rng.random()
    if k < 0.4:
        d = rescale(docs.doc(rng, None, docs.Opt(code=True, html=rng.random() < 0.35)), t)
    elif k < 0.65:
        d = common.soup(rng, common.alphabet(html=rng.random() < 0.5, amp=rng.random() < 0.5, ext=rng.random() < 0.3, ctrl=rng.random() < 0.3), 1, 24)
    elif k < 0.85:
        d = rescale(common.lines_doc(rng, 1, 10), t)
    else:
        d = common.mutated(rng, 240)
    d = base_clean(d)
    if rng.random() < 0.15: d += rng.choice(['\n', '\n\n', '  ', '\n  '])
    if rng.random() < 0.12: d = rng.choice(['\n', ' ', '   ', '  \n', '    \n', ' ' * (t + 2) + '\n', '  \n\n']) + d      # also whitespace-only FIRST lines
    return d


# ---------------------------------------------------------------- the clauses
def v_tabs(rng, d, t):
    n = 0
    lines = d.split('\n')
    for li, l in enumerate(lines):
        segs = []                      # candidate (s, e): l[s:e] all spaces, e % t == 0, 1 <= e-s <= t
        for m in re.finditer(r' +', l):
            a, b = m.span()
            e = ((a // t) + 1) * t
            while e <= b:
                segs.append((max(a, e - t), e)); e += t
        if not segs: continue
        chosen = []
        for (lo, e) in reversed(segs):             # right to left, non-overlapping
            if rng.random() < 0.5:
                s = rng.randint(lo, e - 1)
                if chosen and e > chosen[-1][0]: continue
                chosen.append((s, e))
        for s, e in chosen:                        # already right-to-left
            l = l[:s] + '\t' + l[e:]; n += 1
        lines[li] = l
    return '\n'.join(lines), n


def v_wslines(rng, d, t):
    lines = d.split('\n'); n = 0
    for i in range(0, len(lines)):             # the first line included (F-C09-1 is repaired: it must be emptied like any other)
        if lines[i] == '' and rng.random() < 0.5:
            lines[i] = rng.choice([' ', '  ', '    ', ' ' * (t + 1), '\t', ' \t', '\t\t ', ' ' * 9]); n += 1
    return '\n'.join(lines), n


def v_pad(rng, d, t):
    n = 0
    if rng.random() < 0.6:
        k = rng.randint(1, 3)
        pad = [rng.choice(['', '', ' ', '\t', '    ', ' ' * (t + 1)]) for _ in range(k)]       # the very first line may be whitespace-only too
        d = '\n'.join(pad) + '\n' + d; n += k
    if rng.random() < 0.6 or n == 0:
        k = rng.randint(1, 3)
        d = d + ''.join('\n' + rng.choice(['', '', ' ', '\t', '     ']) for _ in range(k)); n += k
    return d, n


def v_eol(rng, d):
    lines = d.split('\n')
    mode = rng.choice(['mixed', 'mixed', 'crlf', 'cr'])
    ends = []
    for i in range(len(lines) - 1):
        ends.append({'crlf': '\r\n', 'cr': '\r'}.get(mode) or rng.choice(['\n', '\r\n', '\r']))
    # inherent exception: CR + (empty line) + LF spells CRLF
    for i in range(len(ends) - 1):
        if ends[i] == '\r' and lines[i + 1] == '' and ends[i + 1] == '\n': ends[i + 1] = rng.choice(['\r\n', '\r'])
    out = ''
    for i, l in enumerate(lines):
        out += l + (ends[i] if i < len(ends) else '')
    n = sum(1 for e in ends if e != '\n')
    return out, n


def v_ctl(rng, d):
    k = rng.randint(1, 4)
    for _ in range(k):
        i = rng.randint(0, len(d))
        d = d[:i] + rng.choice([STX, ETX]) + d[i:]
    return d, k


def strip_ctl(s):
    return s.replace(STX, '').replace(ETX, '')


def blank_shortcut_region(base, variant):
    """F-C09-2, narrow: both documents are white space only once STX/ETX are removed (`str.strip` leaves nothing), and exactly one of them is
    blank for `convert`'s shortcut `not source.strip()`, i.e. the other one contains a stray STX/ETX.  (The shortcut answers '' for the one,
    the pipeline runs on the other.)"""
    if strip_ctl(base).strip() or strip_ctl(variant).strip(): return False
    return bool(base.strip()) != bool(variant.strip())


def gen_case(rng):
    t = rng.choice([2, 4, 4, 8])
    exts = common.ext_subset(rng, SAFE_EXT, 3) if rng.random() < 0.25 else []
    if 'extra' in exts and 'md_in_html' in exts: exts.remove('md_in_html')
    base = gen_base(rng, t)
    clauses = rng.sample(['tabs', 'wslines', 'pad', 'eol', 'ctl'], rng.choice([1, 1, 2, 3]))
    if 'pad' in clauses and ('<' in base or 'meta' in exts):
        clauses.remove('pad')
        if not clauses: clauses = ['eol']
    v = base; done = []
    for c in ['tabs', 'wslines', 'pad', 'eol', 'ctl']:
        if c not in clauses: continue
        if c == 'tabs': v, n = v_tabs(rng, v, t)
        elif c == 'wslines': v, n = v_wslines(rng, v, t)
        elif c == 'pad': v, n = v_pad(rng, v, t)
        elif c == 'eol': v, n = v_eol(rng, v)
        else: v, n = v_ctl(rng, v)
        if n: done.append(c)
    if v == base:
        v, n = v_ctl(rng, v); done.append('ctl')
    # "for the configured tab length": the same tabbed text converted first by ANOTHER instance with another tab length (same process)
    # must not influence this instance
    pre_tab = rng.choice([x for x in (2, 4, 8) if x != t]) if ('tabs' in done and rng.random() < 0.3) else None
    return {'base': base, 'variant': v, 'tab_length': t, 'extensions': exts, 'clauses': done, 'pre_tab': pre_tab}


def evaluate(case, cache=None):
    cache = {} if cache is None else cache
    k = (case['tab_length'], tuple(case['extensions']))
    if k not in cache: cache[k] = markdown.Markdown(tab_length=case['tab_length'], extensions=list(case['extensions']))
    md = cache[k]
    res = []
    if case.get('pre_tab'):
        k0 = (case['pre_tab'], tuple(case['extensions']))
        if k0 not in cache: cache[k0] = markdown.Markdown(tab_length=case['pre_tab'], extensions=list(case['extensions']))
        try:
            cache[k0].reset().convert(case['variant'])
        except Exception:
            del cache[k0]
    for src in (case['base'], case['variant']):
        try:
            res.append(('ok', md.reset().convert(src)))
        except Exception as e:                         # F-C11-1: a raised conversion leaves parser state behind -> fresh instance
            res.append(('exc', type(e).__name__))
            md = cache[k] = markdown.Markdown(tab_length=case['tab_length'], extensions=list(case['extensions']))
    if res[0][0] == 'exc' or res[1][0] == 'exc':
        if 'RecursionError' in (res[0][1], res[1][1]): return 'skip', 'recursion'
        # any other exception -- also when base and variant raise alike -- is reported (F-C02-1, the `<![` assertion, is repaired)
        return 'viol', {'input': {k2: case.get(k2) for k2 in ('base', 'variant', 'clauses', 'pre_tab')}, 'config': {'tab_length': case['tab_length'], 'extensions': case['extensions']},
                        'observed': 'variant: %s %s' % res[1], 'required': 'base: %s %s' % res[0], 'finding': None}
    o0, o1 = res[0][1], res[1][1]
    if o0 == o1: return 'ok', o0
    finding = None                                     # F-C09-1 is repaired: a recurrence is an ordinary violation
    if blank_shortcut_region(case['base'], case['variant']) and '' in (o0, o1): finding = 'F-C09-2'
    return 'viol', {'input': {k: case.get(k) for k in ('base', 'variant', 'clauses', 'pre_tab')}, 'config': {'tab_length': case['tab_length'], 'extensions': case['extensions']},
                    'observed': repr(o1), 'required': repr(o0), 'finding': finding}


def search(driver, rng, n):
    """distinct / non-trivial: distinct (base, variant, tab_length) with variant != base and a non-empty output; measured with a set."""
    cache, dist = {}, {}
    def bump(k): dist[k] = dist.get(k, 0) + 1
    viol, samples, seen, cases = [], [], set(), 0
    for _ in range(n):
        case = gen_case(rng)
        if case['variant'] == case['base']: bump('no-variation-possible'); continue
        cases += 1
        for c in case['clauses']: bump('clause:' + c)
        bump('tab_length:%d' % case['tab_length'])
        if case['extensions']: bump('with-extensions')
        if case.get('pre_tab'): bump('other-tab-length-first')
        if '<' in case['base']: bump('base-has-<')
        st, d = evaluate(case, cache)
        if st == 'skip': bump('skip:' + d); continue
        if st == 'viol':
            if d['finding']: bump('known:' + d['finding'])
            viol.append(d); continue
        if d: seen.add((case['base'], case['variant'], case['tab_length']))
        else: bump('empty-output')
        if len(samples) < 4 and rng.random() < 0.005: samples.append({k: case[k] for k in ('base', 'variant', 'tab_length', 'extensions', 'clauses')})
    return {'cases': cases, 'distinct': len(seen), 'violations': viol, 'samples': samples, 'dist': dist}


def replay(witness):
    case = {'base': witness['base'], 'variant': witness['variant'], 'tab_length': witness.get('tab_length', 4), 'extensions': witness.get('extensions', []), 'clauses': []}
    return evaluate(case)[0] == 'viol'


def replay_violation(v):
    case = {'base': v['input']['base'], 'variant': v['input']['variant'], 'tab_length': v['config']['tab_length'], 'extensions': v['config']['extensions'], 'clauses': [],
            'pre_tab': v['input'].get('pre_tab')}
    return evaluate(case)[0] == 'viol'
