"""C16 search oracle: bundled extensions render their syntax as documented and change nothing else.

(i) DOCUMENTED RENDERING.  Per extension a generator of valid uses with the expected HTML written from the extension's
    documentation (docs/extensions/*.md); expected and actual output are both read by the strict reader and compared as
    TREES (attributes as a dict: the documentation does not fix attribute order).  Constructs are also placed inside a block
    quote or a (loose) list item and between paragraphs where the documentation allows it:
      tables        columns 1-4, alignments from the delimiter row (style="text-align: …" / align= with use_align_attribute),
                    borders none/left/right/both per row, cells with emphasis / code spans containing pipes / escaped pipes
                    / empty cells, short rows (padded) and long rows (cut): every row has exactly the header's cell count;
      fenced_code   ``` / ~~~ fences of length 3-5, language (bare, `.lang`, `{ .lang .cls #id }`), literal body (markup,
                    `<&">`, blank lines, shorter fences, indentation) -> <pre><code class="language-…">; root level only;
      def_list      terms x definitions, tight / loose, continuation paragraphs -> <dl><dt><dd>;
      footnotes     references / definitions (numbering by definition order, repeated refs, multi-paragraph bodies);
      admonition    !!! type [more classes] ["title" | ""] + indented body blocks, also nested in a list item;
      attr_list     {: #id .cls k=v } on ATX / Setext headings, paragraphs (last line), inline em/strong/link/code/image;
      abbr          *[X]: title definitions, uses at word boundaries in paragraphs / headings / items / emphasis, not in code;
      nl2br         every newline inside a paragraph -> <br />;
      sane_lists    ol/ul do not mix across a blank line, start number honoured;
      wikilinks     [[Label]] -> <a class="wikilink" href="/Label/"> with base_url / end_url / html_class options;
      md_in_html    metamorphic: `<TAG attrs markdown="1|block">\\nD\\n</TAG>` == `<TAG attrs>\\n` + convert(D) + `\\n</TAG>` for D from
                    the core grammar (no raw HTML), also with the other extensions' syntax absent.
    ADJACENCY.  Inline-level extension constructs (footnote references, wikilinks, attribute lists on inline elements,
    abbreviation uses, nl2br line breaks) are placed DIRECTLY next to -- and inside -- core constructs that compete for the same
    characters: shortcut / collapsed / full reference links and reference images whose labels are defined, inline links, images,
    emphasis, strong, code spans, autolinks, backslash escapes, entities; before and after, glued or with one space (helpers
    `neighbour`, `adjacent`, `glue`).  Each construct must render as itself.  Two sequences are excluded because CORE syntax
    gives them another meaning: R1 `]` + at most one whitespace + `[` across a boundary (full reference form; footnote references
    are exempt: a label starting with a caret is a footnote) and R2 two delimiter runs of the same character touching.  Also
    generated: the backslash-escaped opener (backslash + `[^1]`, backslash + `[[W]]`, `*x*` + backslash + `{.c}` are text) and near misses (`[ ^1]`, `[ [W]]`,
    `*x* {.c}` mid-line).  Block-level constructs are placed directly above / below core blocks WITHOUT a blank line where the
    syntax allows it: below any one-line block (ATX / Setext heading, rule) and below an indented code block; fenced code next to
    every block kind on both sides; an admonition after any block's last line and before any unindented line; a tight definition
    list above a heading or rule (`tight`, `tight_above`).
(ii) NON-INTERFERENCE.  For HTML-free documents (token soups incl. extension tokens, line documents, spliced fixtures without
    `<`, core-grammar documents, and NEAR-MISS documents built from tokens that almost are a trigger: `!!`, `!! note`, `~~`, two
    backticks, `[ ^1]`, `* [x]: y`, `[ [w]]`, `{ :`, `:x`, entity-escaped pipes ...) and every extension E whose trigger
    (harness/gen/triggers.py) is absent from the document:
    convert(base + [E]) == convert(base), where base is empty or a random set of other extensions.

distinct / non-trivial: (i) distinct sources (all contain the extension's construct); (ii) distinct (document, E) pairs whose
document is not blank.
"""
import random, re
import htmlread2 as H
from gen import common as G, grammar as g
from gen.triggers import TRIGGER, html_free
from gen.timeout import time_limit

NEEDS_DRIVER = False
FINDINGS = [
    {'id': 'F-C16-1', 'property': 'C16', 'status': 'fixed',
     'what': 'tables: an escaped backslash directly before the closing border pipe of a row was deleted together with the border',
     'witness': {'kind': 'table_end_border', 'text': '|a|b\\\\|\n|-|-|\n|c|d\\\\|'}},
] + [
    {'id': 'F-C16-3', 'property': 'C16', 'status': 'fixed', 'commit': '732d7f5',
     'what': 'meta: a first line that merely starts like a delimiter (`...and so on`, `----`, `... x`, `...`) was popped and dropped although the document holds no meta-data (BEGIN_RE/END_RE not anchored; END honoured before any key)',
     'witness': {'kind': 'ni', 'text': t, 'extension': 'meta', 'base': []}}
    for t in ('...and so on\n\ntext', '----\ntext', '... and so on\n\ntext', '...\n\ntext')
]
_RE_REFDEF = re.compile(r'^\[[^\^\]][^\]]*\]: ', re.M)
_RE_BRACKETS = re.compile(r'[\])`*_>] ?\[\^|\[\^[^\]]*\] ?[\[!`*_<\\]|\]\][`*_<!\\]|[`*_>)]\[\[')

W = ['alpha', 'beta', 'gamma', 'delta', 'x', 'Zed', 'é', 'a1', 'ok', 'naïve']


def words(rng, lo=1, hi=3):
    return ' '.join(rng.choice(W) for _ in range(rng.randint(lo, hi)))


def inline(rng, pipes=False, simple=False):
    """-> (source, html) of a short inline run"""
    parts = []
    for _ in range(rng.choice([1, 1, 2, 3]) if not simple else 1):
        r = rng.random()
        w = words(rng)
        if r < 0.5 or simple: parts.append((w, w))
        elif r < 0.62: parts.append(('*%s*' % w, '<em>%s</em>' % w))
        elif r < 0.72: parts.append(('**%s**' % w, '<strong>%s</strong>' % w))
        elif r < 0.82: parts.append(('`%s`' % w, '<code>%s</code>' % w))
        elif r < 0.9: parts.append(('[%s](/u)' % w, '<a href="/u">%s</a>' % w))
        else: parts.append((w + ',', w + ','))
    if pipes:
        for i in range(len(parts)):
            r = rng.random()
            if r < 0.15:
                a, b = rng.choice(W + ['', '']), rng.choice(W + ['', ''])          # the pipe may touch the ticks: `|a`, `a|`, `|`
                parts[i] = ('`%s|%s`' % (a, b), '<code>%s|%s</code>' % (a, b))
            elif r < 0.3:
                a, b = rng.choice(W), rng.choice(W)
                parts[i] = ('%s \\| %s' % (a, b), '%s | %s' % (a, b))
            elif r < 0.35:
                a = rng.choice(W)
                parts[i] = ('`` %s`|`%s ``' % (a, a), '<code>%s`|`%s</code>' % (a, a))
    return ' '.join(p[0] for p in parts), ' '.join(p[1] for p in parts)


def _place(rng, blocks, html, src, out, kinds=(('p', 0.6), ('h', 0.15), ('q', 0.15), ('li', 0.1))):
    """append one inline run as a paragraph / heading / quote / single-item list; never a list right after a list (they would merge)"""
    r = rng.random(); acc = 0; kind = 'p'
    for k, p in kinds:
        acc += p
        if r < acc: kind = k; break
    if kind == 'li' and blocks and blocks[-1].startswith('- '): kind = 'p'
    if kind == 'q' and blocks and blocks[-1].startswith('> '): kind = 'p'
    if kind == 'p': blocks.append(src); html.append('<p>%s</p>' % out)
    elif kind == 'h': blocks.append('## ' + src); html.append('<h2>%s</h2>' % out)
    elif kind == 'q': blocks.append('\n'.join('> ' + l for l in src.split('\n'))); html.append('<blockquote>\n<p>%s</p>\n</blockquote>' % out)
    else: blocks.append('- ' + src); html.append('<ul>\n<li>%s</li>\n</ul>' % out)


# ------------------------------------------------------------------------------------------------ adjacency with core constructs
# An extension's inline construct E is placed DIRECTLY next to core inline constructs that compete for the same characters
# (`[` `]` `!` `*` `_` `` ` `` `<` `\`): reference-style links and shortcut references whose labels are defined, inline links,
# images, emphasis, code spans, autolinks, escapes, entities -- before and after, glued or with one space.  What the syntax
# rules say about such a sequence is simply "each construct renders as itself", with ONE documented exception that is
# core syntax and therefore excluded (rule R1):  `]` + at most one whitespace + `[` across a boundary is the full reference
# form `[text][id]` / `[text] [id]`.  A footnote reference `[^id]` is exempt from R1: "a footnote label must start with a
# caret", so `[^1] [RFC]` is a footnote reference followed by a shortcut reference (this is what the pattern priorities encode).
REFS = [('RFC', 'http://example.com/rfc'), ('Spec Doc', '/spec'), ('r1', '/one'), ('x-2', '/two?a=1&b=2')]


def _el(tag, attrs, inner=None):
    a = ''.join(' %s="%s"' % (k, v.replace('&', '&amp;').replace('"', '&quot;')) for k, v in sorted(attrs.items()))
    return '<%s%s />' % (tag, a) if inner is None else '<%s%s>%s</%s>' % (tag, a, inner, tag)


def neighbour(rng, kinds=None, text=None):
    """a core inline construct -> {'src', 'html', 'defs': [definition lines], 'el': (tag, attrs, inner|None) or None, 'kind'}
    `text` (source, html) replaces the default word content of links / emphasis (used to put E INSIDE a core construct)"""
    kinds = kinds or ['shortcut', 'shortcut', 'collapsed', 'fullref', 'fullref', 'link', 'image', 'refimage', 'em*', 'em_', 'strong', 'code', 'auto',
                      'esc', 'entity', 'word']
    k = rng.choice(kinds)
    w = rng.choice(W)
    ts, th = text if text else (w, w)
    label, url = rng.choice(REFS)
    d = {'kind': k, 'defs': [], 'el': None}
    if text and k in ('shortcut', 'collapsed'): label, url = ts, '/about/' + ts.replace(' ', '_')
    if k == 'shortcut':
        d.update(src='[%s]' % label, el=('a', {'href': url}, th if text else label), defs=['[%s]: %s' % (label, url)])
    elif k == 'collapsed':
        d.update(src='[%s][]' % label, el=('a', {'href': url}, th if text else label), defs=['[%s]: %s' % (label, url)])
    elif k == 'fullref': d.update(src='[%s][%s]' % (ts, rng.choice([label, label.upper()])), el=('a', {'href': url}, th), defs=['[%s]: %s' % (label, url)])
    elif k == 'link':
        if rng.random() < 0.3: d.update(src='[%s](/u "T t")' % ts, el=('a', {'href': '/u', 'title': 'T t'}, th))
        else: d.update(src='[%s](/u)' % ts, el=('a', {'href': '/u'}, th))
    elif k == 'image': d.update(src='![%s](/s)' % w, el=('img', {'alt': w, 'src': '/s'}, None))
    elif k == 'refimage': d.update(src='![%s][%s]' % (w, label), el=('img', {'alt': w, 'src': url}, None), defs=['[%s]: %s' % (label, url)])
    elif k == 'em*': d.update(src='*%s*' % ts, el=('em', {}, th))
    elif k == 'em_': d.update(src='_%s_' % ts, el=('em', {}, th))
    elif k == 'strong': d.update(src=rng.choice(['**%s**', '__%s__']) % ts, el=('strong', {}, th))
    elif k == 'code': d.update(src='`%s`' % w, el=('code', {}, w))
    elif k == 'auto':
        u = rng.choice(['http://example.com/x', 'https://a.b/?c=d'])
        d.update(src='<%s>' % u, el=('a', {'href': u}, u))
    elif k == 'esc':
        c = rng.choice(['*', '[', ']', '`', '!', '\\', '(', ')'])
        d.update(src='\\' + c, html=c)
    elif k == 'entity': d.update(src='&amp;', html='&amp;')
    else: d.update(src=w, html=w)
    if d['el']: d['html'] = _el(*d['el'])
    return d


def _isw(c):
    return bool(c) and (c.isalnum() or c == '_')


def _r1(left, gap, right):
    """rule R1: `]` + at most one whitespace + `[` is the core full-reference syntax"""
    return left.endswith(']') and right.startswith('[') and len(gap) <= 1


def _clash(left, gap, right, bracket_ok=False):
    """sequences whose meaning the core syntax itself changes: R1, and R2 = two delimiter runs of the same character touching
    (`` `a``b` ``, `*a**b*`, `_a__b_`: the runs merge into one longer run)"""
    if not left or not right: return False
    if not bracket_ok and _r1(left, gap, right): return True
    if not gap and left[-1] == right[0] and left[-1] in '`*_': return True
    if not gap and ((right[0] == '_' and _isw(left[-1])) or (left[-1] == '_' and _isw(right[0]))): return True    # `_` needs a word boundary
    return False


def glue(rng, a, b, bracket_ok=False, choices=('', ' ', ' ')):
    """a gap ('' or ' ') between two source fragments that keeps both constructs what they are"""
    g = rng.choice(choices)
    if _clash(a, g, b, bracket_ok): g = ' ' if not _clash(a, ' ', b, bracket_ok) else ', '
    return g


def adjacent(rng, e_src, e_html, bracket_ok=False, p=0.6, kinds=None):
    """E between up to two core neighbours:  [N1 gap] E [gap N2]   gap in {'', ' '}  -> (src, html, defs)"""
    src, html, defs = e_src, e_html, []
    for side in ('before', 'after'):
        if rng.random() >= p: continue
        for _ in range(6):
            nb = neighbour(rng, kinds)
            gap = rng.choice(['', '', ' '])
            a, b = (nb['src'], src) if side == 'before' else (src, nb['src'])
            if _clash(a, gap, b, bracket_ok): continue
            # a plain word glued to E would just make a longer word / label
            if nb['kind'] == 'word' and not gap: gap = ' '
            if side == 'before': src, html = nb['src'] + gap + src, nb['html'] + gap + html
            else: src, html = src + gap + nb['src'], html + gap + nb['html']
            defs += nb['defs']
            break
    return src, html, defs


def _with_defs(blocks, defs, rng):
    """append the reference definitions the neighbours need (each label once), as their own block"""
    seen = []
    for d in defs:
        if d not in seen: seen.append(d)
    if seen:
        if rng.random() < 0.3 and len(blocks) > 1: blocks.insert(rng.randint(1, len(blocks)), '\n'.join(seen))
        else: blocks.append('\n'.join(seen))
    return blocks


# One-line core blocks end at their line end: whatever follows on the next line is a new block even without a blank line.
def tight_above(rng, kinds=('atx', 'setext', 'rule'), dash_ok=True):
    """a core block that may stand directly ABOVE (or below) a block construct, without a blank line -> (lines, html)
    (below a text line a rule is spelled without dashes: `text\n---` is a Setext heading)"""
    k = rng.choice(kinds); w = words(rng)
    if k == 'atx': return ['## ' + w + rng.choice(['', ' ##'])], '<h2>%s</h2>' % w
    if k == 'setext':
        u = rng.choice(['===', '-----', '=', '-'])
        lv = 1 if u[0] == '=' else 2
        return [w, u], '<h%d>%s</h%d>' % (lv, w, lv)
    if k == 'rule': return [rng.choice(['---', '***', '_ _ _'] if dash_ok else ['***', '_ _ _', '* * *'])], '<hr />'
    if k == 'para': return [w], '<p>%s</p>' % w
    if k == 'quote': return ['> ' + w], '<blockquote>\n<p>%s</p>\n</blockquote>' % w
    if k == 'li': return ['- ' + w], '<ul>\n<li>%s</li>\n</ul>' % w
    if k == 'code': return ['    ' + w], '<pre><code>%s\n</code></pre>' % w
    raise ValueError(k)


def tight(rng, lines, html, above=('atx', 'setext', 'rule'), below=()):
    """put core blocks directly above / below the construct, no blank line in between"""
    if above and rng.random() < 0.7:
        l, h = tight_above(rng, above)
        lines = l + lines; html = h + '\n' + html
    if below and rng.random() < 0.7:
        l, h = tight_above(rng, below, dash_ok=False)
        lines = lines + l; html = html + '\n' + h
    return lines, html


def wrap(rng, lines, html, allow=('none', 'quote', 'item', 'between'), above=('atx', 'setext', 'rule'), below=()):
    """place a block-level construct in a container, or directly next to core blocks; -> (source, html)"""
    how = rng.choice([a for a in ('none', 'none', 'quote', 'item', 'between', 'between') if a in allow] + ['tight', 'tight'])
    if how == 'tight':
        lines, html = tight(rng, list(lines), html, above, below)
        return '\n'.join(lines), html
    if how == 'quote':
        return '\n'.join('> ' + l if l else '>' for l in lines), '<blockquote>\n%s\n</blockquote>' % html
    if how == 'item':
        lead = words(rng)
        m = rng.choice(['-', '*', '1.'])
        tag = 'ol' if m == '1.' else 'ul'
        return '%s %s\n\n%s' % (m, lead, '\n'.join('    ' + l if l else '' for l in lines)), '<%s>\n<li>\n<p>%s</p>\n%s\n</li>\n</%s>' % (tag, lead, html, tag)
    if how == 'between':
        a, b = words(rng), words(rng)
        return '%s\n\n%s\n\n%s' % (a, '\n'.join(lines), b), '<p>%s</p>\n%s\n<p>%s</p>' % (a, html, b)
    return '\n'.join(lines), html


# ------------------------------------------------------------------------------------------------ per-extension generators
def gen_tables(rng):
    k = rng.choice([1, 2, 2, 3, 3, 4])
    use_attr = rng.random() < 0.2
    aligns = [rng.choice([None, None, 'left', 'right', 'center']) for _ in range(k)]

    def row_src(cells, border):
        s = ' | '.join(cells) if rng.random() < 0.7 else '|'.join(cells)
        if border in ('left', 'both'): s = rng.choice(['| ', '|']) + s
        if border in ('right', 'both'): s = s + rng.choice([' |', '|'])
        return s

    def border_for(ncells):
        # a row needs at least one pipe; a single-column table needs a border on every row
        return rng.choice(['both', 'both', 'left', 'right'] if (k == 1 or ncells == 1) else ['none', 'none', 'both', 'left', 'right'])
    def tailed(cell, last):
        """let a cell END with 1-3 escaped backslashes / escaped pipes (a backslash pair shows one backslash, `\\|` shows the pipe and does
        not split) -- above all the LAST cell of a row, where the closing border pipe follows with or without a space (F-C16-1)"""
        if rng.random() >= (0.3 if last else 0.08): return cell
        units = [rng.choice([('\\\\', '\\'), ('\\\\', '\\'), ('\\|', '|')]) for _ in range(rng.randint(1, 3))]
        glue_ = rng.choice(['', '', ' ']) if cell[0] else ''
        return cell[0] + glue_ + ''.join(u[0] for u in units), cell[1] + glue_ + ''.join(u[1] for u in units)
    head = [inline(rng, pipes=True) for _ in range(k)]
    head = [tailed(c, i == k - 1) for i, c in enumerate(head)]
    seps = []
    for a in aligns:
        d = '-' * rng.choice([1, 2, 3, 5])
        seps.append({None: d, 'left': ':' + d, 'right': d + ':', 'center': ':' + d + ':'}[a])
    hb = border_for(k)
    # the header row decides whether border pipes are stripped at all: a table without borders has none on any row
    lines = [row_src([h[0] for h in head], hb), row_src(seps, hb if (k == 1 or hb == 'none') else border_for(k))]

    def attr(a):
        if a is None: return ''
        return ' align="%s"' % a if use_attr else ' style="text-align: %s;"' % a
    html = ['<table>', '<thead>', '<tr>'] + ['<th%s>%s</th>' % (attr(aligns[i]), head[i][1]) for i in range(k)] + ['</tr>', '</thead>', '<tbody>']
    for _ in range(rng.choice([1, 1, 2, 3])):
        n = rng.choice([k, k, k, k - 1, k + 1, k + 2]) if k > 1 else rng.choice([1, 1, 2])
        n = max(1, n)
        if hb == 'none': n = max(2, n)
        cells = [inline(rng, pipes=True) if rng.random() < 0.9 else ('', '') for _ in range(n)]
        if all(c[0] == '' for c in cells): cells[0] = inline(rng, simple=True)
        cells = [tailed(c, i == n - 1) for i, c in enumerate(cells)]
        b = border_for(n) if hb != 'none' else 'none'
        if hb != 'none':
            if cells[0][0] == '' and b in ('none', 'right'): b = 'both'
            if cells[-1][0] == '' and b in ('none', 'left'): b = 'both'
        lines.append(row_src([c[0] for c in cells], b))
        shown = (cells + [('', '')] * k)[:k]
        html += ['<tr>'] + ['<td%s>%s</td>' % (attr(aligns[i]), shown[i][1]) for i in range(k)] + ['</tr>']
    html += ['</tbody>', '</table>']
    src, out = wrap(rng, lines, '\n'.join(html), above=('atx', 'setext', 'rule', 'code'))
    return src, [('tables', {'use_align_attribute': True} if use_attr else {})], out


FENCE_BODY = ['x = 1', '', '*not em*', '  indented', '<b> & "q" \'s\'', '# no heading', '- no list', '    four', '[l](u)', '&amp;', '`tick`', '``', '~~', '> q',
              '| a | b |', '{: #no }', '[^1]', '!!! note', '\\*', 'é', '1. x', '***', '<div markdown="1">', '</div>', '\\', 'a  ']


def gen_fenced(rng):
    ch = rng.choice(['`', '~'])
    n = rng.choice([3, 3, 4, 5])
    fence = ch * n
    body = [rng.choice(FENCE_BODY) for _ in range(rng.choice([1, 2, 3, 5]))]
    if rng.random() < 0.3: body.insert(rng.randint(0, len(body)), ch * (n - 1))       # a shorter fence inside
    if rng.random() < 0.2: body.insert(rng.randint(0, len(body)), ('~' if ch == '`' else '`') * n)     # the other fence char
    r = rng.random()
    lang = rng.choice(['python', 'html', 'c-sharp', 'x1'])
    cls = ''; pre = ''
    if r < 0.3: info = ''; cls = ''
    elif r < 0.5: info = rng.choice(['', ' ']) + lang; cls = ' class="language-%s"' % lang
    elif r < 0.6: info = rng.choice(['', ' ']) + '.' + lang; cls = ' class="language-%s"' % lang
    elif r < 0.7: info = ' { .%s }' % lang; cls = ' class="language-%s"' % lang
    elif r < 0.85: info = ' { .%s .foo .bar }' % lang; cls = ' class="language-%s"' % lang; pre = ' class="foo bar"'
    else: info = ' { #ex .%s .foo }' % lang; cls = ' class="language-%s"' % lang; pre = ' id="ex" class="foo"'
    esc = lambda s: s.replace('&', '&amp;').replace('<', '&lt;').replace('>', '&gt;').replace('"', '&quot;')
    html = '<pre%s><code%s>%s\n</code></pre>' % (pre, cls, esc('\n'.join(body)))
    lines = [fence + info] + body + [fence]
    # root level only; "recommended that a blank line be placed before and after" -- not required: any core block may stand
    # directly above / below ("can immediately follow a list item without becoming part of the list")
    r = rng.random()
    if r < 0.3: return '\n'.join(lines), [('fenced_code', {})], html
    if r < 0.5:
        a, b = words(rng), words(rng)
        return '%s\n\n%s\n\n%s' % (a, '\n'.join(lines), b), [('fenced_code', {})], '<p>%s</p>\n%s\n<p>%s</p>' % (a, html, b)
    kinds = ('atx', 'setext', 'rule', 'para', 'quote', 'li', 'code')
    lines, html = tight(rng, lines, html, kinds, ('atx', 'setext', 'rule', 'para', 'quote', 'li', 'code'))
    return '\n'.join(lines), [('fenced_code', {})], html


def gen_deflist(rng):
    lines = []; html = ['<dl>']
    loose = rng.random() < 0.35
    for g_ in range(rng.choice([1, 2, 3])):
        if g_: lines.append('')
        for _ in range(rng.choice([1, 1, 2])):
            s, h = inline(rng)
            lines.append(s); html.append('<dt>%s</dt>' % h)
        for _ in range(rng.choice([1, 1, 2])):
            s, h = inline(rng)
            pad = rng.choice([':   ', ': ', ':  '])
            if loose:
                lines.append(''); lines.append(pad + s)
                paras = ['<p>%s</p>' % h]
                for _ in range(rng.choice([0, 0, 1])):
                    s2, h2 = inline(rng)
                    lines.append(''); lines.append('    ' + s2); paras.append('<p>%s</p>' % h2)
                html.append('<dd>\n%s\n</dd>' % '\n'.join(paras))
            else:
                if rng.random() < 0.25:
                    s2, h2 = inline(rng, simple=True)
                    lines.append(pad + s); lines.append('    ' + s2); html.append('<dd>%s\n%s</dd>' % (h, h2))
                else:
                    lines.append(pad + s); html.append('<dd>%s</dd>' % h)
    html.append('</dl>')
    # directly below a definition only a heading or a rule ends the list (other lines continue the definition lazily)
    src, out = wrap(rng, lines, '\n'.join(html), allow=('none', 'quote', 'between'), above=('atx', 'setext', 'rule', 'code'), below=('atx', 'rule') if (not loose and lines[-1].lstrip().startswith(':')) else ())
    return src, [('def_list', {})], out


FN_LABELS = ['1', '2', 'a', 'note', 'x-y', 'é', 'A b', 'fn1', 'fnref', 'boiling-fn', 'a:fn', 'fn:2', 'x:y']


def gen_footnotes(rng):
    # labels: also ones that contain the id prefixes `fn` / `fnref` or the separator `:` (the ids are fn:LABEL, fnref:LABEL, fnrefK:LABEL)
    ids = rng.sample(FN_LABELS, rng.randint(1, 3))
    order = list(ids); rng.shuffle(order)          # definition order decides the numbering
    num = {i: k + 1 for k, i in enumerate(order)}
    paras = []; html = []; count = {i: 0 for i in ids}; refdefs = []

    def sup(i):
        count[i] += 1
        rid = 'fnref:%s' % i if count[i] == 1 else 'fnref%d:%s' % (count[i], i)
        return '[^%s]' % i, '<sup id="%s"><a class="footnote-ref" href="#fn:%s">%d</a></sup>' % (rid, i, num[i])
    todo = list(ids) + [rng.choice(ids) for _ in range(rng.choice([0, 0, 1, 2]))]
    rng.shuffle(todo)
    total = {i: todo.count(i) for i in ids}
    while todo:
        take = [todo.pop() for _ in range(min(len(todo), rng.choice([1, 1, 2])))]
        s, h = words(rng), None
        src = s; out = s
        for i in take:
            a, b = sup(i); w = words(rng)
            a, b, dd = adjacent(rng, a, b, bracket_ok=True)           # core constructs directly around the reference
            refdefs.extend(dd)
            g1 = rng.choice(['', ' ']) if not a.startswith('_') else ' '
            g2 = rng.choice(['', ' ']) if not a.endswith('_') else ' '
            src += g1 + a + g2 + w; out += g1 + b + g2 + w
            if rng.random() < 0.12:            # a backslash-escaped bracket: not a reference, the text shows `[^id]`
                src += ' \\[^%s]' % i; out += ' [^%s]' % i
            elif rng.random() < 0.1:           # near misses: "a footnote label must start with a caret"; the label must match exactly
                nm = rng.choice(['[ ^%s]', '[^ %s]', '^[%s]', '[%s^]', '[^%s ]']) % i
                src += ' ' + nm + ' ' + rng.choice(W); out += ' ' + nm + ' ' + src.rsplit(' ', 1)[1]
        # (reference ids fnref:, fnref2:, … are handed out in processing order, which is document order only among
        #  blocks of the same depth: a footnote referenced more than once is referenced from top-level blocks only)
        if any(total[i] > 1 for i in take): _place(rng, paras, html, src, out, (('p', 0.8), ('h', 0.2)))
        else: _place(rng, paras, html, src, out)
    defs = []; lis = []
    for i in order:
        s, h = inline(rng)
        extra = []
        d = '[^%s]: %s' % (i, s)
        for _ in range(rng.choice([0, 0, 1])):
            s2, h2 = inline(rng)
            d += '\n\n    ' + s2; extra.append('<p>%s</p>' % h2)
        defs.append(d)
        links = ''.join('<a class="footnote-backref" href="#fnref%s:%s" title="Jump back to footnote %d in the text">&#8617;</a>' % ('' if c == 1 else str(c), i, num[i])
                        for c in range(1, count[i] + 1))
        blocks = ['<p>%s</p>' % h] + extra
        blocks[-1] = blocks[-1][:-4] + '&#160;' + links + '</p>'
        lis.append('<li id="fn:%s">\n%s\n</li>' % (i, '\n'.join(blocks)))
    blocks = list(paras)
    if rng.random() < 0.3:
        for d in defs: blocks.insert(rng.randint(0, len(blocks)), d)
        # definitions keep their relative order?  the numbering follows the order of DEFINITION in the source
        pos = sorted(range(len(blocks)), key=lambda k: k)
        srcorder = [b for b in blocks if b.startswith('[^')]
        if srcorder != defs:
            blocks = [b for b in blocks if not b.startswith('[^')] + defs
    else:
        blocks += defs
    _with_defs(blocks, refdefs, rng)
    out = '\n'.join(html) + '\n<div class="footnote">\n<hr />\n<ol>\n%s\n</ol>\n</div>' % '\n'.join(lis)
    return '\n\n'.join(blocks), [('footnotes', {})], out


def gen_admonition(rng):
    typ = rng.choice(['note', 'warning', 'danger', 'tip', 'my-type', 'x1'])
    more = rng.choice([[], [], ['highlight'], ['a', 'b-c']])
    r = rng.random()
    classes = ' '.join(['admonition', typ] + more)
    if r < 0.4: head = '!!! ' + ' '.join([typ] + more); title = typ.capitalize()
    elif r < 0.8:
        title = rng.choice(['A title', "Don't try", 'x', 'T 1'])
        head = '!!! %s "%s"' % (' '.join([typ] + more), title)
    else: head = '!!! %s ""' % ' '.join([typ] + more); title = None
    body = []; html = []; prevk = None
    for j in range(rng.choice([1, 1, 2, 3])):
        if j: body.append('')
        r = rng.random()
        s, h = inline(rng)
        kind = 'p' if r < 0.6 else 'ul' if r < 0.75 else 'q' if r < 0.85 else 'code' if j else 'h'
        if kind == prevk or (kind == 'code' and prevk == 'ul'): kind = 'p'       # blocks that would merge
        if kind == 'p': body.append('    ' + s); html.append('<p>%s</p>' % h)
        elif kind == 'ul':
            s2, h2 = inline(rng)
            body += ['    - ' + s, '    - ' + s2]; html.append('<ul>\n<li>%s</li>\n<li>%s</li>\n</ul>' % (h, h2))
        elif kind == 'q': body.append('    > ' + s); html.append('<blockquote>\n<p>%s</p>\n</blockquote>' % h)
        elif kind == 'code': body.append('        code ' + s.replace('`', '')); html.append('<pre><code>code %s\n</code></pre>' % s.replace('`', ''))
        else: body.append('    ## ' + s); html.append('<h2>%s</h2>' % h)
        prevk = kind
    out = '<div class="%s">\n%s%s\n</div>' % (classes, '<p class="admonition-title">%s</p>\n' % title.replace("'", "'") if title is not None else '', '\n'.join(html))
    # the `!!!` line may follow any block's last line, and the first unindented line ends the body
    tail_code = body[-1].startswith('        ')
    src, out = wrap(rng, [head] + body, out, allow=('none', 'item', 'between'), above=('atx', 'setext', 'rule', 'para', 'quote', 'li'),
                    below=('atx', 'rule', 'para', 'quote', 'li') if not tail_code else ('atx', 'rule', 'quote', 'li'))
    return src, [('admonition', {})], out


def _attrs(rng):
    """-> (attribute list source without braces, {name: value})"""
    items = []; d = {}
    classes = []
    if rng.random() < 0.6:
        i = rng.choice(['i1', 'some-id', 'x_y', 'é']); items.append('#' + i); d['id'] = i
    for _ in range(rng.choice([0, 1, 1, 2])):
        c = rng.choice(['c1', 'cls', 'a-b', 'k']); items.append('.' + c); classes.append(c)
    if rng.random() < 0.4:
        kv = rng.choice([('lang', 'en', 'lang=en'), ('title', 'T t', 'title="T t"'), ('data-x', 'v 1', "data-x='v 1'"), ('k', 'v', 'k=v'),
                         ('href', 'a.b/c-d', 'href=a.b/c-d'), ('width', '1.5', 'width=1.5'), ('data-y', '#x.y', 'data-y="#x.y"')])
        items.append(kv[2]); d[kv[0]] = kv[1]
    if not items: items.append('.only'); classes.append('only')
    rng.shuffle(items)
    if classes:
        # the dot syntax ADDS to the class, in source order
        order = [x[1:] for x in items if x.startswith('.')]
        d['class'] = ' '.join(order)
    return ' '.join(items), d


def _brace(rng, a):
    return rng.choice(['{: %s }', '{: %s }', '{%s}', '{ %s }', '{:%s}']) % a


def _attr_html(d):
    return ''.join(' %s="%s"' % (k, v) for k, v in sorted(d.items()))


def gen_attr_list(rng):
    blocks = []; html = []; refdefs = []
    for _ in range(rng.choice([1, 2, 3])):
        r = rng.random()
        a, d = _attrs(rng)
        s, h = inline(rng)
        if r < 0.2:
            lv = rng.randint(1, 6)
            closing = rng.choice(['', '', ' ' + '#' * lv])
            blocks.append('%s %s%s %s' % ('#' * lv, s, closing, _brace(rng, a))); html.append('<h%d%s>%s</h%d>' % (lv, _attr_html(d), h, lv))
        elif r < 0.35:
            lv = rng.choice([1, 2])
            blocks.append('%s %s\n%s' % (s, _brace(rng, a), '=-'[lv - 1] * 5)); html.append('<h%d%s>%s</h%d>' % (lv, _attr_html(d), h, lv))
        elif r < 0.6:
            blocks.append('%s\n%s' % (s, _brace(rng, a))); html.append('<p%s>%s</p>' % (_attr_html(d), h))
        elif r < 0.7 and not (blocks and blocks[-1].startswith('> ')):
            blocks.append('> %s\n> %s' % (s, _brace(rng, a))); html.append('<blockquote>\n<p%s>%s</p>\n</blockquote>' % (_attr_html(d), h))
        else:
            # "immediately after the inline element with no white space": any core inline element, and core constructs directly around
            nb = neighbour(rng, ['shortcut', 'collapsed', 'fullref', 'link', 'link', 'image', 'refimage', 'em*', 'em_', 'strong', 'code', 'auto'])
            tag, at, inner = nb['el']
            dd = dict(at); dd.update(d)          # "key/value pairs will always override the previously defined attribute"
            e_src = nb['src'] + _brace(rng, a); e_html = _el(tag, dd, inner)
            if rng.random() < 0.12:            # "Curly braces can be backslash escaped to avoid being identified as an attribute list"
                br = _brace(rng, a)
                e_src = nb['src'] + '\\' + br; e_html = nb['html'] + br
            elif rng.random() < 0.08:          # "immediately after the inline element with no white space": with a space it is text (mid-line)
                br = _brace(rng, a)
                e_src = nb['src'] + ' ' + br; e_html = nb['html'] + ' ' + br
            refdefs.extend(nb['defs'])
            e_src, e_html, more = adjacent(rng, e_src, e_html, bracket_ok=False)
            refdefs.extend(more)
            pre, post = words(rng), words(rng)
            g1 = ' ' if e_src.startswith('_') or rng.random() < 0.7 else ''
            g2 = ' ' if e_src.endswith('_') or rng.random() < 0.7 else ''
            blocks.append('%s%s%s%s%s' % (pre, g1, e_src, g2, post)); html.append('<p>%s%s%s%s%s</p>' % (pre, g1, e_html, g2, post))
    _with_defs(blocks, refdefs, rng)
    return '\n\n'.join(blocks), [('attr_list', {})], '\n'.join(html)


def gen_abbr(rng):
    abbrs = rng.sample([('HTML', 'Hyper Text Markup Language'), ('W3C', 'World Wide Web Consortium'), ('ABC', 'a "b" & c'), ('X-Y', 'ex why'), ('É', 'e acute')], rng.randint(1, 3))
    title = dict(abbrs)
    esc = lambda s: s.replace('&', '&amp;').replace('"', '&quot;')

    def use(a): return a, '<abbr title="%s">%s</abbr>' % (esc(title[a]), a)
    blocks = []; html = []; refdefs = []
    for _ in range(rng.choice([1, 2, 3])):
        a = rng.choice(abbrs)[0]
        s, h = use(a)
        pre, post = words(rng), words(rng)
        r = rng.random()
        if r < 0.2: src = '%s %s %s' % (pre, s, post); out = '%s %s %s' % (pre, h, post)
        elif r < 0.3: src = '%s `%s` %s' % (pre, s, post); out = '%s <code>%s</code> %s' % (pre, a, post)          # not in code
        elif r < 0.4: src = '%s %sq %s' % (pre, s, post); out = '%s %sq %s' % (pre, a, post)                        # inside a longer word: no
        elif r < 0.5: src = '%s (%s), %s.' % (pre, s, s); out = '%s (%s), %s.' % (pre, h, h)
        elif r < 0.6: src = '%s %s' % (s, post); out = '%s %s' % (h, post)
        elif r < 0.8:
            # the abbreviation as the text of a core construct (emphasis, every link form incl. a shortcut reference `[HTML]`)
            nb = neighbour(rng, ['shortcut', 'collapsed', 'fullref', 'link', 'em*', 'em_', 'strong'], text=(s, h))
            refdefs.extend(nb['defs'])
            src = '%s %s %s' % (pre, nb['src'], post); out = '%s %s %s' % (pre, nb['html'], post)
        else:
            # core constructs directly around the abbreviation (a word: a glued letter/digit/underscore would make a longer word)
            e_src, e_html, more = adjacent(rng, s, h, bracket_ok=True, kinds=['shortcut', 'collapsed', 'fullref', 'link', 'image', 'refimage', 'em*', 'strong',
                                                                            'code', 'auto', 'esc', 'entity', 'word'])
            refdefs.extend(more)
            src = '%s %s %s' % (pre, e_src, post); out = '%s %s %s' % (pre, e_html, post)
        _place(rng, blocks, html, src, out)
    defs = '\n'.join('*[%s]:%s%s' % (a, rng.choice([' ', '  ']), t) for a, t in abbrs)
    r = rng.random()
    if r < 0.5: blocks.append(defs)
    elif r < 0.7: blocks.insert(0, defs)
    else:                                  # directly below a one-line core block
        l, h = tight_above(rng)
        blocks.append('\n'.join(l) + '\n' + defs); html.append(h)
    _with_defs(blocks, refdefs, rng)
    return '\n\n'.join(blocks), [('abbr', {})], '\n'.join(html)


NL_KINDS = ['shortcut', 'collapsed', 'fullref', 'link', 'image', 'refimage', 'em*', 'em_', 'strong', 'code', 'auto', 'esc', 'entity']


def gen_nl2br(rng):
    blocks = []; html = []; refdefs = []
    for _ in range(rng.choice([1, 2, 3])):
        ls = []
        for j in range(rng.choice([1, 2, 2, 3, 4])):
            a, b = inline(rng)
            # the line break stands directly between core constructs: a line ends / the next line begins with one
            if rng.random() < 0.5:
                nb = neighbour(rng, NL_KINDS); g = glue(rng, a, nb['src'])
                a, b = a + g + nb['src'], b + g + nb['html']; refdefs.extend(nb['defs'])
            if j and rng.random() < 0.5:
                nb = neighbour(rng, NL_KINDS)
                if _r1(ls[-1][0], '\n', nb['src']): nb = neighbour(rng, ['em*', 'code', 'auto', 'image', 'esc'])       # rule R1 (a newline is one whitespace)
                g = glue(rng, nb['src'], a)
                a, b = nb['src'] + g + a, nb['html'] + g + b; refdefs.extend(nb['defs'])
            ls.append((a, b))
        r = rng.random()
        hard = rng.random() < 0.2          # an explicit hard break is still ONE break
        one = (not hard) and rng.random() < 0.15          # a single trailing space stays in the text, the newline is still a break
        src = ('  \n' if hard else ' \n' if one else '\n').join(l[0] for l in ls); out = (' <br />\n' if one else '<br />\n').join(l[1] for l in ls)
        _place(rng, blocks, html, src, out, (('p', 0.6), ('q', 0.2), ('li', 0.2)))
    _with_defs(blocks, refdefs, rng)
    return '\n\n'.join(blocks), [('nl2br', {})], '\n'.join(html)


def gen_sane_lists(rng):
    blocks = []; html = []; prev = None
    for _ in range(rng.choice([1, 2, 3, 4])):
        kind = rng.choice(['ol', 'ul'])
        items = [inline(rng) for _ in range(rng.choice([1, 2, 3]))]
        if kind == 'ol':
            start = rng.choice([1, 1, 2, 4, 10, 0])
            src = '\n'.join('%d. %s' % (start + j, it[0]) for j, it in enumerate(items))
            attr = '' if start == 1 else ' start="%d"' % start
        else:
            m = rng.choice('*+-')
            src = '\n'.join('%s %s' % (m, it[0]) for it in items); attr = ''
        if prev == kind:      # two lists of the same type separated by a blank line are one (loose) list: keep them apart
            blocks.append(words(rng)); html.append('<p>%s</p>' % blocks[-1])
        blocks.append(src); html.append('<%s%s>\n%s\n</%s>' % (kind, attr, '\n'.join('<li>%s</li>' % it[1] for it in items), kind))
        prev = kind
    return '\n\n'.join(blocks), [('sane_lists', {})], '\n'.join(html)


def gen_wikilinks(rng):
    cfg = {}
    if rng.random() < 0.3: cfg['base_url'] = rng.choice(['/wiki/', 'http://example.com/'])
    if rng.random() < 0.3: cfg['end_url'] = rng.choice(['.html', ''])
    if rng.random() < 0.3: cfg['html_class'] = rng.choice(['myclass', ''])
    base, end, cls = cfg.get('base_url', '/'), cfg.get('end_url', '/'), cfg.get('html_class', 'wikilink')
    blocks = []; html = []; refdefs = []
    for _ in range(rng.choice([1, 2, 3])):
        label = rng.choice(['WikiLink', 'Wiki Link', 'a-b', 'x_y', 'A1 b2 c3', 'é', '9'])
        href = base + label.replace(' ', '_') + end
        h = '<a%s href="%s">%s</a>' % (' class="%s"' % cls if cls else '', href, label)
        s = '[[%s]]' % label
        pre, post = words(rng), words(rng)
        r = rng.random()
        if r < 0.25: src = '%s %s %s' % (pre, s, post); out = '%s %s %s' % (pre, h, post)
        elif r < 0.4:
            nb = neighbour(rng, ['em*', 'em_', 'strong'], text=(s, h))             # inside emphasis
            src = '%s %s %s' % (pre, nb['src'], post); out = '%s %s %s' % (pre, nb['html'], post)
        elif r < 0.5: src = '%s, %s.' % (s, s); out = '%s, %s.' % (h, h)
        elif r < 0.57: src = '%s `%s`' % (pre, s); out = '%s <code>%s</code>' % (pre, s)
        elif r < 0.62:                         # a backslash-escaped bracket: not a wikilink
            esc_s = rng.choice(['\\' + s, '[\\' + s[1:], s[:-1] + '\\]'])
            src = '%s %s %s' % (pre, esc_s, post); out = '%s %s %s' % (pre, s, post)
        elif r < 0.66:                         # near misses: the brackets are double and touch
            nm = rng.choice(['[ [%s]]', '[[%s] ]', '[[%s]', '[%s]]']) % label
            src = '%s %s %s' % (pre, nm, post); out = src
        else:
            # core constructs directly around it (rule R1 applies: `[[W]] [RFC]` is the reference link `[text] [id]` with text `[W]`)
            e_src, e_html, more = adjacent(rng, s, h, bracket_ok=False)
            refdefs.extend(more)
            g1 = ' ' if e_src.startswith('_') or rng.random() < 0.7 else ''
            g2 = ' ' if e_src.endswith('_') or rng.random() < 0.7 else ''
            src = '%s%s%s%s%s' % (pre, g1, e_src, g2, post); out = '%s%s%s%s%s' % (pre, g1, e_html, g2, post)
        _place(rng, blocks, html, src, out)
    _with_defs(blocks, refdefs, rng)
    return '\n\n'.join(blocks), [('wikilinks', cfg)], '\n'.join(html)


MD_TAGS = ['div', 'div', 'section', 'article', 'aside', 'blockquote', 'main', 'footer']


def gen_md_in_html(rng):
    """metamorphic: expected = wrapper + convert(D) with the same extensions; -> (src, exts, None, inner D, wrapper parts)"""
    doc = g.gen_doc(rng, maxblocks=5, maxdepth=3)
    # autolinks are `<…>` tokens: inside a parsed HTML block they are tags for the HTML parser, not Markdown -- D without them
    D = g.render(_strip_autolinks(doc), random.Random(rng.getrandbits(32)))
    tag = rng.choice(MD_TAGS)
    attrs = rng.choice(['', '', ' class="x"', ' id="i" class="a b"', ' title="T &amp; t"'])
    val = rng.choice(['1', '1', 'block'])
    pos = rng.random()
    if pos < 0.5: open_ = '<%s%s markdown="%s">' % (tag, attrs, val)
    else: open_ = '<%s markdown="%s"%s>' % (tag, val, attrs)
    gap1 = rng.choice(['\n', '\n\n']); gap2 = rng.choice(['\n', '\n\n'])
    src = open_ + gap1 + D + gap2 + '</%s>' % tag
    before = after = None
    if rng.random() < 0.3:
        before = words(rng); src = before + '\n\n' + src
    if rng.random() < 0.3:
        after = words(rng); src = src + '\n\n' + after
    return src, [('md_in_html', {})], None, D, ('<%s%s>' % (tag, attrs), '</%s>' % tag, before, after)


# md_in_html, the other half of the documented rule: a block-level child that is NOT marked (or is marked `markdown="0"`) inside a marked
# parent is left alone -- "everything inside that element is ignored" -- whatever mode the parent is parsed in (block, or span: `markdown="span"`
# on any block tag, `markdown="1"` on li / td / th / dt / dd / h1-h6 / p)
RAW_PAYLOAD = ['*RAWSTAR*', '[RAWLINK](http://example.com/raw)', '`RAWCODE`', '**RAWBOLD**', '_u_', 'plain', 'w1 w2', '\\*esc', '![i](s.png)', '# nohead', '- noitem', '1. no']
RAW_CHILD = ['div', 'div', 'blockquote', 'section', 'pre', 'article']


def gen_md_raw_child(rng):
    """-> (src, payload)"""
    payload = ' '.join(rng.choice(RAW_PAYLOAD) for _ in range(rng.randint(1, 4)))
    if rng.random() < 0.3: payload += '\n' + ' '.join(rng.choice(RAW_PAYLOAD) for _ in range(rng.randint(1, 3)))
    child = rng.choice(RAW_CHILD)
    cattr = rng.choice(['', '', ' markdown="0"', ' markdown="0"', ' class="c"', ' class="c" markdown="0"'])
    raw = '<%s%s>\n%s\n</%s>' % (child, cattr, payload, child)
    k = rng.random()
    lead = rng.choice(['*parsed*', 'lead *parsed* text', '*parsed* `c`'])
    if k < 0.3:      # block parent
        tag = rng.choice(['div', 'section', 'article', 'aside'])
        src = '<%s markdown="%s">\n\n%s\n\n%s\n\n</%s>' % (tag, rng.choice(['1', 'block']), lead, raw, tag)
    elif k < 0.6:    # span parent by attribute
        tag = rng.choice(['div', 'section', 'article', 'aside'])
        src = '<%s markdown="span">\n%s\n%s\n</%s>' % (tag, lead, raw, tag)
    elif k < 0.8:    # span parent by tag: li
        lst = rng.choice(['ul', 'ol'])
        src = '<%s markdown="1">\n<li markdown="1">%s\n%s\n</li>\n</%s>' % (lst, lead, raw, lst)
    else:            # span parent by tag: td
        src = '<table markdown="1">\n<tr markdown="1">\n<td markdown="1">%s\n%s\n</td>\n</tr>\n</table>' % (lead, raw)
    return src, payload


def check_md_raw_child(src, exts, payload):
    md = _mk(exts)
    with time_limit(20):
        got = md.convert(src)
    if '<em>parsed</em>' not in got: return (got, 'the content of the marked parent rendered as Markdown (<em>parsed</em>)')
    if payload not in got: return (got, 'the text of the unmarked / markdown="0" child verbatim: ' + payload)
    if 'markdown=' in got: return (got, 'no markdown= attribute in the output')
    return None


def _strip_autolinks(doc):
    def inl(xs):
        out = []
        for x in xs:
            if x[0] in ('auto', 'mail'): out.append(['text', 'link'])
            elif x[0] in ('em', 'strong'): out.append([x[0], inl(x[1])])
            elif x[0] == 'link': out.append(['link', inl(x[1]), x[2], x[3]])
            else: out.append(x)
        return out

    def blk(bs):
        out = []
        for b in bs:
            if b[0] == 'para': out.append(['para', inl(b[1])])
            elif b[0] in ('atx', 'setext'): out.append([b[0], b[1], inl(b[2])])
            elif b[0] == 'quote': out.append(['quote', blk(b[1])])
            elif b[0] in ('ul', 'ol'): out.append([b[0], b[1], [blk(it) for it in b[2]]])
            elif b[0] == 'code': out.append(['code', [l.replace('<', '(').replace('>', ')') for l in b[1]]])
            else: out.append(b)
        return out
    return {'blocks': blk(doc['blocks'])}


GENS = {'tables': gen_tables, 'fenced_code': gen_fenced, 'def_list': gen_deflist, 'footnotes': gen_footnotes, 'admonition': gen_admonition,
        'attr_list': gen_attr_list, 'abbr': gen_abbr, 'nl2br': gen_nl2br, 'sane_lists': gen_sane_lists, 'wikilinks': gen_wikilinks}
# extensions that may ride along in part (i) without touching the generated sources (their triggers are checked)
RIDERS = ['tables', 'fenced_code', 'def_list', 'footnotes', 'admonition', 'attr_list', 'abbr', 'wikilinks', 'toc_off']


def _mk(exts, fmt='xhtml'):
    import markdown, importlib
    objs = []
    for name, cfg in exts:
        if cfg:
            mod = importlib.import_module('markdown.extensions.' + name)
            objs.append(mod.makeExtension(**cfg))
        else: objs.append(name)
    return markdown.Markdown(extensions=objs, output_format=fmt)


def _tree(html):
    f, err = H.try_read(html, 'xhtml')
    if f is None: return None, err
    return _dictify(f), None


def _dictify(forest):
    out = []
    for nd in forest:
        if nd[0] == 'e': out.append(('e', nd[1], dict(nd[2]), _dictify(nd[3])))
        else: out.append(nd)
    return out


def check_render(src, exts, want):
    """-> (problem or None, info)"""
    md = _mk(exts)
    with time_limit(20):
        got = md.convert(src)
    if got == want: return None, {}
    tw, e1 = _tree(want)
    assert tw is not None, 'oracle bug: expected html unreadable: %s: %r' % (e1, want)
    tg, e2 = _tree(got)
    if tg is None: return ('output is not well-formed: %s\n%s' % (e2, got), want), {}
    if tg != tw: return (got, want), {}
    return None, {'attr_order_only': True}


def check_md_in_html(src, exts, D, parts):
    md = _mk(exts)
    with time_limit(20):
        got = md.convert(src)
    md2 = _mk([e for e in exts if e[0] != 'md_in_html'])
    with time_limit(20):
        inner = md2.convert(D)
    open_, close, before, after = parts
    want = open_ + '\n' + inner + '\n' + close
    if before: want = '<p>%s</p>\n' % before + want
    if after: want = want + '\n<p>%s</p>' % after
    if got == want: return None
    tw, tg = _tree(want)[0], _tree(got)[0]          # the documentation does not fix the attribute order of the wrapper
    if tw is not None and tw == tg: return None
    return (got, want)


# ------------------------------------------------------------------------------------------------ (ii) documents
# near misses of every extension's trigger: a recogniser that became too permissive shows up on these (each token lacks the
# real trigger of at least the extension it imitates; the TRIGGER predicates still decide per document and extension)
NEAR_TOKENS = ['!!', '!! ', '!! note', '!!note', '! ! !', '~~', '``', '~ ~ ~', '` ` `', '~~py', '[ ^1]', '[ ^1]: n\n', '^[1]', '[1^]', '* [x]: y\n', '*\\[x]: y\n',
               '[x]: y\n', '[ [w]]', '[w]]', '[ [w] ]', '{ :', '(: #i )', ':x', ':', '\n:x', ';  x', '&#124;', '&vert;', '[toc]', '[ TOC ]', '\\!\\!\\!',
               '//Footnotes Go Here//', '-', '\n-x', '- -', '. . .', '. .', "&#39;", '&quot;']
NEAR_BLOCKS = ['!! note\n    body', '!!note\n    body', '!! note "t"\n    body', '~~\ncode\n~~', '``\ncode\n``', '~~ py\nx = 1\n~~', '`` { .py }\nx\n``',
               'term\n:def', 'term\n:', 'term\n;   def', 'term\n\n:def', '[ ^1]: note', 'x[ ^1] y[^ 1]', '* [x]: y', '*\\[x]: y', 'x [ [w]] y [w]]',
               'a &#124; b\n--- &#124; ---\n1 &#124; 2', 'a ! b\n- ! -', 'x (: #i .c )', '# h (#id)', 'p\n(: .c )', '[toc]', '[ TOC ]', '//Footnotes Go Here//',
               '- a\n- b', '1. a\n1. b', 'a\n\nb', "it&#39;s &quot;q&quot; - . . ."]
_ALPHA = None


def ni_doc(rng):
    global _ALPHA
    if _ALPHA is None:
        _ALPHA = ([t for t in G.alphabet(html=False, amp=True, ext=True) if '<' not in t] + NEAR_TOKENS, [t for t in G.LINE_OPENERS if '<' not in t] + NEAR_BLOCKS)
    r = rng.random()
    if r < 0.30: return G.soup(rng, _ALPHA[0], 1, 22), 'soup'
    if r < 0.45: return G.lines_doc(rng, openers=_ALPHA[1]), 'lines'
    if r < 0.60: return G.mutated(rng).replace('<', ''), 'mutated'
    if r < 0.80:
        parts = [rng.choice(NEAR_BLOCKS) if rng.random() < 0.7 else G.soup(rng, NEAR_TOKENS + G.WORDS + [' ', ' ', '\n'], 1, 8) for _ in range(rng.randint(1, 4))]
        return rng.choice(['\n\n', '\n\n', '\n']).join(parts), 'nearmiss'
    return g.render(g.gen_doc(rng), random.Random(rng.getrandbits(32))), 'grammar'


NI_EXTS = ['tables', 'fenced_code', 'def_list', 'footnotes', 'admonition', 'attr_list', 'abbr', 'nl2br', 'sane_lists', 'wikilinks', 'md_in_html',
           'toc', 'smarty', 'extra', 'meta']


# ------------------------------------------------------------------------------------------------ search
def _viol(kind, src, exts, obs, req, extra=None):
    c = {'kind': kind, 'extensions': [[n, c] for n, c in exts]}
    if extra: c.update(extra)
    return {'input': src, 'config': c, 'observed': obs, 'required': req, 'finding': None}


def search(driver, rng, n):
    viol = []; dist = {}; seen = set(); samples = []; cases = 0

    def bump(k, d=1): dist[k] = dist.get(k, 0) + d
    names = sorted(GENS)
    # (i) documented rendering
    for i in range(n):
        name = names[i % len(names)] if rng.random() < 0.7 else rng.choice(names)
        src, exts, want = GENS[name](rng)
        # riders: other extensions whose trigger is absent must not matter (composition of (i) and (ii))
        if rng.random() < 0.3:
            for e in rng.sample(NI_EXTS[:11], rng.randint(1, 3)):
                if e != name and e not in ('nl2br', 'sane_lists', 'md_in_html') and not TRIGGER[e](src) and e not in [x[0] for x in exts]:
                    exts = exts + [(e, {})]
        cases += 1
        try:
            prob, info = check_render(src, exts, want)
        except RecursionError:
            bump('recursion_skip'); continue
        except Exception as e:       # documented syntax must render; nothing raises on the unchanged tree
            viol.append(_viol('render', src, exts, 'conversion raised %s: %s' % (type(e).__name__, e), want, {'extension': name})); continue
        bump('render_' + name)
        if name == 'footnotes':
            labs = re.findall(r'(?<!\\)\[\^([^\]\n]*)\](?!:)', src)
            if any('fn' in x and labs.count(x) > 1 for x in labs): bump('render_footnotes_label_containing_fn_referenced_repeatedly')
        if len(exts) > 1: bump('render_with_riders')
        if _RE_REFDEF.search(src): bump('render_with_core_reference_neighbours')
        if _RE_BRACKETS.search(src): bump('render_with_bracket_adjacency')
        if '\\[' in src or '\\{' in src or '\\]' in src: bump('render_with_escaped_opener')
        if info.get('attr_order_only'): bump('render_equal_up_to_attribute_order')
        seen.add(('r', src))
        if prob: viol.append(_viol('render', src, exts, prob[0], prob[1], {'extension': name}))
        if len(samples) < 3 and i % 7 == 0: samples.append({'kind': 'render', 'extension': name, 'src': src, 'expected': want})
    for i in range(max(1, n // 4)):
        src, exts, _, D, parts = gen_md_in_html(rng)
        if rng.random() < 0.3:
            for e in rng.sample(['tables', 'fenced_code', 'def_list', 'footnotes', 'admonition', 'attr_list', 'abbr', 'wikilinks'], 2):
                if not TRIGGER[e](D): exts = exts + [(e, {})]
        cases += 1
        try:
            prob = check_md_in_html(src, exts, D, parts)
        except RecursionError:
            bump('recursion_skip'); continue
        except Exception as e:
            viol.append(_viol('md_in_html', src, exts, 'conversion raised %s: %s' % (type(e).__name__, e), 'wrapper + convert(D)', {'D': D, 'parts': list(parts)})); continue
        bump('render_md_in_html'); seen.add(('m', src))
        if prob: viol.append(_viol('md_in_html', src, exts, prob[0], prob[1], {'D': D, 'parts': list(parts)}))
    for i in range(max(1, n // 6)):
        src, payload = gen_md_raw_child(rng)
        exts = [('md_in_html', {})]
        cases += 1
        try:
            prob = check_md_raw_child(src, exts, payload)
        except RecursionError:
            bump('recursion_skip'); continue
        except Exception as e:
            viol.append(_viol('md_raw_child', src, exts, 'conversion raised %s: %s' % (type(e).__name__, e), 'raw child verbatim', {'payload': payload})); continue
        bump('render_md_raw_child'); seen.add(('mr', src))
        if prob: viol.append(_viol('md_raw_child', src, exts, prob[0], prob[1], {'payload': payload}))
    # (ii) non-interference
    mds = {}

    def conv(exts, s):
        k = tuple(exts)
        if k not in mds:
            if len(mds) > 200: mds.clear()
            import markdown
            mds[k] = markdown.Markdown(extensions=list(exts))
        m = mds[k]; m.reset()
        with time_limit(20):
            return m.convert(s)
    for _ in range(n):
        s, kind = ni_doc(rng)
        if not html_free(s): bump('ni_not_html_free_skip'); continue
        free = [e for e in NI_EXTS if not TRIGGER[e](s) and not (e in ('md_in_html', 'extra') and '<' in s)]
        if not free: bump('ni_every_trigger_present_skip'); continue
        base = []
        if rng.random() < 0.3:
            base = sorted(rng.sample([e for e in NI_EXTS if e != 'extra'], rng.randint(1, 3)))
        try:
            b = conv(base, s)
        except RecursionError:
            bump('recursion_skip'); continue
        except Exception as e:
            bump('ni_exception_skip: ' + type(e).__name__); continue
        bump('ni_docs'); bump('ni_docs_' + kind)
        if base: bump('ni_docs_with_base')
        for e in rng.sample(free, min(len(free), 4)):
            if e in base: continue
            if e == 'extra' and base: continue
            cases += 1
            try:
                w = conv(sorted(base + [e]), s)
            except RecursionError:
                bump('recursion_skip'); continue
            except Exception as ex:
                bump('ni_exception_skip: ' + type(ex).__name__); continue
            bump('ni_' + e)
            if s.strip(): seen.add(('n', s, e))
            if w != b:
                viol.append(_viol('noninterference', s, [(x, {}) for x in base], w, b, {'extension': e}))
    return {'cases': cases, 'distinct': len(seen), 'violations': viol, 'samples': samples, 'dist': dist}


def replay(witness):
    if witness.get('kind') == 'ni':
        import markdown
        base = list(witness.get('base') or [])
        return markdown.markdown(witness['text'], extensions=sorted(base + [witness['extension']])) != markdown.markdown(witness['text'], extensions=base)
    if witness.get('kind') == 'table_end_border':
        # the last cell of the header row and of the body row must show the escaped backslash: `b\\` and `d\\`
        import markdown
        out = markdown.markdown(witness['text'], extensions=['tables'])
        forest, err = H.try_read(out, 'xhtml')
        if forest is None: return True
        last = []
        for tr in H.walk(forest):
            if tr[1] == 'tr':
                cells = [c for c in tr[3] if c[0] == 'e' and c[1] in ('th', 'td')]
                if cells: last.append(H.text_of(cells[-1]))
        return last != ['b\\', 'd\\']
    return False


def replay_violation(v):
    c = v['config']; exts = [(n, cfg) for n, cfg in c['extensions']]
    try:
        if c['kind'] == 'render':
            try: return check_render(v['input'], exts, v['required'])[0] is not None
            except RecursionError: return False
            except Exception: return True
        if c['kind'] == 'md_in_html': return check_md_in_html(v['input'], exts, c['D'], tuple(c['parts'])) is not None
        if c['kind'] == 'md_raw_child': return check_md_raw_child(v['input'], exts, c['payload']) is not None
        import markdown
        base = [n for n, _ in exts]
        return markdown.markdown(v['input'], extensions=sorted(base + [c['extension']])) != markdown.markdown(v['input'], extensions=base)
    except RecursionError:
        return False
