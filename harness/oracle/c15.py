r"""C15 search oracle -- reference definitions work from anywhere, match loosely, print nothing.

A case is a SPEC: a sequence of top-level blocks -- "use" blocks (paragraph, ATX / Setext heading, tight / loose / nested list
item, quote; optionally inside emphasis) holding reference-style links / images
      [text][id]   [text] [id]   [id][]   [id]   ![alt][id]   ![id][]   ![id]
filler blocks (gen/docs.py, any kind), and for every label one definition (url, optional title) -- plus one reference to an
UNDEFINED label.  From the spec one canonical source D0 (definitions at the end, one per block, `[id]: url "title"`) and 3
variants are printed, which differ in
   * the position of every definition block among the top-level blocks (before / after the use, first, last, between fillers,
     after lists / code / quotes), alone or adjacent to other definitions, two definitions in ONE block on consecutive lines;
   * label case, independently at definition and use (ASCII letters only: one-to-one case mapping); for `[id][]` / `[id]` the
     use-site text IS the rendered text, so only the definition side is re-cased there;
   * inner white space of multi-word labels at the USE site: one space <-> several spaces <-> a line break (line break only where the
     use block may span lines: paragraphs, list items, quotes); the definition keeps single spaces.  In the 3 exact variants only full
     references are re-spaced (there the label is not rendered); a 4th variant re-spaces EVERY use form -- `[id][]`, `[id]`, `![id][]`,
     `![id]` too, where the label is also the rendered text / alt -- and is compared with D0 modulo white space;
   * title spelling "t" / 't' / (t) (only spellings whose delimiter does not occur in the title), on the same line or on the
     next line (any indentation); `<url>` / bare url; 0..3 spaces before the definition, 0..3 after the colon, url on the next line.
Required:
   (1) every variant renders exactly like D0;
   (2) in D0 every defined use is an `a` / `img` whose attributes are EXACTLY href/src = url, title = title (absent if none),
       alt = alt text -- compared after un-escaping `&amp; &lt; &gt; &quot;`;  link texts / alts are unique markers;
   (3) the definition blocks alone (joined by blank lines) render '';
   (4) the undefined reference appears literally in the output;
   (5) D0 renders exactly like the document without definitions in which every defined use is replaced by the equivalent INLINE
       link `[text](<url> "title")` / image (only when no title contains `"` and no url contains `<>()` or spaces) -- so the
       definitions leave no trace and the surrounding text is untouched.
Labels: words of ASCII letters, digits, `-`, single inner spaces, plus labels with characters whose case mapping is not one-to-one
(`ß ẞ ſ ﬁ ﬆ İ ı ŉ ǅ և`, Greek words with final sigma): these are spelt identically at definition and use (no case variants) and must resolve; never equal (case-insensitively) to a link text or to a word of the
fillers.  Titles may contain `& ' " * _ < ( )` where the spelling allows; urls `& _ % # ( )`; neither contains entities.
C15 has no known finding.
"""
import re
import markdown
from gen import docs2 as docs

NEEDS_DRIVER = False
FINDINGS = []

LABELS = ['ref', 'Ref Two', 'my id', 'k9', 'a-b', 'ID three x', 'zed', 'Long label here', 'q1 q2', 'U', 'line break', 'one two three four']
# Labels with characters whose case mapping is NOT one-to-one or is context dependent (lower() != casefold(), multi-code-point lower(),
# final sigma, ligatures, title-case digraphs).  They are spelt IDENTICALLY at definition and use (no case variation) -- then they must
# resolve; each of them does on the unchanged tree in all six use forms (checked when the list was made).
LABELS_NONASCII = ['Straße', 'große Straße', 'ſtop', 'ﬁne print', 'İstanbul', 'ΟΔΟΣ', 'ὀδός x', 'ǅ x', 'ŉ', 'ΑΣ ΣΑΣ', 'ẞ', 'ﬆ', 'ք և', 'Åland', 'I ı']
URLS = ['/u', 'http://e.x/p?a=1&b=2', 'rel/path_with_under_scores', '#frag', 'u(1)', 'x%20y', 'http://e.x/é', 'mailto:a@b.c', '../up.html', 'u*v*w', '/a&b']
TITLES = [None, None, 't', 'A title', "it's", 'say "hi"', 'a & b', '*not em*', 'x < y', '_u_ & `c`', ' padded ', 'a (b) c', 'T']
_UNESC = {'amp': '&', 'lt': '<', 'gt': '>', 'quot': '"'}


def unescape(s):
    return re.sub(r'&(amp|lt|gt|quot);', lambda m: _UNESC[m.group(1)], s)


def recase(rng, s):
    if not s.isascii(): return s          # case VARIANTS only for characters with a one-to-one case mapping (ASCII letters)
    k = rng.random()
    if k < 0.3: return s
    if k < 0.5: return s.upper()
    if k < 0.7: return s.lower()
    return ''.join(c.upper() if rng.random() < 0.5 else c.lower() for c in s)


def respace(rng, s, newline_ok):
    if ' ' not in s: return s
    return re.sub(' ', lambda m: rng.choice([' ', ' ', '  ', '   '] + (['\n', '\n', ' \n', '\n '] if newline_ok else [])), s)


# ---------------------------------------------------------------- spec
def gen_spec(rng):
    nlab = rng.choice([1, 1, 2, 2, 3, 4])
    labels = rng.sample(LABELS + LABELS_NONASCII, nlab)
    defs = {l: (rng.choice(URLS), rng.choice(TITLES)) for l in labels}
    uses = []          # one use block each
    k = 0
    for l in labels:
        for _ in range(rng.choice([1, 1, 2])):
            form = rng.choice(['full', 'full', 'full', 'full_sp', 'collapsed', 'short', 'img', 'img', 'img_collapsed', 'img_short'])
            uses.append({'label': l, 'form': form, 'text': 'Tk%d' % k, 'ctx': rng.choice(['para', 'para', 'para2', 'atx', 'setext', 'li', 'li_loose', 'li_nested', 'quote']),
                         'wrap': rng.choice(['none', 'none', 'none', 'em', 'strong']), 'pre': docs.words(rng, 0, 2), 'post': docs.words(rng, 0, 2),
                         'marker': rng.choice(['- ', '* ', '1. ', '+ '])}); k += 1
    undefined = {'label': 'nope', 'form': rng.choice(['full', 'short', 'img', 'collapsed']), 'text': 'Tu', 'ctx': rng.choice(['para', 'atx', 'li']), 'wrap': 'none',
                 'pre': 'w', 'post': 'w', 'marker': '- '}
    fillers = [t for _, t in docs.blocks(rng, rng.choice([0, 1, 1, 2, 3]), docs.Opt(code=True, html=False))]
    order = [('use', u) for u in uses] + [('use', undefined)] + [('fill', f) for f in fillers]
    rng.shuffle(order)
    return {'defs': defs, 'order': order, 'labels': labels}


def use_inline(u, label_spelling, inline_defs=None):
    """source of the reference itself"""
    f, l, t = u['form'], label_spelling, u['text']
    if inline_defs is not None and u['label'] in inline_defs:
        url, title = inline_defs[u['label']]
        tail = '(<' + url + '>' + (' "' + title + '"' if title is not None else '') + ')'
        shown = t if f in ('full', 'full_sp', 'img') else l
        return ('!' if f.startswith('img') else '') + '[' + shown + ']' + tail
    if f == 'full': return '[' + t + '][' + l + ']'
    if f == 'full_sp': return '[' + t + '] [' + l + ']'
    if f == 'collapsed': return '[' + l + '][]'
    if f == 'short': return '[' + l + ']'
    if f == 'img': return '![' + t + '][' + l + ']'
    if f == 'img_collapsed': return '![' + l + '][]'
    return '![' + l + ']'


def use_block(u, ref):
    core = {'none': ref, 'em': '*' + ref + '*', 'strong': '**' + ref + '**'}[u['wrap']]
    t = (u['pre'] + ' ' if u['pre'] else '') + core + (' ' + u['post'] if u['post'] else '')
    c, m = u['ctx'], u['marker']
    if c == 'para': return t
    if c == 'para2': return 'line one\n' + t + '\nline three'
    if c == 'atx': return '## ' + t
    if c == 'setext': return t + '\n---'
    if c == 'li': return m + 'one\n' + m + t + '\n' + m + 'three'
    if c == 'li_loose': return m + 'one\n\n' + m + t
    if c == 'li_nested': return m + 'one\n    ' + m + t
    return '> ' + t.replace('\n', '\n> ')


def def_source(rng, label, url, title, canonical=False):
    if canonical:
        return '[' + label + ']: ' + url + (' "' + title + '"' if title is not None and '"' not in title else
                                            (" '" + title + "'" if title is not None and "'" not in title else (' (' + title + ')' if title is not None else '')))
    s = ' ' * rng.choice([0, 0, 1, 2, 3]) + '[' + recase(rng, label) + ']:'
    u = '<' + url + '>' if rng.random() < 0.4 else url
    # url on the next line: a `#...` url at the left margin would be an ATX heading (block precedence), so it is indented there
    s += rng.choice([' ', ' ', '', '  ', '   ', '\n  ', ' \n    '] + ([] if u.startswith('#') else ['\n'])) + u
    if title is not None:
        forms = []
        if '"' not in title: forms.append('"' + title + '"')
        if "'" not in title: forms.append("'" + title + "'")
        if not (title.count('(') != title.count(')')): forms.append('(' + title + ')')
        s += rng.choice([' ', ' ', '  ', '\n', '\n    ', '\n ', ' \n  ']) + rng.choice(forms) + rng.choice(['', '', ' '])
    return s


def render(rng, spec, canonical, ws_all=False):
    """-> source text.  ws_all: the use-site white-space variation is applied to EVERY use form (also `[id][]`, `[id]`, `![id][]`, `![id]`, where
    the label is the rendered text / alt as well -- such a variant is compared with D0 modulo white space)"""
    blocks = []
    for kind, x in spec['order']:
        if kind == 'fill': blocks.append(x); continue
        u = x
        if canonical or u['label'] == 'nope':
            lab = u['label']
        else:
            lab = u['label']
            if ws_all and u['form'] not in ('full', 'full_sp', 'img'):
                lab = respace(rng, lab, newline_ok=u['ctx'] in ('para', 'para2', 'li', 'li_loose', 'quote'))
            elif u['form'] in ('full', 'full_sp', 'img'):
                lab = respace(rng, recase(rng, lab), newline_ok=u['ctx'] in ('para', 'para2', 'li', 'li_loose', 'quote'))
        blocks.append(use_block(u, use_inline(u, lab)))
    dsrc = [def_source(rng, l, spec['defs'][l][0], spec['defs'][l][1], canonical) for l in spec['labels']]
    if canonical:
        return '\n\n'.join(blocks + dsrc)
    rng.shuffle(dsrc)
    # group some definitions into one block (consecutive lines)
    groups = []
    for d in dsrc:
        if groups and rng.random() < 0.3: groups[-1] += '\n' + d
        else: groups.append(d)
    for g in groups:
        blocks.insert(rng.randint(0, len(blocks)), g)
    out = blocks[0]
    for b in blocks[1:]:
        out += '\n\n' + b          # exactly one blank line, as in D0 (a second one would be content of a surrounding code block)
    return out


def render_inline_equiv(spec):
    blocks = []
    for kind, x in spec['order']:
        if kind == 'fill': blocks.append(x)
        else: blocks.append(use_block(x, use_inline(x, x['label'], spec['defs'])))
    return '\n\n'.join(blocks)


def defs_only(rng, spec):
    return '\n\n'.join(def_source(rng, l, spec['defs'][l][0], spec['defs'][l][1]) for l in spec['labels'])


def simple_for_inline(spec):
    for url, title in spec['defs'].values():
        if re.search(r'[<>()\s]', url): return False
        if title is not None and ('"' in title or title != title.strip() or '`' in title or '\\' in title): return False
    return True


# ---------------------------------------------------------------- checks
_ATTR = re.compile(r'([\w:-]+)="([^"]*)"')


def attr_errors(out, spec):
    errs = []
    groups = {}
    for kind, u in spec['order']:
        if kind != 'use' or u['label'] == 'nope': continue
        shown = u['text'] if u['form'] in ('full', 'full_sp', 'img') else u['label']
        groups.setdefault((u['form'].startswith('img'), shown, u['label']), []).append(u)
    for (is_img, shown, label), us in groups.items():
        url, title = spec['defs'][label]
        if is_img:
            want = {'src': url, 'alt': shown}
            tags = [m for m in re.findall(r'<img ([^>]*?) ?/>', out) if dict((k, unescape(v)) for k, v in _ATTR.findall(m)).get('alt') == shown]
        else:
            want = {'href': url}
            tags = re.findall(r'<a ([^>]*)>' + re.escape(shown) + '</a>', out)
        if title is not None: want['title'] = title
        if len(tags) != len(us):
            errs.append('%s use %r: %d matching elements, required %d' % (us[0]['form'], shown, len(tags), len(us))); continue
        for t in tags:
            got = dict((k, unescape(v)) for k, v in _ATTR.findall(t))
            if got != want: errs.append('%s use %r: attributes %r, required %r' % (us[0]['form'], shown, got, want))
    return errs


def literal_error(out, spec):
    for kind, u in spec['order']:
        if kind == 'use' and u['label'] == 'nope':
            lit = use_inline(u, 'nope')
            if lit not in out: return 'undefined reference %r not literal in the output' % lit
    return None


_WS = re.compile(r'\s+')


def evaluate_sources(d0, variants, spec=None, defs_src=None, inline_src=None, md=None, ws_variants=()):
    """-> list of (what, observed, required)"""
    md = md or markdown.Markdown()
    o0 = md.reset().convert(d0)
    bad = []
    for v in variants:
        o = md.reset().convert(v)
        if o != o0: bad.append(('variant renders differently', {'variant': v}, repr(o), repr(o0)))
    for v in ws_variants or ():
        o = md.reset().convert(v)
        if _WS.sub(' ', o) != _WS.sub(' ', o0):
            bad.append(('variant with re-spaced labels in collapsed / short forms renders differently (modulo white space)', {'variant': v}, repr(o), repr(o0)))
    if spec is not None:
        for e in attr_errors(o0, spec): bad.append((e, {}, repr(o0), 'see message'))
        e = literal_error(o0, spec)
        if e: bad.append((e, {}, repr(o0), 'see message'))
    if defs_src is not None:
        o = md.reset().convert(defs_src)
        if o != '': bad.append(('definitions alone produce output', {'defs': defs_src}, repr(o), "''"))
    if inline_src is not None:
        o = md.reset().convert(inline_src)
        if o != o0: bad.append(('differs from the inline-link equivalent', {'inline': inline_src}, repr(o0), repr(o)))
    return bad


def _exc_violation(e, inp, config, text):
    """an unexpected exception is reported as a violation (the property cannot hold for an input that does not convert); nothing is
    tagged: the `<![` assertion F-C02-1 is repaired, a recurrence is an ordinary violation"""
    known = None
    return {'input': inp, 'config': config, 'observed': 'raised ' + repr(e), 'required': 'a conversion result', 'finding': known}


def search(driver, rng, n):
    """One case = one spec = 1 canonical + 3 variant + definitions-only (+ inline-equivalent) conversions; n counts specs / 2
    (each spec costs ~6 conversions).  distinct / non-trivial: distinct canonical sources with at least one defined use; set-measured."""
    md = markdown.Markdown()
    dist = {}
    def bump(k): dist[k] = dist.get(k, 0) + 1
    viol, samples, seen, cases = [], [], set(), 0
    for _ in range(max(1, n // 2)):
        spec = gen_spec(rng)
        d0 = render(rng, spec, True)
        variants = [render(rng, spec, False) for _ in range(3)]
        wsv = [render(rng, spec, False, ws_all=True)]
        dsrc = defs_only(rng, spec)
        inl = render_inline_equiv(spec) if simple_for_inline(spec) else None
        cases += 1
        for kind, u in spec['order']:
            if kind == 'use': bump('form:' + u['form']); bump('ctx:' + u['ctx'])
        bump('labels:%d' % len(spec['labels']))
        for l in spec['labels']:
            if not l.isascii(): bump('label:non-ascii')
            if ' ' in l: bump('label:multi-word')
        if inl is not None: bump('inline-equivalent-checked')
        for _, t in spec['defs'].values(): bump('title:' + ('none' if t is None else 'some'))
        try:
            bad = evaluate_sources(d0, variants, spec, dsrc, inl, md, wsv)
        except RecursionError:
            bump('skip:recursion'); md = markdown.Markdown(); continue
        except Exception as e:
            md = markdown.Markdown(); bump('exception:' + type(e).__name__)
            viol.append(_exc_violation(e, {'canonical': d0, 'variants': variants, 'ws_variants': wsv, 'defs_only': dsrc, 'inline_equivalent': inl, 'spec': spec}, {}, d0)); continue
        seen.add(d0)
        for what, extra, obs, req in bad:
            inp = {'canonical': d0, 'variants': variants, 'ws_variants': wsv, 'defs_only': dsrc, 'inline_equivalent': inl, 'spec': spec}
            inp.update(extra)
            viol.append({'input': inp, 'config': {}, 'observed': what + ': ' + obs, 'required': req, 'finding': None})
            break
        if not bad and len(samples) < 3 and rng.random() < 0.01: samples.append({'canonical': d0, 'variant': variants[0]})
    return {'cases': cases, 'distinct': len(seen), 'violations': viol, 'samples': samples, 'dist': dist}


def replay(witness):
    return bool(evaluate_sources(witness['canonical'], witness.get('variants', []), None, witness.get('defs_only'), witness.get('inline_equivalent'), None,
                                 witness.get('ws_variants', [])))


def replay_violation(v):
    i = v['input']
    try:
        return bool(evaluate_sources(i['canonical'], i['variants'], i.get('spec'), i.get('defs_only'), i.get('inline_equivalent'), None, i.get('ws_variants', [])))
    except Exception:
        return True
