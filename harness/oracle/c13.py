"""C13 search oracle: the real Registry against the abstract specification (stable descending sort of the
registration log), which the driver evaluates (op reg.spec).  A disagreement here is a violation of the property."""
import itertools
from corr import registry as R


FINDINGS = []


def replay(witness):
    return False


def replay_violation(v):
    """v['input'] is the history in the rendering of corr.registry.enc_real (string items and iterator operations included)"""
    import proto
    h = [R.dec_real(x) for x in v['input']]
    d = proto.Driver()
    try:
        a = d.ask('reg.spec', *[R.enc_op(o) for o in h])
    finally:
        d.close()
    return R.run_real(h) != a


def search(driver, rng, n):
    hists = [R.gen_history(rng) for _ in range(n)]
    # exhaustive: every history of length <= 3 made of register/deregister over 2 names x 2 priorities, observed by iteration
    basic = [('R', i + 1, nm, p) for i, (nm, p) in enumerate(itertools.product('ab', (0, 1)))] + [('D', 'a', True), ('D', 'b', False)]
    for L in (1, 2, 3):
        for combo in itertools.product(basic, repeat=L):
            hists.append(list(combo) + [('I',), ('L',), ('GI', -1), ('IX', 'a'), ('GS', None, None, -1)])
    # the same over neighbouring priorities that only exact comparison separates (beyond float resolution; Fraction / Decimal)
    for lo, hi in R.CLOSE_PAIRS[::3]:
        big = [('R', i + 1, nm, p) for i, (nm, p) in enumerate(itertools.product('ab', (lo, hi)))] + [('D', 'a', True)]
        for L in (2, 3):
            for combo in itertools.product(big, repeat=L):
                hists.append(list(combo) + [('I',), ('GI', -1), ('IX', 'a'), ('GS', None, None, -1)])
    hists += R.close_pair_histories()
    # string items whose value equals a later name; edits and sorting reads under an open iterator (see corr.registry)
    hists += R.string_item_histories() + R.live_iterator_histories()
    ans = driver.ask_many([('reg.spec',) + tuple(R.enc_op(o) for o in h) for h in hists])
    viol = []; seen = set()
    for h, a in zip(hists, ans):
        real = R.run_real(h)
        if R.nontrivial(h): seen.add(tuple(h))
        if real != a:
            viol.append({'input': [R.enc_real(o) for o in h], 'request': [R.enc_op(o) for o in h], 'observed': real, 'required': a, 'finding': None,
                         'note': 'observations of util.Registry differ from stableSortDesc(log ops)'})
    return {'cases': len(hists), 'distinct': len(seen), 'violations': viol,
            'samples': [{'history': [R.enc_op(o) for o in hists[0]], 'spec': ans[0]}], 'dist': {'histories': len(hists), 'wide_priority_histories': sum(1 for h in hists if R.is_wide(h)),
                     'string_item_histories': sum(1 for h in hists if any(o[0] == 'RS' for o in h)),
                     'name_equals_unregistered_item_value': sum(1 for h in hists if R.name_hits_item_value(h)),
                     'edit_under_open_iterator': sum(1 for h in hists if R.edits_under_iterator(h))}}
