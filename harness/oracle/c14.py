"""C14 search oracle: serialisation is faithful; html and xhtml differ only in spelling.

(0) escape functions: for every string s over a hostile class alphabet (exhaustively up to length 4 [5 when n >= 20 000]) and
    random longer ones:  strict_tokens(esc(s)) == lenient_tokens(s)   for  _escape_cdata, _escape_attrib_html, _escape_attrib
    (strict: no bare `<` `>` (`"` in attributes), every `&` starts an entity reference;  lenient: what the source text means:
    bare specials are themselves, an already well-formed entity reference is ONE unit and stays what it is, the four basic
    references denote their characters).  `_escape_attrib` additionally writes a newline as `&#10;`.
(a) tree level: random ElementTree trees -- tags from XML names incl. void elements (`br hr img input`, mixed case), script/style,
    Comment / ProcessingInstruction / `tag=None` nodes, QName tags (-> xmlns) and QName attribute keys/values; attribute values,
    text and tail from hostile pieces (`& < > " '`, entity shapes `&amp; &#12; &#x1f; &foo; &#x; &;`, newlines, boolean values
    = the attribute name) -- serialised by to_html_string / to_xhtml_string and read back by the STRICT reader
    (harness/htmlread2.py).  Required:  read(fmt, serialize(fmt, t)) == canon(t)  for both formats (hence both formats
    read back to the same tree: they differ only in void-element and boolean-attribute spelling), script/style text raw.
    The statement applies to well-formed trees (WFTree): names are XML names and distinct per element, void elements have
    neither text nor children (else F-C14-1, tagged), comment text has no `--` and does not end in `-`, PI text has no
    `?>`, script/style have no children and their text does not contain `</` + their tag.  Trees outside WFTree are generated with
    small probability and only counted (void-with-content ones are evaluated and tagged F-C14-1).
    One tag in seven is drawn from the names AROUND THE VOID SET (every name of the HTML void list, and names that are not in
    it but appear in other "void element" tables or differ from a void name by a letter: `command keygen menuitem bgsound
    image menu basefon hrr ...`), and a fixed family of small trees (`near_void_trees`) puts each of these names, in three
    spellings, as a child with text, attribute, child and tail: an element that is not void keeps
    its content and its end tag in both formats whatever its name is.
(b) document level: random documents (token soups with raw HTML / entities / extension syntax, spliced fixture fragments,
    line-structured documents, core-grammar documents) under random extension subsets are converted with
    output_format 'html' and 'xhtml'.  Required: the two outputs are equal after normalising exactly the two spellings
    (regex rewrite N: void tags `<br>`/`<br />`, boolean attributes `k="k"`/`k`); and, when both outputs are well-formed
    for the (void-lenient) strict reader, they read back to the same tree.

distinct / non-trivial: (0) strings containing at least one of & < > " ; (a) distinct trees (by their xhtml serialisation) with
at least one special character or special node; (b) distinct documents whose two outputs differ textually (i.e. the
normalisation had something to do).
"""
import itertools, re
import xml.etree.ElementTree as ET
import htmlread2 as H
from gen import common as G
from gen.timeout import time_limit

NEEDS_DRIVER = False

FINDINGS = [
    {'id': 'F-C14-1', 'property': 'C14', 'status': 'open',
     'what': 'a void element with text: html writes <br>x, xhtml writes <br /> (text dropped)',
     'witness': {'kind': 'tree', 'tree': ['e', 'br', [], 'x', [], None]}},
    # the same serializer behaviour reached from a DOCUMENT: md_in_html builds the elements of a `markdown="1"` container from the
    # raw tags; text that follows a block-level void tag on the same line becomes the TEXT of that void element
    {'id': 'F-C14-2', 'property': 'C14', 'status': 'open',
     'what': 'md_in_html: text after a block-level void tag inside a markdown="1" container (`<div markdown="1"><hr>x`) becomes the text of '
             'the void element; html writes `<hr>x`, xhtml writes `<hr />` and the text is lost (document-level form of F-C14-1)',
     'witness': {'kind': 'doc', 'src': '<div markdown="1"><hr>x', 'extensions': ['md_in_html']}},
    {'id': 'F-C14-2', 'property': 'C14', 'status': 'open',
     'what': 'admonition: a continuation block indented under a nested list whose last child is an `hr` (`- - x / - y / ***`) is parsed INTO the '
             '`hr` (parse_content follows last-child links without a tag test): html writes `<hr><p>text</p>`, xhtml drops the paragraph',
     'witness': {'kind': 'doc', 'src': '!!! note\n    - - x\n        - y\n        ***\n\n            text', 'extensions': ['admonition']}},
    # toc.render_inner_html serialises the heading with the format-dependent serializer and un-escapes the STRING: a backslash-escaped
    # `>` becomes a raw `>` inside an attribute value, strip_tags cuts the tag there and keeps its rest (` />` / `>` / `b="b"` / `b`)
    {'id': 'F-C14-3', 'property': 'C14', 'status': 'open',
     'what': 'toc: a backslash-escaped `>` inside an attribute value of an element in a heading (image/link title, attr_list value) makes the '
             'generated heading id and the toc entry depend on output_format (`# x![a](s "t\\>b")y`: id="xby" in html, id="xb-y" in xhtml)',
     'witness': {'kind': 'doc', 'src': '# x![a](s "t\\>b")y', 'extensions': ['toc']}},
    {'id': 'F-C14-3', 'property': 'C14', 'status': 'open',
     'what': 'toc: a backslash-escaped `>` inside an attribute value of an element in a heading: the toc entry text depends on output_format',
     'witness': {'kind': 'doc', 'src': '# ![a](s "t\\>")\n\n[TOC]', 'extensions': ['toc']}},
]

# ------------------------------------------------------------------------------------------------ (0) escapers
ALPHA = ['&', '#', 'x', 'X', ';', '0', 'a', 'g', 'ſ', '<', '>', '"', '\n', "'"]


def canon_text(s):
    return H.lenient_tokens(s)


def canon_xmlns(s):
    return tuple(('ent', '#10') if t == '\n' else t for t in H.lenient_tokens(s))


def check_escapers(s):
    """-> list of (function, observed, required)"""
    from markdown import serializers as S
    bad = []
    want = canon_text(s)
    for name, f, stop, wnt in (('_escape_cdata', S._escape_cdata, '<>', want),
                               ('_escape_attrib_html', S._escape_attrib_html, '<>"', want),
                               ('_escape_attrib', S._escape_attrib, '<>"\n', canon_xmlns(s))):
        out = f(s)
        try:
            got = H.tokens(out, name, stop)
        except H.ReadError as e:
            bad.append((name, '%r -> %r: %s' % (s, out, e), 'no character that can be mistaken for markup')); continue
        if got != wnt:
            bad.append((name, '%r -> %r reads as %r' % (s, out, H.untok(got)), 'reads as %r' % H.untok(wnt)))
    return bad


# ------------------------------------------------------------------------------------------------ (a) trees
# json-able tree description:  ['e', tag, attrs [[k, v, kq, vq]...], text, children, tail]   tag may be {'q': '{uri}local'}
#                              ['c', text, tail]  ['p', text, tail]  ['n', text, children, tail]   (tag=None)
TAGS = ['div', 'p', 'span', 'a', 'em', 'b', 'li', 'ul', 'pre', 'code', 'h1', 'td', 'x-y', 'a:b', '_t', 't.1', 'é', 'Div', 'P',
        'br', 'hr', 'img', 'input', 'BR', 'Img', 'link', 'wbr', 'source',
        'script', 'style', 'SCRIPT', 'Style']
ANAMES = ['id', 'class', 'href', 'title', 'alt', 'src', 'checked', 'disabled', 'data-x', 'xml:lang', 'a', 'b', 'Checked', 'é', '_', 'x.y', 'xmlnsx']
PIECES = ['&', '<', '>', '"', "'", '&amp;', '&lt;', '&gt;', '&quot;', '&#12;', '&#x1f;', '&#X1F;', '&foo;', '&copy;', '&#x;', '&;', '&#;', '&#12',
          '&amp', '&a b;', '\n', ' ', 'a', 'b', 'x y', 'é', '&ſ;', '&K;', '&AMP;', '&Lt;', ';', '#', '=', '/', '-', '?', ']]>', '<!-', '</p>', '<br>',
          '&#xg;', '&#1a;', '&#0;', '&x', 'amp;', '&&amp;', '&amp;amp;', '&#38;', '<a href="u">', "\t", '\r', '\x02', '\x03', '\U0001F600']
# names around the void set (the reader's table H.VOID is the HTML void list as a literal, not imported from the code under test)
NEAR_VOID = ['command', 'keygen', 'menuitem', 'bgsound', 'nextid', 'spacer', 'image', 'menu', 'nobr', 'picture', 'audio', 'video', 'object',
             'colgroup', 'frameset', 'iframe', 'noframes', 'textarea', 'button', 'select', 'option', 'basefon', 'basefonts', 'are', 'areas',
             'bas', 'bases', 'brr', 'cols', 'co', 'embeds', 'framee', 'fram', 'h', 'hrr', 'im', 'imgs', 'inputs', 'inpu', 'isindexx',
             'links', 'lin', 'metas', 'met', 'params', 'para', 'sources', 'sourc', 'tracks', 'trac', 'wb', 'wbrr', 'data', 'slot', 'template']
VOIDISH = sorted(H.VOID) + NEAR_VOID + NEAR_VOID[:9]


def near_void_trees():
    """deterministic well-formed trees: each name around the void set as a root and as a child, with content unless it is void"""
    out = []
    names = []
    for v in sorted(H.VOID): names += [v, v.upper(), v.capitalize()]
    for v in NEAR_VOID: names += [v] + ([v.upper(), v.capitalize()] if v in NEAR_VOID[:9] else [])
    for nm in names:
        void = nm.lower() in H.VOID
        text, kids = (None, []) if void else ('Save ', [['e', 'b', [], 'now', [], ' & then']])
        out.append(['e', 'menu', [['type', 'context', False, False]], 'm',
                    [['e', nm, [['label', 'save', False, False]], text, kids, ' | '], ['e', 'hr', [], None, [], 'end'],
                     ['e', nm, [['id', 'e', False, False]], None, [] if void else [['e', 'i', [], None, [], None]], None]], None])
    return out


NAME_RE = re.compile(r'^[A-Za-z_:À-ÖØ-öø-˿][-A-Za-z0-9_:.À-ÖØ-öø-˿·]*$')


def hostile(rng, lo=0, hi=5):
    return ''.join(rng.choice(PIECES) for _ in range(rng.randint(lo, hi)))


def gen_tree(rng, depth=0, allow_nonwf=False):
    r = rng.random()
    tail = hostile(rng) if depth > 0 and rng.random() < 0.6 else (hostile(rng, 0, 2) if rng.random() < 0.2 else None)
    if depth > 0 and r < 0.08:
        t = hostile(rng)
        if not allow_nonwf:
            t = t.replace('--', '- ')
            if t.endswith('-'): t += ' '
        return ['c', t, tail]
    if depth > 0 and r < 0.13:
        t = 'tgt ' + hostile(rng)
        if not allow_nonwf: t = t.replace('?>', '? >')
        return ['p', t, tail]
    if r < 0.2:
        kids = [gen_tree(rng, depth + 1, allow_nonwf) for _ in range(rng.randint(0, 3))] if depth < 3 else []
        return ['n', hostile(rng) if rng.random() < 0.7 else None, kids, tail]
    tag = rng.choice(TAGS)
    if rng.random() < 0.14:
        tag = rng.choice(VOIDISH)
        if rng.random() < 0.25: tag = rng.choice([tag.upper(), tag.capitalize()])
    local = tag
    if rng.random() < 0.1:
        uri = rng.choice(['http://u', 'u', 'a&b', 'a"b<c>', 'l1\nl2', '&amp;&#10;', '']) if rng.random() < 0.7 else hostile(rng, 1, 3).replace('}', '')
        tag = {'q': '{%s}%s' % (uri, local)}
    attrs = []; used = set()
    if isinstance(tag, dict) and tag['q'][1] != '}': used.add('xmlns')
    for _ in range(rng.choice([0, 0, 1, 1, 2, 3, 5])):
        k = rng.choice(ANAMES)
        if k in used: continue
        used.add(k)
        r2 = rng.random()
        if r2 < 0.2: v = k                                   # boolean attribute
        elif r2 < 0.25: v = k.upper()
        elif r2 < 0.3: v = ''
        else: v = hostile(rng, 0, 4)
        kq = rng.random() < 0.07
        vq = rng.random() < 0.07
        if vq: v = rng.choice(['plain', 'v1', k, 'a b', 'é'])     # a QName value is written unescaped: "assume a text only QName"
        attrs.append([k, v, kq, vq])
    low = local.lower()
    text = hostile(rng) if rng.random() < 0.7 else None
    kids = [gen_tree(rng, depth + 1, allow_nonwf) for _ in range(rng.choice([0, 0, 1, 2, 3, 4]))] if depth < 3 else []
    if low in H.VOID and not (allow_nonwf and rng.random() < 0.5):
        text = None; kids = []
    if low in H.RAWTEXT:
        if not allow_nonwf:
            kids = []
            if text: text = re.sub('</' + low, '< /' + low, text, flags=re.I)
    return ['e', tag, attrs, text, kids, tail]


def build(d):
    k = d[0]
    if k == 'c':
        e = ET.Comment(d[1]); e.tail = d[2]; return e
    if k == 'p':
        e = ET.ProcessingInstruction(d[1]); e.tail = d[2]; return e      # whole text given as the target: text = d[1]
    if k == 'n':
        e = ET.Element('x'); e.tag = None; e.text = d[1]
        for c in d[2]: e.append(build(c))
        e.tail = d[3]; return e
    tag = ET.QName(d[1]['q']) if isinstance(d[1], dict) else d[1]
    e = ET.Element(tag)
    for a, v, kq, vq in d[2]:
        e.set(ET.QName(a) if kq else a, ET.QName(v) if vq else v)
    e.text = d[3]
    for c in d[4]: e.append(build(c))
    e.tail = d[5]
    return e


def nonwf(d, out=None):
    """reasons why the statement does not apply to this tree (empty list = WFTree)"""
    out = [] if out is None else out
    k = d[0]
    if k == 'c':
        if '--' in d[1] or d[1].endswith('-'): out.append('comment-terminator')
    elif k == 'p':
        if '?>' in d[1]: out.append('pi-terminator')
    elif k == 'n':
        for c in d[2]: nonwf(c, out)
    else:
        local = d[1]['q'].split('}', 1)[1] if isinstance(d[1], dict) else d[1]
        low = local.lower()
        if not NAME_RE.match(local): out.append('tag-not-a-name')
        for a in d[2]:
            if not NAME_RE.match(a[0]): out.append('attr-not-a-name')
        if low in H.VOID and (d[3] or d[4]): out.append('void-with-content')
        if low in H.RAWTEXT:
            if d[4]: out.append('rawtext-with-children')
            if d[3] and re.search('</' + re.escape(low), d[3], re.I): out.append('rawtext-terminator')
        for c in d[4]: nonwf(c, out)
    return out


def _merge(nodes):
    out = []
    for nd in nodes:
        if nd[0] == 't':
            if not nd[1]: continue
            if out and out[-1][0] == 't': out[-1] = ('t', out[-1][1] + nd[1]); continue
        out.append(nd)
    return out


def canon(d):
    """the forest the tree denotes: list of reader-shaped nodes (attrs as a dict), followed by its tail"""
    k = d[0]
    if k == 'c': res = [('c', canon_text(d[1]))]; tail = d[2]
    elif k == 'p': res = [('p', canon_text(d[1]))]; tail = d[2]
    elif k == 'n':
        res = [('t', canon_text(d[1] or ''))]
        for c in d[2]: res += canon(c)
        tail = d[3]
    else:
        if isinstance(d[1], dict): uri, local = d[1]['q'][1:].split('}', 1)
        else: uri, local = None, d[1]
        attrs = {}
        for a, v, kq, vq in d[2]:
            attrs[a] = tuple(v) if vq else canon_text(v)
        if uri: attrs['xmlns'] = canon_xmlns(uri)
        low = local.lower()
        kids = []
        if low in H.VOID: pass
        elif low in H.RAWTEXT:
            if d[3]: kids.append(('r', d[3]))
        else:
            kids.append(('t', canon_text(d[3] or '')))
            for c in d[4]: kids += canon(c)
        res = [('e', local, attrs, _merge(kids))]
        tail = d[5]
    res.append(('t', canon_text(tail or '')))
    return _merge(res)


def _dictify(forest, rawnorm=None):
    out = []
    for nd in forest:
        if nd[0] == 'e': out.append(('e', nd[1], dict(nd[2]), _dictify(nd[3], rawnorm)))
        elif nd[0] == 'r' and rawnorm: out.append(('r', rawnorm(nd[1])))
        else: out.append(nd)
    return out


def _show(forest):
    out = []
    for nd in forest:
        if nd[0] == 'e': out.append([nd[1], {k: H.untok(v) for k, v in sorted(nd[2].items())}, _show(nd[3])])
        elif nd[0] == 'r': out.append({'raw': nd[1]})
        else: out.append({nd[0]: H.untok(nd[1])})
    return out


def check_tree(d):
    """-> list of (code, observed, required)"""
    from markdown.serializers import to_html_string, to_xhtml_string
    probs = []
    want = canon(d)
    reads = {}
    for fmt, f in (('html', to_html_string), ('xhtml', to_xhtml_string)):
        s = f(build(d))
        forest, err = H.try_read(s, fmt)
        if forest is None:
            probs.append(('read-' + fmt, '%s output %r is not strictly readable: %s' % (fmt, s, err), 'escaped so that it cannot be mistaken for markup'))
            continue
        got = _dictify(forest); reads[fmt] = got
        if got != want:
            probs.append(('tree-' + fmt, '%s output %r reads back as %r' % (fmt, s, _show(got)), 'the tree %r' % _show(want)))
    if len(reads) == 2 and reads['html'] != reads['xhtml'] and not probs:
        probs.append(('fmt', 'html and xhtml read back differently', 'same tree'))
    return probs


# ------------------------------------------------------------------------------------------------ (b) documents
VOIDS = '|'.join(sorted(H.VOID))
RE_VOID = re.compile(r'<(%s)((?:\s[^<>]*?)?)\s*/?>' % VOIDS, re.I)
RE_BOOL = re.compile(r'(\s)([^\s="<>/]+)="\2"(?=[\s/>])')


def norm(s):
    """rewrite exactly the two spellings in which the formats may differ"""
    s = RE_BOOL.sub(r'\1\2', s)
    return RE_VOID.sub(lambda m: '<%s%s>' % (m.group(1), m.group(2).rstrip()), s)


def gen_doc(rng):
    r = rng.random()
    if r < 0.30: return G.soup(rng, G.alphabet(html=True, amp=True, ext=True), 1, 25), 'soup'
    if r < 0.45: return G.soup(rng, G.alphabet(html=False, amp=True, ext=True) + BOOLY, 1, 20), 'soup-bool'
    if r < 0.65: return G.mutated(rng), 'mutated'
    if r < 0.80: return G.lines_doc(rng), 'lines'
    if r < 0.90:
        from gen import grammar
        import random as _random
        return grammar.render(grammar.gen_doc(rng), _random.Random(rng.getrandbits(32))), 'grammar'
    return '\n\n'.join(rng.choice(BLOCKY) for _ in range(rng.randint(1, 6))), 'blocky'


BOOLY = ['![alt](u)', '[x](href)', '[t](u "title")', '![src](src)', '{: checked=checked }', '{: .c #i hidden=hidden }', '  \n', '  \n', '---\n\n',
         '![a"b](u "t")', '<http://a.b/?x=1&y=2>', '<a@b.c>', '[^1]', '[^1]: n\n', '* * *\n\n', '`<br>`', '&copy;', '&', '<']
BLOCKY = ['a  \nb', '***', '![alt](/u "alt")', '<div>\n*raw* <br> <hr/>\n</div>', '<br />', 'x <br> y <input disabled> z <img src=a>', '<hr class="x">',
          '| a | b |\n|---|:-:|\n| `x` | <br> |', '```\n<br>\n```', '- a  \n  b\n- ![i](u)', '> q  \n> r', '# h  \nx', 'Term\n: def  \n  more',
          '<div markdown="1">\n*md*  \nx\n\n---\n</div>', '!!! note\n    a  \n    b', '[TOC]\n\n# t ![alt](alt)', 'x[^1]\n\n[^1]: n  \n    m',
          '*[HTML]: Hyper\n\nHTML  \nx', '<input checked="checked">', 'a <span title="title">s</span>', "'q' -- ... <<x>>", '[[wiki link]]',
          '<p>para <img alt=alt></p>', '<script>a<br>b</script>', '<!-- c <br> -->', '    code <br />', '<?php <br> ?>', 'a\\\nb', '&amp; &lt; <b>&</b>']


def _void_probe(strip):
    """an extension whose tree processor runs LAST (after `unescape`): counts the void elements (serializers.HTML_EMPTY) that carry text
    or children in the final tree and, with `strip`, empties them"""
    from markdown.treeprocessors import Treeprocessor
    from markdown.extensions import Extension
    from markdown.serializers import HTML_EMPTY

    class Probe(Treeprocessor):
        hits = 0

        def run(self, root):
            for el in root.iter():
                if isinstance(el.tag, str) and el.tag.lower() in HTML_EMPTY and (el.text or len(el)):
                    self.hits += 1
                    if strip:
                        el.text = None
                        for c in list(el): el.remove(c)

    class Ext(Extension):
        def extendMarkdown(self, md):
            self.probe = Probe(md)
            md.treeprocessors.register(self.probe, 'c14_void_probe', -1000)

        def hook(self, md):
            """the same on every element handed to `md.serializer` outside the final tree: md_in_html serialises the elements of a
            `markdown="1"` container that is still in the stash (e.g. one that sits inside a footnote body) in its post-processor"""
            orig = md.serializer
            probe = self.probe

            def ser(el):
                probe.run(el)
                return orig(el)
            md.serializer = ser
    return Ext()


def in_region_void_content(src, exts):
    """NARROW region of F-C14-2: the final tree of the document has a void element with text or children, AND with exactly that
    content removed (nothing else changed) the document satisfies the requirement -- i.e. void content is the whole difference"""
    import markdown
    hits = 0
    for fmt in ('html', 'xhtml'):
        e = _void_probe(False)
        md = markdown.Markdown(extensions=list(exts) + [e], output_format=fmt)
        e.hook(md)
        with time_limit(20): md.convert(src)
        hits += e.probe.hits
    if not hits: return False
    probs, _ = check_doc(src, exts, strip_void_content=True)
    return not probs


ESC_GT = '\x0262\x03'      # what the backslash escape `\\>` is in the tree until the last post-processor: STX 62 ETX


def _heading_gt_probe(neutralise):
    """an extension whose tree processor runs directly BEFORE toc's: counts the attribute values of elements inside h1-h6 (the heading
    itself included) that contain a backslash-escaped `>` and, with `neutralise`, replaces that escape there by the letters GT"""
    from markdown.treeprocessors import Treeprocessor
    from markdown.extensions import Extension

    class Probe(Treeprocessor):
        hits = 0

        def run(self, root):
            for h in root.iter():
                if not (isinstance(h.tag, str) and re.fullmatch(r'[hH][1-6]', h.tag)): continue
                for el in h.iter():
                    for k, v in list(el.attrib.items()):
                        if isinstance(v, str) and ESC_GT in v:
                            self.hits += 1
                            if neutralise: el.set(k, v.replace(ESC_GT, 'GT'))

    class Ext(Extension):
        active = False

        def extendMarkdown(self, md):
            self.probe = Probe(md)
            prio = {name: pr for name, pr in md.treeprocessors._priority}.get('toc') if 'toc' in md.treeprocessors else None
            if prio is not None:
                self.active = True
                md.treeprocessors.register(self.probe, 'c14_heading_gt_probe', prio + 0.5)
    return Ext()


def in_region_toc_escaped_gt(src, exts):
    """NARROW region of F-C14-3: the toc tree processor is registered, some element inside a heading has an attribute value with a
    backslash-escaped `>` when toc runs, AND with exactly those escapes replaced (nothing else changed) the document satisfies the
    requirement -- i.e. these escapes are the whole difference"""
    import markdown
    hits = 0
    for fmt in ('html', 'xhtml'):
        e = _heading_gt_probe(False)
        md = markdown.Markdown(extensions=list(exts) + [e], output_format=fmt)      # the probe is last in the list: toc is registered by then
        if not e.active: return False
        with time_limit(20): md.convert(src)
        hits += e.probe.hits
    if not hits: return False
    probs, _ = check_doc(src, exts, probes=lambda: [_heading_gt_probe(True)])
    return not probs


def check_doc(src, exts, strip_void_content=False, probes=None):
    """-> (problems, info)"""
    import markdown
    probs = []; info = {}
    outs = {}
    for fmt in ('html', 'xhtml'):
        vp = [_void_probe(True)] if strip_void_content else []
        md = markdown.Markdown(extensions=list(exts) + vp + (probes() if probes else []), output_format=fmt)
        if vp: vp[0].hook(md)
        with time_limit(20):
            outs[fmt] = md.convert(src)
    info['differ'] = outs['html'] != outs['xhtml']
    nh, nx = norm(outs['html']), norm(outs['xhtml'])
    if nh != nx:
        probs.append(('doc-norm', 'html: %r\nxhtml: %r' % (outs['html'], outs['xhtml']), 'equal up to void-element and boolean-attribute spelling'))
    fh, eh = H.try_read(outs['html'], 'html', lenient_void=True)
    fx, ex = H.try_read(outs['xhtml'], 'xhtml', lenient_void=True)
    info['readable'] = fh is not None and fx is not None
    # (script/style content is raw for the reader, but Markdown does process the inside of an INLINE <script>…</script> pair --
    #  only the two tags are stashed -- so a generated <br> can sit in there: raw text is compared up to the same rewrite)
    if info['readable'] and _dictify(fh, norm) != _dictify(fx, norm):
        probs.append(('doc-read', 'html: %r\nxhtml: %r' % (outs['html'], outs['xhtml']), 'both outputs read back to the same tree'))
    return probs, info


# ------------------------------------------------------------------------------------------------ search
_NEAR = frozenset(NEAR_VOID)


def _has_near_void_content(d):
    if d[0] == 'e':
        local = d[1]['q'].split('}', 1)[1] if isinstance(d[1], dict) else d[1]
        if local.lower() in _NEAR and (d[3] or d[4]): return True
    kids = d[4] if d[0] == 'e' else d[2] if d[0] == 'n' else []
    return any(_has_near_void_content(c) for c in kids)


def _viol(kind, inp, cfg, code, obs, req, finding=None):
    return {'input': inp, 'config': dict(cfg, kind=kind), 'observed': '[%s] %s' % (code, obs), 'required': req, 'finding': finding}


def search(driver, rng, n):
    viol = []; dist = {}; samples = []; cases = 0
    seen = set()

    def bump(k, d=1): dist[k] = dist.get(k, 0) + d
    # (0) escapers
    maxlen = 5 if n >= 20000 else 4
    for L in range(0, maxlen + 1):
        for tup in itertools.product(ALPHA, repeat=L):
            s = ''.join(tup); cases += 1
            if L and any(c in s for c in '&<>"'): seen.add(('s', s))
            for fn, obs, req in check_escapers(s):
                viol.append(_viol('esc', s, {'function': fn}, 'esc', obs, req))
    bump('esc_exhaustive_maxlen', maxlen); bump('esc_exhaustive_strings', cases)
    for _ in range(n):
        s = hostile(rng, 1, 8); cases += 1; bump('esc_random_strings')
        if any(c in s for c in '&<>"'): seen.add(('s', s))
        for fn, obs, req in check_escapers(s):
            viol.append(_viol('esc', s, {'function': fn}, 'esc', obs, req))
    # (a) trees
    from markdown.serializers import to_xhtml_string
    fixed = near_void_trees()
    bump('trees_near_void_fixed', len(fixed))
    for i in range(len(fixed) + 2 * n):
        allow = i >= len(fixed) and rng.random() < 0.04
        d = fixed[i] if i < len(fixed) else gen_tree(rng, 0, allow)
        why = nonwf(d)
        cases += 1
        if why and why != ['void-with-content'] * len(why):
            for w in sorted(set(why)): bump('tree_outside_statement: ' + w)
            continue
        try:
            probs = check_tree(d)
            key = to_xhtml_string(build(d))
        except RecursionError:
            bump('recursion_skip'); continue
        bump('trees')
        if why: bump('trees_in_region_F-C14-1')
        if re.search(r'[&<>"]|<!--|<\?', key.replace('<', '', 1)): seen.add(('t', key))
        for c in ('c', 'p', 'n'):
            if ("['%s'," % c) in repr(d): bump('trees_with_' + {'c': 'comment', 'p': 'pi', 'n': 'none_tag'}[c])
        if "{'q':" in repr(d): bump('trees_with_qname_tag')
        if _has_near_void_content(d): bump('trees_with_near_void_name_with_content')
        for code, obs, req in probs:
            viol.append(_viol('tree', d, {}, code, obs, req, 'F-C14-1' if why else None))
        if len(samples) < 2 and len(key) > 60: samples.append({'kind': 'tree', 'tree': d, 'xhtml': key})
    # (b) documents
    for _ in range(n):
        src, kind = gen_doc(rng)
        exts = G.ext_subset(rng)
        cases += 1
        try:
            probs, info = check_doc(src, exts)
        except RecursionError:
            bump('recursion_skip'); continue
        except Exception as e:
            bump('doc_exception_skip: ' + type(e).__name__); continue     # totality is C02's business
        bump('docs'); bump('docs_' + kind)
        if info['differ']: bump('docs_outputs_differ'); seen.add(('d', src, tuple(exts)))
        if info['readable']: bump('docs_both_strictly_readable')
        fid = None
        if probs:
            try:
                if in_region_void_content(src, exts): fid = 'F-C14-2'; bump('docs_in_region_F-C14-2')
                elif in_region_toc_escaped_gt(src, exts): fid = 'F-C14-3'; bump('docs_in_region_F-C14-3')
            except Exception:
                fid = None
        for code, obs, req in probs:
            viol.append(_viol('doc', src, {'extensions': exts}, code, obs, req, fid))
        if len(samples) < 4 and info['differ']: samples.append({'kind': 'doc', 'src': src, 'extensions': exts})
    return {'cases': cases, 'distinct': len(seen), 'violations': viol, 'samples': samples, 'dist': dist}


def _fails(kind, inp, cfg):
    if kind == 'esc': return bool(check_escapers(inp))
    if kind == 'tree': return bool(check_tree(inp))
    try:
        return bool(check_doc(inp, cfg.get('extensions', []))[0])
    except RecursionError:
        return False


def replay(witness):
    return _fails(witness.get('kind', 'tree'), witness.get('tree', witness.get('src')), witness)


def replay_violation(v):
    c = v.get('config') or {}
    return _fails(c.get('kind', 'doc'), v['input'], c)
