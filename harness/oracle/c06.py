"""C06 search oracle — no visible text is lost, duplicated or reordered.

Property as evaluated: for a document of the domain (no `<`, no `&`, no `[`, no `]` — hence no raw HTML, no entity
reference, no link/reference/image syntax; core, no extensions) the sequence of LETTERS (characters with
str.isalpha(), any script) of the source equals the sequence of letters of the text content of the output (output read
by the strict reader, tags dropped, entities decoded; attributes are not text — there are none in this domain).
Digits and punctuation are not compared: an ordered-list marker `12.` is markup.  Every generated document uses
pairwise distinct words, so that a drop, a duplication and a swap all change the letter sequence.
An output the strict reader rejects is counted in dist (`unreadable`) and reported as a violation only of C05, not here;
a raising conversion is counted (`exceptions`), not reported (C02).

Besides the generated documents every search evaluates ONE long document (`long_document()`, 10 003 paragraphs with one emphasised word
each, deterministic): more than 10 000 inline nodes are stashed in a single conversion, the stash ids outgrow four digits.

distinct / non-trivial: distinct documents whose output has an element other than `p` (some markup really acted)."""
import markdown
import htmlread
from gen import c06_docs as D

NEEDS_DRIVER = False
MULT = 3
FINDINGS = []          # no known finding for C06
FORBIDDEN = '<&[]'


def letters(s):
    return ''.join(c for c in s if c.isalpha())


def in_domain(text):
    return not any(c in text for c in FORBIDDEN)


def _diff(a, b):
    i = 0
    while i < len(a) and i < len(b) and a[i] == b[i]: i += 1
    return 'first difference at letter %d: source …%s|%s… output …%s|%s…' % (i, a[max(0, i - 8):i], a[i:i + 12], b[max(0, i - 8):i], b[i:i + 12])


def evaluate(md, text):
    """-> (status, detail, out): ok | violation | skipped | exception | unreadable"""
    if not in_domain(text):
        return 'skipped', None, None
    try:
        md.reset(); out = md.convert(text)
    except Exception as e:
        return 'exception', type(e).__name__, None
    try:
        f = htmlread.forest(out)
    except htmlread.NotWellFormed as e:
        return 'unreadable', str(e), out
    a = letters(text); b = letters(htmlread.text_content(f))
    if a != b:
        kind = 'lost' if len(b) < len(a) else 'duplicated/added' if len(b) > len(a) else 'reordered/changed'
        return 'violation', 'letters %s (%d in source, %d in output); %s' % (kind, len(a), len(b), _diff(a, b)), out
    return 'ok', None, out


def _word(i):
    s = ''
    while True:
        s = 'abcdefghijklmnopqrstuvwxyz'[i % 26] + s; i //= 26
        if not i: return 'w' + s


def long_document(k=10003):
    """ONE long document: more than 10 000 stashed inline nodes in a single conversion (the stash numbering is per document, its ids
    outgrow four digits): k paragraphs of distinct words, one emphasised word each"""
    return '\n\n'.join('plain %s and *%s*' % (_word(2 * i), _word(2 * i + 1)) for i in range(k))


def search(driver, rng, n):
    md = markdown.Markdown()
    viol = []; seen = set(); samples = []
    dist = {'kinds': {}, 'exceptions': {}, 'unreadable': 0, 'skipped_outside_domain': 0, 'tags': {}, 'letters_max': 0, 'len_max': 0,
            'escapes': 0, 'lazy_or_nested_depth3': 0}
    cases = 0
    tags = ('h1', 'h2', 'h3', 'h4', 'h5', 'h6', 'ul', 'ol', 'li', 'blockquote', 'pre', 'code', 'hr', 'br', 'em', 'strong')
    gen = lambda i: (('long-document', long_document()) if i < 0 else D.gen(rng))
    for i in range(-1, MULT * n):           # i == -1: the long document (deterministic, not from rng)
        kind, text = gen(i)
        status, why, out = evaluate(md, text)
        if status == 'skipped':
            dist['skipped_outside_domain'] += 1; continue
        cases += 1
        dist['kinds'][kind] = dist['kinds'].get(kind, 0) + 1
        if status == 'exception':
            dist['exceptions'][why] = dist['exceptions'].get(why, 0) + 1
            md = markdown.Markdown(); continue
        if status == 'unreadable':
            dist['unreadable'] += 1; continue
        dist['len_max'] = max(dist['len_max'], len(text)); dist['letters_max'] = max(dist['letters_max'], len(letters(text)))
        if '\\' in text: dist['escapes'] += 1
        if status == 'violation':
            viol.append({'input': text if kind != 'long-document' else text[:60] + ' ... (long_document())', 'config': {'extensions': [], 'kind': kind}, 'observed': '%s; output %r' % (why, out[:400]),
                         'required': 'letters of the text content of the output == letters of the source, in order', 'finding': None})
            continue
        hit = False
        for t in tags:
            if '<' + t in out:
                dist['tags'][t] = dist['tags'].get(t, 0) + 1; hit = True
        if hit: seen.add(text)
        if out.count('<blockquote>') + out.count('<ul>') + out.count('<ol>') >= 3: dist['lazy_or_nested_depth3'] += 1
        if len(samples) < 5 and i >= 0 and i % max(1, (MULT * n) // 5) == 0:
            samples.append({'kind': kind, 'input': text, 'output': out[:400]})
    viol.sort(key=lambda v: len(v['input']))
    return {'cases': cases, 'distinct': len(seen), 'violations': viol[:20], 'samples': samples, 'dist': dist}


def replay(witness):
    status, why, out = evaluate(markdown.Markdown(), witness['text'])
    return status == 'violation'


def replay_violation(v):
    return replay({'text': v['input'] if v.get('config', {}).get('kind') != 'long-document' else long_document()})
