"""C05 search oracle — text cannot inject markup.

Property as evaluated: for every input WITHOUT `<` (core, no extensions, default xhtml output) the output string is
accepted by the strict reader `htmlread.forest` (every `<` starts a well-formed start/end tag with double-quoted
attribute values, every `&` starts an entity reference as the serializer defines it, `>` never bare, `"` never bare in an
attribute value, elements nested and closed, `br hr img` self-closed) and every element is in the Markdown vocabulary
with attribute names among href, title, src, alt.  Nothing else is demanded (which attribute sits on which element,
what the values are, leaked placeholders — F-C10-* — are other properties' business; STX/ETX count as ordinary
characters for the reader).  A conversion that raises is counted in dist (`exceptions`) — totality is C02.

distinct / non-trivial: distinct inputs whose output contains an attribute, an entity reference or an element other
than `p` (i.e. something the escaping/quoting rules had to act on).
The soups also spell the converter's own ampersand substitute (STX `amp` ETX) in the input: input normalisation removes STX/ETX, so it must
stay the word `amp` (gen/c05_soups.py AMP)."""
import markdown
import htmlread
from gen import c05_soups as S

NEEDS_DRIVER = False
MULT = 4               # conversions are cheap (0.2 ms): 4 generated inputs per unit of budget, plus the exhaustive short strings
FINDINGS = []          # no known finding for C05

VOCAB = {'p', 'h1', 'h2', 'h3', 'h4', 'h5', 'h6', 'ul', 'ol', 'li', 'blockquote', 'pre', 'code', 'hr', 'br', 'em', 'strong', 'a', 'img'}
ATTRS = {'href', 'title', 'src', 'alt'}
REQUIRED = 'well-formed XHTML fragment over ' + ','.join(sorted(VOCAB)) + ' with attributes among ' + ','.join(sorted(ATTRS))


def check(out):
    """-> (None, forest) if the output satisfies the property, else (reason, None)"""
    try:
        f = htmlread.forest(out, 'xhtml')
    except htmlread.NotWellFormed as e:
        return 'not well-formed: %s; context %r' % (e, out[max(0, e.pos - 30):e.pos + 30]), None
    for tag, attrs, _ in htmlread.elements(f):
        if tag not in VOCAB:
            return 'element <%s> outside the vocabulary' % tag, None
        for k, _v in attrs:
            if k not in ATTRS:
                return 'attribute %s on <%s> outside href/title/src/alt' % (k, tag), None
    return None, f


def convert(md, text):
    md.reset()
    return md.convert(text)


def evaluate(md, text):
    """-> (status, reason, out): status ok | violation | exception | skipped"""
    if '<' in text:
        return 'skipped', None, None
    try:
        out = convert(md, text)
    except Exception as e:   # C02's business
        return 'exception', type(e).__name__, None
    why, f = check(out)
    return ('violation' if why else 'ok'), why, out


def search(driver, rng, n):
    md = markdown.Markdown()
    viol = []; seen = set(); samples = []
    dist = {'kinds': {}, 'exceptions': {}, 'tags': {}, 'attrs': {}, 'in_amp': 0, 'in_dquote': 0, 'in_squote': 0, 'in_ctrl': 0, 'in_backslash': 0,
            'out_entities': 0, 'out_quot_in_attr': 0, 'out_gt_escaped': 0, 'out_amp_escaped': 0, 'exhaustive_maxlen': 0, 'len_max': 0}
    L = 3 if n < 20000 else 4 if n < 300000 else 5
    dist['exhaustive_maxlen'] = L
    cases = 0

    def one(kind, text):
        nonlocal cases
        status, why, out = evaluate(md, text)
        if status == 'skipped':
            return
        cases += 1
        dist['kinds'][kind] = dist['kinds'].get(kind, 0) + 1
        if status == 'exception':
            dist['exceptions'][why] = dist['exceptions'].get(why, 0) + 1
            # a raising conversion may leave parser state behind (F-C11-1): take a fresh instance
            return 'fresh'
        if '&' in text: dist['in_amp'] += 1
        if '"' in text: dist['in_dquote'] += 1
        if "'" in text: dist['in_squote'] += 1
        if '\\' in text: dist['in_backslash'] += 1
        if any(ord(c) < 32 and c not in '\n\t' for c in text): dist['in_ctrl'] += 1
        dist['len_max'] = max(dist['len_max'], len(text))
        if status == 'violation':
            viol.append({'input': text, 'config': {'extensions': [], 'output_format': 'xhtml', 'kind': kind}, 'observed': '%s; output %r' % (why, out[:300]),
                         'required': REQUIRED, 'finding': None})
            return
        if '&' in out or '="' in out or out.replace('<p>', '').replace('</p>', '').find('<') >= 0:
            seen.add(text)
        if '&' in out:
            dist['out_entities'] += 1
            if '&gt;' in out: dist['out_gt_escaped'] += 1
            if '&amp;' in out: dist['out_amp_escaped'] += 1
        if '="' in out:
            f = htmlread.forest(out)
            for tag, attrs, _ in htmlread.elements(f):
                for k, v in attrs:
                    dist['attrs'][k] = dist['attrs'].get(k, 0) + 1
                    if '"' in v: dist['out_quot_in_attr'] += 1
        if kind != 'exhaustive':
            for t in VOCAB:
                if '<' + t in out:
                    dist['tags'][t] = dist['tags'].get(t, 0) + 1
        if len(samples) < 6 and kind != 'exhaustive' and cases % 97 == 0:
            samples.append({'kind': kind, 'input': text, 'output': out[:300]})

    for text in S.exhaustive(L):
        if one('exhaustive', text) == 'fresh':
            md = markdown.Markdown()
    for _ in range(MULT * n):
        kind, text = S.gen(rng)
        if one(kind, text) == 'fresh':
            md = markdown.Markdown()
    viol.sort(key=lambda v: len(v['input']))
    return {'cases': cases, 'distinct': len(seen), 'violations': viol[:20], 'samples': samples, 'dist': dist}


def replay(witness):
    md = markdown.Markdown()
    status, why, out = evaluate(md, witness['text'])
    return status == 'violation'


def replay_violation(v):
    return replay({'text': v['input']})
